#!/bin/bash
# dev_try.sh <patch|-> <PROP> <runs> [family] [-stmt]: single-process trial of a patch (or of the clean tree with "-")
# on a dev scratch; light on CPU (one worker), for use while something else occupies the machine.
P=$1; PROP=$2; N=$3; FAM=$4; STMT=$5
cd /repo
if [ "$P" != "-" ]; then git apply $P || { echo "PATCH DOES NOT APPLY"; exit 9; }; fi
/verif/bin/devscratch.sh /tmp/devt $STMT >/dev/null 2>&1
git -C /repo checkout -q -- .
cd /tmp/devt || exit 2
[ -x worker.bin ] || { echo "BUILD FAILED"; exit 2; }
ARGS="-prop $PROP -n $N -seed ${VERIF_SEED:-4242} -out /tmp/devt/r.json"
[ -n "$FAM" ] && [ "$FAM" != "-" ] && ARGS="$ARGS -fam $FAM"
./worker.bin $ARGS 2>&1 | tail -1
python3 - <<'PY'
import json,collections
d=json.load(open('/tmp/devt/r.json'))
c=collections.Counter(); ex={}
for v in d.get('violations') or []:
    k=(v['violation']['class'],v['violation']['site'][:70]); c[k]+=1; ex.setdefault(k,v['violation']['message'][:300])
print('runs',d['evaluations'],'violations',d['n_violations'],'harness_errors',d.get('harness_errors'))
for k,n in c.most_common(6): print(' ',n,k,'|',ex[k])
PY
rm -rf /tmp/devt
