"""pyedit: exec(open('/verif/tools/pyedit.py').read()); edit(path, [(old, new), ...]) — each old must occur exactly once"""
def edit(p, pairs):
    s=open(p).read()
    for a,b in pairs:
        assert s.count(a)==1,(p,s.count(a),a[:100])
        s=s.replace(a,b)
    open(p,'w').write(s)
