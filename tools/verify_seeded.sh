#!/bin/bash
# verify_seeded.sh <worktree> <patch> <demo_test.go> <pkgdir> <run-regexp> [extra go test flags]
# Confirms: suite green with patch; demo fails with patch; demo passes without.
export GOFLAGS=-mod=mod GOPROXY=off GOSUMDB=off GOTOOLCHAIN=local
W=$1; P=$2; D=$3; PKG=$4; RUN=$5; shift 5
cd $W || exit 9
git checkout -q -- . && git clean -qfd
git apply $P || { echo "PATCH DOES NOT APPLY"; exit 9; }
go build ./... || { echo "BUILD FAILS"; exit 9; }
# the gmtls tests bind fixed ports: serialise via flock
SUITE=$(flock /tmp/mut/suite.lock go test -vet=off -count=1 ./sm2/... ./sm3/... ./sm4/... ./x509/... ./pkcs12/... ./gmtls ./gmtls/websvr 2>&1 | grep -E "^(ok|FAIL|---)" | tr '\n' ' ')
echo "SUITE with patch: $SUITE"
cp $D $PKG/zz_demo_test.go
WITH=$(flock /tmp/mut/suite.lock go test -vet=off -count=1 -run "$RUN" "$@" ./$PKG 2>&1 | tail -3 | tr '\n' ' ')
echo "DEMO with patch: $WITH"
git checkout -q -- . 
WITHOUT=$(flock /tmp/mut/suite.lock go test -vet=off -count=1 -run "$RUN" "$@" ./$PKG 2>&1 | tail -3 | tr '\n' ' ')
echo "DEMO without patch: $WITHOUT"
rm -f $PKG/zz_demo_test.go; git checkout -q -- . ; git clean -qfd
