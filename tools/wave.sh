#!/bin/bash
# wave.sh <id> <prop> <pkg> <run1> <run2>   : verify + try both patches of an agent
ID=$1; PROP=$2; PKG=$3; R1=$4; R2=$5
for n in 1 2; do
  R=$R1; [ $n = 2 ] && R=$R2
  echo "#### $ID patch$n"
  /verif/tools/verify_seeded.sh /tmp/mut/$ID /tmp/mut/$ID.out/patch$n.diff /tmp/mut/$ID.out/demo${n}_test.go $PKG "$R" 2>&1 | cut -c1-160 | sed 's/ok  \tgithub.com\/tjfoc\/gmsm\///g'
  /verif/tools/try_seeded.sh /tmp/mut/$ID.out/patch$n.diff $PROP
done
