#!/usr/bin/env python3
"""show.py RESULT.json [substr] : summarise a worker result file (violations grouped by class/site, harness errors, reach/fault counters containing substr)"""
import json,sys
d=json.load(open(sys.argv[1]))
from collections import Counter
c=Counter(); ex={}
for v in d['violations'] or []:
    vv=v['violation']; k=(vv['class'],vv['site']); c[k]+=1; ex.setdefault(k,v)
for k,n in c.most_common(): print(n,k); print('   ',ex[k]['violation']['message'][:700]); print('   ',str(ex[k]['decoded'])[:900])
print('harness_errors', len(d['harness_errors'] or []), [h[:400] for h in (d['harness_errors'] or [])[:3]])
if len(sys.argv)>2: print({k:v for k,v in d['reach'].items() if sys.argv[2] in k}); print({k:v for k,v in d['faults_fired'].items() if sys.argv[2] in k})
