#!/usr/bin/env python3
"""addfinding.py fixed|known PROP CLASS SITE 'commit-subject-substring or -' 'what' [replay] [match-regexp]"""
import json,subprocess,sys
status,prop,cls,site,cm,what=sys.argv[1:7]
replay=sys.argv[7] if len(sys.argv)>7 else None
match=sys.argv[8] if len(sys.argv)>8 else None
f=json.load(open('/verif/known_findings.json'))
e={"property":prop,"class":cls,"site":site,"status":status,"what":what}
if status=="fixed":
    out=subprocess.check_output(['git','-C','/repo','log','--format=%h %s']).decode().splitlines()
    c=[l.split()[0] for l in out if cm in l]
    assert c, cm
    e["commit"]=c[0]; e["line"]="fixed: property=%s %s %s"%(prop,c[0],what)
if replay: e["first_replay"]=replay
if match: e["match"]=match
f["findings"].append(e)
json.dump(f,open('/verif/known_findings.json','w'),indent=1,ensure_ascii=False)
