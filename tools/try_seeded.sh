#!/bin/bash
# try_seeded.sh <patch> <PROP> [<PROP>...] : apply patch to /repo, run quick checks, revert.
P=$1; shift
cd /repo && git apply $P || { echo "PATCH DOES NOT APPLY to /repo"; exit 9; }
for prop in "$@"; do
  echo "== $prop"
  (cd /verif && VERIF_SEED=${VERIF_SEED:-4242} bin/check $prop quick 2>&1 | grep -E "^(VIOLATION|SUMMARY|HARNESS|  class)" | cut -c1-330 | head -12)
done
cd /repo && git checkout -q -- . 
