#!/bin/bash
# keep_seeded.sh <name> <prop> <outdir> <n> <pkgdir> <run-regexp> "<needs>" "<caught-by>" "<verdict-notes>"
N=$1; PROP=$2; OUT=$3; I=$4; PKG=$5; RUN=$6; NEEDS=$7; BY=$8; NOTES=$9
D=/verif/seeded/$N
mkdir -p $D
cp $OUT/patch$I.diff $D/patch.diff
cp $OUT/demo${I}_test.go $D/demo_test.go 2>/dev/null || cp -r $OUT/demo$I $D/demo 2>/dev/null
python3 - "$D" "$PROP" "$PKG" "$RUN" "$NEEDS" "$BY" "$NOTES" "$OUT" "$I" <<'PY'
import json,sys,re
d,prop,pkg,run,needs,by,notes,out,i=sys.argv[1:]
meta={"breaks_property":prop,"needs_to_manifest":needs,
 "demonstration":{"file":"demo_test.go","run":"cp demo_test.go <repo>/%s/zz_demo_test.go && go test -mod=mod -vet=off -count=1 -run '%s' ./%s"%(pkg,run,pkg)},
 "confirmed":{"how":"tools/verify_seeded.sh in a scratch worktree: existing suite green with the patch, demonstration fails with the patch and passes without it","by":"main session"},
 "checks_run":"tools/try_seeded.sh patch.diff %s (quick tier, VERIF_SEED=4242)"%prop,
 "caught_by":by,"notes":notes}
json.dump(meta,open(d+"/meta.json","w"),indent=1)
PY
echo kept $D
