#!/bin/bash
# thorough_all.sh [seed]: thorough tier of every claimed property, evidence into /verif/evidence_thorough
# (run from a snapshot of /verif, e.g. under `vp run`: the harness of the snapshot is used, so the live one may be edited
# meanwhile - but not the rewriter or the driver, whose binaries under /verif/bin are shared)
HERE=$(cd "$(dirname "$0")/.." && pwd)
cd /verif
export VERIF_SEED=${1:-2027} VERIF_EVIDENCE_DIR=/verif/evidence_thorough VERIF_HARNESS=$HERE/harness
for p in ${THOROUGH_PROPS:-C20 C15 C06 C07 C08 C16 C04 C19}; do
  echo "=== $p $(date +%H:%M:%S)"
  bin/check $p thorough 2>&1 | grep -E "^(VIOLATION|SUMMARY|HARNESS|KNOWN|NOTE|  class)" | cut -c1-400
done
echo "=== done $(date +%H:%M:%S)"
