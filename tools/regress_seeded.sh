#!/bin/bash
# regress_seeded.sh [name-glob] : re-run the owning quick check against every archived seeded change
# in a scratch worktree (never touches /repo's working tree). Prints one line per change.
export GOFLAGS=-mod=mod GOPROXY=off GOSUMDB=off GOTOOLCHAIN=local
W=/tmp/regress-seeded
H=/tmp/regress-harness; rm -rf $H; cp -r /verif/harness $H   # snapshot: the harness may be edited while this runs
export VERIF_HARNESS=$H VERIF_EVIDENCE_DIR=/tmp/regress-evidence VERIF_MINIMISE_S=${VERIF_MINIMISE_S:-2}
git -C /repo worktree remove --force $W 2>/dev/null; git -C /repo worktree prune
git -C /repo worktree add -q --detach $W HEAD || exit 2
pass=0; fail=0
for d in /verif/seeded/${1:-*}/; do
  n=$(basename $d); [ -f $d/patch.diff ] || continue
  prop=$(python3 -c "import json;m=json.load(open('$d/meta.json'));print(m.get('check_with') or m['breaks_property'])")
  (cd $W && git checkout -q -- . && git apply $d/patch.diff) || { echo "$n: PATCH-DOES-NOT-APPLY"; continue; }
  out=$(cd /verif && VERIF_REPO=$W VERIF_SEED=${VERIF_SEED:-555} bin/check $prop quick 2>&1)
  rc=$?
  nv=$(echo "$out" | grep -c "^VIOLATION")
  km=$(python3 -c "import json;print(json.load(open('$d/meta.json')).get('known_miss',False))")
  if [ "$km" = "True" ] && [ $rc = 0 ]; then echo "$n: KNOWN-MISS (documented in meta.json and DESIGN.md 11.6)"; rm -f /verif/replays/*/*-s${VERIF_SEED:-555}-*; continue; fi
  if [ $rc = 1 ] && [ $nv -gt 0 ]; then pass=$((pass+1)); echo "$n: CAUGHT ($nv) $(echo "$out" | grep -m1 '^  class' | cut -c1-120)"; else fail=$((fail+1)); echo "$n: NOT-CAUGHT rc=$rc $(echo "$out" | tail -1 | cut -c1-160)"; fi
  rm -f /verif/replays/*/*-s${VERIF_SEED:-555}-*
done
(cd $W && git checkout -q -- .); git -C /repo worktree remove --force $W; rm -rf $H /tmp/regress-evidence
echo "REGRESSION caught=$pass not-caught=$fail"
