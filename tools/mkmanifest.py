#!/usr/bin/env python3
"""Regenerates /verif/MANIFEST.json from the table below (kept valid at all times)."""
import json
NA = {
 "C01":"pure function of (key, message, ID, nonce bytes, signature): no schedule, clock, I/O fault or history for a simulator to control",
 "C02":"pure function of (key, plaintext, nonce bytes, ciphertext); the non-termination clause is a hang of a pure function on one input, not progress under faults",
 "C03":"pure arithmetic on its arguments (concurrent first use of the curve is decided under C20)",
 "C05":"pure permutation of (key, block); no I/O or environment (concurrent use of one cipher object is decided under C20)",
 "C09":"pure encode -> parse -> verify of values; nothing concurrent, timed or streamed",
 "C10":"pure function of (pools, certificate, options); the verification time is an argument",
 "C11":"pure functions of key/IV/plaintext; the global IV is configuration, not a schedule",
 "C12":"pure functions of byte strings",
 "C13":"pure function of its input",
 "C14":"pure round trips; the loaders read whole files, nothing chunked or concurrent",
 "C17":"pure container round trips",
 "C18":"pure decoders of byte strings: a substituted byte is a different input, not a fault at an instant of an execution",
}
PENDING_REASON = "simulation check designed (DESIGN.md section 5) but not built yet; will be claimed when its check exists"
CHECKS = {
 "C04": dict(level="exploration", design="5 (C04)",
   text="Seeded simulation of an environment that drives sm3.New() through random chunkings and operation histories (Write/Sum(nil)/Sum(prefix)/Reset), compared op by op with an independent reference SM3; HMAC and PBKDF2 instantiated over both. Sampling, not enumeration: weakest fit of the claimed properties (no faults exist in the hash.Hash interface), claimed for its stream/history dimension.",
   note="Trusts refsm3 (written from GM/T 0004, validated against the standard's examples and 44 OpenSSL 3.5.6 vectors), stdlib crypto/hmac and x/crypto/pbkdf2 as the definitions.",
   technique="deterministic simulation: seeded choice stream drives write-chunking and call histories of the streaming hash; reference-model oracle after every operation; ddmin-minimised replay files"),
 "C06": dict(level="exploration", design="5 (C06), Appendix A",
   text="Seeded simulation of complete connections: real gmtls client and server (stdlib crypto/tls as third implementation on the TLS path) as tasks over a simulated network whose segmentation, latency, short reads, finite windows, read-deadline expiries and task schedule are all choices; every configuration axis of the property is redrawn per run. Outcome is compared with a small policy model where the documentation is unambiguous; both ends must agree on version, suite, certificates, exported keying material and byte streams.",
   note="Trusts the policy model (Appendix A; ambiguous combinations are 'unspecified'), the fixture PKI, the reference primitives (validated against OpenSSL 3.5.6) and go1.23.5's crypto/tls as independent TLS 1.0-1.2 implementation.",
   technique="deterministic simulation: whole client/server system in one process over a simulated network and virtual clock with a seeded scheduler; benign network nondeterminism injected; policy-model, agreement and stream-equality oracles; ddmin-minimised replay files"),
 "C07": dict(level="fault_enumeration", design="5 (C07)",
   text="An in-path attacker is a node of the simulation between two real gmtls endpoints. Enumerated family: for seed-chosen small GMSSL sessions, one simulated run per fault position - every bit of every protected record of both directions, every truncation length, extensions, drop, duplicate, adjacent swap - so the fault-position space of a session is swept completely (sessions are sampled by seed; evidence lists per session expected vs executed positions). Sampled family: 15 fault kinds (incl. replay, cross-direction and cross-connection injection, header rewrites, FIN before/inside records) on sessions with payloads up to 16 KiB, both GM suites and TLS suites. Oracle: prefix after every Read, exactly the plaintext of the records before the first affected one (independent decoder), sticky non-EOF error, fatal alert on the wire, IV/nonce/sequence audit.",
   note="Trusts reftls' record layer (written from the standards, cross-validated on every benign C06 session) for the expected per-record plaintext; TLS-suite sessions use the prefix+detection oracle only. Further families added later (DESIGN 11.2/11.6): enumerated CBC padding lengths from a reference sender, sender-side transport failure inside a record, whole recorded connections replayed to fresh endpoints, duplex endpoints, an expired write deadline at the victim.",
   technique="deterministic simulation with fault injection: attacker task on a simulated network flips/truncates/drops/duplicates/reorders/replays/injects protected records at seeded or enumerated positions; history oracle from an independent decoder; ddmin-minimised replay files"),
 "C20": dict(level="exploration", design="5 (C20), 3.3",
   text="Real gmsm code runs as tasks under a seeded cooperative scheduler that owns every interleaving at statement (~3800 inserted yield points), lock, once, atomic and network granularity (instrumented scratch copy). Ten programs (DESIGN 11.2/11.6 for the later ones: renegotiation requests, deadline/Close interruption of parked calls, multi-certificate Configs, simultaneous Dial calls), the first six: one shared sm4 cipher.Block; package-level SM2/SM3/SM4/X.509/PKCS#7 operations incl. first use of the curve; LRU session cache; one CertPool; one established connection with concurrent readers, writers and Close; one server Config with simultaneous handshakes, ticket rotation and Clone. Oracles: equality with the same call run alone; porcupine linearizability (cache; connection as FIFO pipe with atomic writes); the Go race detector evaluated on the simulated interleaving - the hand-off baton between tasks is invisible to it, so a report is deterministic per seed; deadlock and panic.",
   note="Sampling of schedules (random gaps and PCT), not enumeration. The race oracle inherits the detector's bounded shadow history (can miss, cannot invent). Statement-level yields only in the files listed in DESIGN 5/C20.",
   technique="deterministic simulation: seeded cooperative scheduler over instrumented real code (statement/lock/atomic preemption), race detector as happens-before oracle under the simulated schedule, porcupine linearizability of recorded histories, ddmin-minimised replayable schedules"),
 "C08": dict(level="exploration", design="5 (C08), Appendix B",
   text="Attackers are nodes of the simulation. Impostor family: the independent reference endpoint terminates the connection itself with credentials that lack exactly one thing the property names (trusted chain, validity at the victim's skewed virtual clock, name, SM2 key type, signing key, freshness of the ServerKeyExchange signature, the ServerKeyExchange message itself, the encryption key, CertificateVerify key / transcript / presence) against an honest gmtls client or against an honest gmtls server under each ClientAuth policy - with the expected verdict per item and policy, including the cases that must be accepted. MITM family: a relay between two honest gmtls endpoints rewrites one plaintext handshake message (byte flip, replay from an earlier session of the same run, drop, duplicate, swap, suite stripping, certificate substitution) or only re-fragments; both ends' views are reconstructed from taps and must be identical whenever both complete.",
   note="Trusts the reftls endpoints (honest items in every batch) and the fixture PKI. Catalogue sampled by seed, not enumerated per field.",
   technique="deterministic simulation with fault injection: impostor endpoints and a rewriting man-in-the-middle as simulated nodes, per-node clock skew on a virtual clock, cross-session replay within one run; oracle = impostor never completes / no split view; ddmin-minimised replay files"),
 "C15": dict(level="exploration", design="5 (C15), Appendix C",
   text="One real gmtls endpoint (client; server in GMSSL-only, auto-switch and TLS mode) against a scripted, independent GM/T 0024 peer on the simulated network. Scripts are drawn per run from the alphabet of Appendix C: 1-3 wire deviations at drawn message positions (wrong type, duplicate, omission, truncation, rewritten length bytes, inserted application data / ChangeCipherSpec / alerts / unknown records, end of stream before or inside every record, stall with and without a virtual-time deadline), hello-level content (version sweep 0x0000..0x0400 with GM and TLS suites, suite lists, compression, ServerHello selections, certificate lists with non-EC keys) and legal variations that must still complete (fragmentation, coalescing, unknown extensions and suites). The reference peer keeps its honest transcript, so every byte-changing deviation must end in an error on the endpoint.",
   note="Trusts the reftls endpoints (honest scripts in every batch complete against unmodified gmtls in both roles). Since round 2 the scripted peer also speaks TLS 1.2 (RSA, ECDHE on P-256/384/521 and X25519), and a second family scripts refused renegotiations (DESIGN 11.2/11.6).",
   technique="deterministic simulation with fault injection: scripted misbehaving peer and peer crash (EOF) at every record boundary and inside records on a simulated network with virtual-time deadlines; oracle = error / never complete / no panic / returns once input ended; ddmin-minimised replay files"),
 "C16": dict(level="exploration", design="5 (C16), Appendix D",
   text="Histories of up to six operations between one client session cache (capacity 1..3) and one or two server configurations are simulated: connections, ticket-key rotations (keeping or dropping the old key), restarts keeping or losing the key, suite / ClientAuth / tickets-enabled changes, cache eviction by connections to another name, clock jumps, and forged, truncated, extended or mismatched tickets offered through the independent reference client. A small reference model of the resumption policy - fed only by NewSessionTicket messages seen on the wire and the key log - decides soundness (never resume unless every condition of the property holds), completeness (exactly as far as the property states it), session identity (resumed GMSSL sessions must decode under the ORIGINAL master secret), ticket refresh after rotation, and silent fall-back.",
   note="Trusts the policy model (Appendix D) and reftls. TLS-mode resumed sessions have no reference decoder: agreement of exported keying material on both ends is checked instead.",
   technique="deterministic simulation over histories: seeded sequences of connections, key rotations, restarts (durable vs lost ticket key), configuration changes, cache evictions, clock jumps and forged tickets; reference-model oracle over the recorded history; ddmin-minimised replay files"),
 "C19": dict(level="exploration", design="5 (C19)",
   text="Seeded simulation of the sources and sinks around the streaming PKCS#7 helpers: every Read/Write size and behaviour (short non-EOF read, 1-byte, (0,nil), data+EOF) is a choice; a separate fault family injects one source or sink error at a drawn offset. Oracle: reference padding model (exact equality fault-free; error surfaced and emitted bytes a prefix under an injected error).",
   note="Trusts the 6-line refpad model and stdlib AES/DES-CBC (used as the block mode so SM4 changes cannot raise C19 alarms).",
   technique="deterministic simulation with I/O fault injection: simulated reader/writer with seeded chunking, short reads and injected errors; reference-model oracle; ddmin-minimised replay files"),
}
ORDER = ["C04","C06","C07","C08","C15","C16","C19","C20"]
m = {"version":1,
 "setup_cmd":"bash /verif/bin/setup.sh",
 "hooks":{"guard":"verifsim","enable":"no hook is committed to /repo: every check copies /repo's working tree to a scratch directory, runs the type-directed instrumenter /verif/rewrite over the copy (sync.Mutex/RWMutex/Once/atomic/time.Now/crypto-rand/net.Dialer.Dial -> simkit hooks; statement-level yields for C20), overlays /verif/harness as package github.com/tjfoc/gmsm/verifsim, builds and runs it, and deletes the copy","baseline_off_cmd":"cd /repo && go test -mod=mod -json -vet=off -count=1 -timeout 25m ./...","source_commits":[],"add_only":True},
 "engines":[{"name":"simkit","path":"/verif/harness/simkit","serves_properties":ORDER,"kind_free_text":"deterministic simulator: seeded choice stream, cooperative scheduler with race-detector-invisible baton, virtual clock, simulated network and stream endpoints, ddmin replay minimisation (driver in /verif/driver)"}],
 "checks":[], "not_applicable":[], "notes":"See DESIGN.md. Exit codes: 0 held, 1 VIOLATION (new), 2 harness trouble. known_findings.json lists repaired (fixed:) and recorded defects."}
for pid in ORDER:
    if pid in CHECKS:
        c=CHECKS[pid]
        m["checks"].append({"property_id":pid,"quick_cmd":"bin/check %s quick"%pid,"thorough_cmd":"bin/check %s thorough"%pid,
          "evidence_file":"/verif/evidence/%s.json"%pid,"replay_cmd_template":"bin/check %s --replay {path}"%pid,"engine":"simkit",
          "level_claimed":{"category":c["level"],"text":c["text"],"design_ref":c["design"]},"level_note":c["note"],"technique":c["technique"]})
for k,v in NA.items(): m["not_applicable"].append({"property_id":k,"reason":v})
for pid in ORDER:
    if pid not in CHECKS: m["not_applicable"].append({"property_id":pid,"reason":PENDING_REASON})
m["not_applicable"].sort(key=lambda x:x["property_id"])
json.dump(m,open("/verif/MANIFEST.json","w"),indent=1)
