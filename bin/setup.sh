#!/bin/bash
# Build the framework from files on disk only (offline).
export GOFLAGS=-mod=mod GOPROXY=off GOSUMDB=off GOTOOLCHAIN=local
set -e
cd /verif/driver && go build -o /verif/bin/driver .
if [ -d /verif/rewrite ]; then cd /verif/rewrite && go build -o /verif/bin/rewrite . ; fi
cd /verif/harness && go vet ./ref/... >/dev/null && go test -count=1 ./ref/... 
echo setup ok
