#!/bin/bash
# devscratch.sh [DIR] [-stmt] : (re)build a development scratch (default /tmp/dev): /repo working tree,
# instrumented, harness overlaid, worker.bin built. Use `devsync.sh` afterwards for harness-only changes.
set -e
export GOFLAGS=-mod=mod GOPROXY=off GOSUMDB=off GOTOOLCHAIN=local
D=${1:-/tmp/dev}; shift || true
rm -rf "$D"
/verif/bin/mkscratch.sh "$D"
/verif/bin/rewrite -dir "$D" "$@" >/dev/null
cp /verif/harness/inpkg/sm2/zz_verifsim.go "$D/sm2/"
cd "$D"
go mod edit -require=github.com/anishathalye/porcupine@v1.3.0
cat /verif/harness/extra_go.sum >> go.sum
go build -o worker.bin ./verifsim/worker
