#!/bin/bash
# mkscratch.sh DIR : copy /repo's working tree + harness overlay into DIR (no instrumentation)
set -e
D="$1"
mkdir -p "$D"
rsync -a --delete --exclude .git --exclude verifsim /repo/ "$D"/
mkdir -p "$D/verifsim"
rsync -a --delete --exclude go.mod --exclude go.sum /verif/harness/ "$D/verifsim"/
