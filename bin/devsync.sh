#!/bin/bash
# devsync.sh [DIR] : copy /verif/harness into the development scratch and rebuild the worker
set -e
export GOFLAGS=-mod=mod GOPROXY=off GOSUMDB=off GOTOOLCHAIN=local
D=${1:-/tmp/dev}
rsync -a --exclude go.mod --exclude go.sum --exclude sites /verif/harness/ "$D/verifsim"/
cd "$D" && go build -o worker.bin ./verifsim/worker
