#!/bin/bash
# Additional fixtures (added after gen.sh; uses the existing caA key).
set -e
cd "$(dirname "$0")"
VB=20200101000000Z; VA=21200101000000Z
D="-sigopt distid:1234567812345678"; V="-vfyopt distid:1234567812345678"
mk() { # name CN ku eku san
  openssl genpkey -algorithm SM2 -out "$1.key.pem" 2>/dev/null
  { echo "basicConstraints=critical,CA:FALSE"; echo "keyUsage=critical,$3"; echo "extendedKeyUsage=$4"; echo "subjectKeyIdentifier=hash"; echo "authorityKeyIdentifier=keyid"; [ -z "$5" ] || echo "subjectAltName=DNS:$5"; } > "$1.ext"
  openssl req -new -key "$1.key.pem" -subj "/C=CN/O=verifsim/CN=$2" -out "$1.csr" -sm3 $D
  openssl x509 -req $V -in "$1.csr" -CA caA.cert.pem -CAkey caA.key.pem -out "$1.cert.pem" -extfile "$1.ext" -not_before $VB -not_after $VA -sm3 $D -set_serial $RANDOM$RANDOM 2>/dev/null
  rm -f "$1.csr" "$1.ext"
}
if [ ! -f srvekucli-sign.cert.pem ]; then
# server pair whose extended key usage is clientAuth only (must be rejected by a verifying client)
mk srvekucli-sign "server.sim sign" digitalSignature clientAuth server.sim
mk srvekucli-enc  "server.sim enc"  keyEncipherment,dataEncipherment,keyAgreement clientAuth server.sim
# client certificate whose extended key usage is serverAuth only (must be rejected by a verifying server)
mk cliekusrv "client one" digitalSignature serverAuth ""
# signing certificate without the digitalSignature key usage; encryption certificate without encipherment usages
mk srvkubad-sign "server.sim sign" keyEncipherment serverAuth,clientAuth server.sim
mk srvkubad-enc  "server.sim enc"  digitalSignature serverAuth,clientAuth server.sim
for c in srvekucli-sign srvekucli-enc cliekusrv srvkubad-sign srvkubad-enc; do openssl verify $V -CAfile caA.cert.pem $c.cert.pem; done
fi
# second TLS identity (RSA root) for name-based certificate selection
if [ ! -f tlsrsa2.cert.pem ]; then
  openssl genpkey -algorithm RSA -pkeyopt rsa_keygen_bits:2048 -out tlsrsa2.key.pem 2>/dev/null
  { echo "basicConstraints=critical,CA:FALSE"; echo "keyUsage=critical,digitalSignature,keyEncipherment"; echo "extendedKeyUsage=serverAuth,clientAuth"; echo "subjectKeyIdentifier=hash"; echo "authorityKeyIdentifier=keyid"; echo "subjectAltName=DNS:server2.sim"; } > t.ext
  openssl req -new -key tlsrsa2.key.pem -subj "/C=CN/O=verifsim/CN=server2.sim" -out t.csr -sha256
  openssl x509 -req -in t.csr -CA rsaCA.cert.pem -CAkey rsaCA.key.pem -out tlsrsa2.cert.pem -extfile t.ext -not_before $VB -not_after $VA -sha256 -set_serial 9090 2>/dev/null
  rm -f t.csr t.ext
  openssl verify -CAfile rsaCA.cert.pem tlsrsa2.cert.pem
fi
# wave 4: a signing certificate that also carries keyEncipherment (dual usage), with its genuine encryption partner;
# an RSA client certificate from the RSA root whose key usage is keyEncipherment only
if [ ! -f srvdual-sign.cert.pem ]; then
  mk srvdual-sign "server.sim sign" digitalSignature,keyEncipherment serverAuth,clientAuth server.sim
  mk srvdual-enc  "server.sim enc"  keyEncipherment,dataEncipherment,keyAgreement serverAuth,clientAuth server.sim
  for c in srvdual-sign srvdual-enc; do openssl verify $V -CAfile caA.cert.pem $c.cert.pem; done
fi
if [ ! -f tlsclienc.cert.pem ]; then
  openssl genpkey -algorithm RSA -pkeyopt rsa_keygen_bits:2048 -out tlsclienc.key.pem 2>/dev/null
  { echo "basicConstraints=critical,CA:FALSE"; echo "keyUsage=critical,keyEncipherment"; echo "extendedKeyUsage=clientAuth"; echo "subjectKeyIdentifier=hash"; echo "authorityKeyIdentifier=keyid"; } > t.ext
  openssl req -new -key tlsclienc.key.pem -subj "/C=CN/O=verifsim/CN=client enc-only" -out t.csr -sha256
  openssl x509 -req -in t.csr -CA rsaCA.cert.pem -CAkey rsaCA.key.pem -out tlsclienc.cert.pem -extfile t.ext -not_before $VB -not_after $VA -sha256 -set_serial 9191 2>/dev/null
  rm -f t.csr t.ext
  openssl verify -CAfile rsaCA.cert.pem tlsclienc.cert.pem
fi
