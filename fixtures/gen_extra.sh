#!/bin/bash
# Additional fixtures (added after gen.sh; uses the existing caA key).
set -e
cd "$(dirname "$0")"
VB=20200101000000Z; VA=21200101000000Z
D="-sigopt distid:1234567812345678"; V="-vfyopt distid:1234567812345678"
mk() { # name CN ku eku san
  openssl genpkey -algorithm SM2 -out "$1.key.pem" 2>/dev/null
  { echo "basicConstraints=critical,CA:FALSE"; echo "keyUsage=critical,$3"; echo "extendedKeyUsage=$4"; echo "subjectKeyIdentifier=hash"; echo "authorityKeyIdentifier=keyid"; [ -z "$5" ] || echo "subjectAltName=DNS:$5"; } > "$1.ext"
  openssl req -new -key "$1.key.pem" -subj "/C=CN/O=verifsim/CN=$2" -out "$1.csr" -sm3 $D
  openssl x509 -req $V -in "$1.csr" -CA caA.cert.pem -CAkey caA.key.pem -out "$1.cert.pem" -extfile "$1.ext" -not_before $VB -not_after $VA -sm3 $D -set_serial $RANDOM$RANDOM 2>/dev/null
  rm -f "$1.csr" "$1.ext"
}
if [ ! -f srvekucli-sign.cert.pem ]; then
# server pair whose extended key usage is clientAuth only (must be rejected by a verifying client)
mk srvekucli-sign "server.sim sign" digitalSignature clientAuth server.sim
mk srvekucli-enc  "server.sim enc"  keyEncipherment,dataEncipherment,keyAgreement clientAuth server.sim
# client certificate whose extended key usage is serverAuth only (must be rejected by a verifying server)
mk cliekusrv "client one" digitalSignature serverAuth ""
# signing certificate without the digitalSignature key usage; encryption certificate without encipherment usages
mk srvkubad-sign "server.sim sign" keyEncipherment serverAuth,clientAuth server.sim
mk srvkubad-enc  "server.sim enc"  digitalSignature serverAuth,clientAuth server.sim
for c in srvekucli-sign srvekucli-enc cliekusrv srvkubad-sign srvkubad-enc; do openssl verify $V -CAfile caA.cert.pem $c.cert.pem; done
fi
# second TLS identity (RSA root) for name-based certificate selection
if [ ! -f tlsrsa2.cert.pem ]; then
  openssl genpkey -algorithm RSA -pkeyopt rsa_keygen_bits:2048 -out tlsrsa2.key.pem 2>/dev/null
  { echo "basicConstraints=critical,CA:FALSE"; echo "keyUsage=critical,digitalSignature,keyEncipherment"; echo "extendedKeyUsage=serverAuth,clientAuth"; echo "subjectKeyIdentifier=hash"; echo "authorityKeyIdentifier=keyid"; echo "subjectAltName=DNS:server2.sim"; } > t.ext
  openssl req -new -key tlsrsa2.key.pem -subj "/C=CN/O=verifsim/CN=server2.sim" -out t.csr -sha256
  openssl x509 -req -in t.csr -CA rsaCA.cert.pem -CAkey rsaCA.key.pem -out tlsrsa2.cert.pem -extfile t.ext -not_before $VB -not_after $VA -sha256 -set_serial 9090 2>/dev/null
  rm -f t.csr t.ext
  openssl verify -CAfile rsaCA.cert.pem tlsrsa2.cert.pem
fi
# wave 4: a signing certificate that also carries keyEncipherment (dual usage), with its genuine encryption partner;
# an RSA client certificate from the RSA root whose key usage is keyEncipherment only
if [ ! -f srvdual-sign.cert.pem ]; then
  mk srvdual-sign "server.sim sign" digitalSignature,keyEncipherment serverAuth,clientAuth server.sim
  mk srvdual-enc  "server.sim enc"  keyEncipherment,dataEncipherment,keyAgreement serverAuth,clientAuth server.sim
  for c in srvdual-sign srvdual-enc; do openssl verify $V -CAfile caA.cert.pem $c.cert.pem; done
fi
if [ ! -f tlsclienc.cert.pem ]; then
  openssl genpkey -algorithm RSA -pkeyopt rsa_keygen_bits:2048 -out tlsclienc.key.pem 2>/dev/null
  { echo "basicConstraints=critical,CA:FALSE"; echo "keyUsage=critical,keyEncipherment"; echo "extendedKeyUsage=clientAuth"; echo "subjectKeyIdentifier=hash"; echo "authorityKeyIdentifier=keyid"; } > t.ext
  openssl req -new -key tlsclienc.key.pem -subj "/C=CN/O=verifsim/CN=client enc-only" -out t.csr -sha256
  openssl x509 -req -in t.csr -CA rsaCA.cert.pem -CAkey rsaCA.key.pem -out tlsclienc.cert.pem -extfile t.ext -not_before $VB -not_after $VA -sha256 -set_serial 9191 2>/dev/null
  rm -f t.csr t.ext
  openssl verify -CAfile rsaCA.cert.pem tlsclienc.cert.pem
fi
# wave 5: (a) self-issued look-alikes of root caA: same subject DN and the same subjectKeyIdentifier, own keys
#         (b) an X.509 v1 end-entity certificate issued by caA / rsaCA, and leaves "issued" by that end entity
if [ ! -f lookA-sign.cert.pem ]; then
  SKID=$(openssl x509 -in caA.cert.pem -noout -ext subjectKeyIdentifier | tail -1 | tr -d ' :')
  SUBJ="/C=CN/O=verifsim/CN=verifsim SM2 root A"
  lk() { # name ku eku san
    openssl genpkey -algorithm SM2 -out "$1.key.pem" 2>/dev/null
    { echo "[req]"; echo "distinguished_name=dn"; echo "x509_extensions=v3"; echo "[dn]"; echo "[v3]"; echo "basicConstraints=critical,CA:FALSE"; echo "keyUsage=critical,$2"; echo "extendedKeyUsage=$3"; echo "subjectKeyIdentifier=$SKID"; [ -z "$4" ] || echo "subjectAltName=DNS:$4"; } > "$1.cnf"
    openssl req -config "$1.cnf" -x509 -new -key "$1.key.pem" -subj "$SUBJ" -out "$1.cert.pem" -not_before $VB -not_after $VA -sm3 $D -set_serial $RANDOM$RANDOM
    rm -f "$1.cnf"
  }
  lk lookA-sign digitalSignature serverAuth,clientAuth server.sim
  lk lookA-enc keyEncipherment,dataEncipherment,keyAgreement serverAuth,clientAuth server.sim
  lk lookA-cli digitalSignature clientAuth ""
  for c in lookA-sign lookA-enc lookA-cli; do openssl x509 -in $c.cert.pem -noout -subject -ext subjectKeyIdentifier | tr '\n' ' '; echo; done
fi
if [ ! -f v1ee.cert.pem ]; then
  printf '[req]\ndistinguished_name=dn\n[dn]\n' > min.cnf
  openssl genpkey -algorithm SM2 -out v1ee.key.pem 2>/dev/null
  openssl req -new -key v1ee.key.pem -subj "/C=CN/O=verifsim/CN=ordinary user (v1)" -out t.csr -sm3 $D
  openssl req -config min.cnf -x509 -x509v1 -in t.csr -CA caA.cert.pem -CAkey caA.key.pem -out v1ee.cert.pem -not_before $VB -not_after $VA -sm3 $D $V -set_serial 7771 2>/dev/null
  openssl x509 -in v1ee.cert.pem -noout -text | grep "Version:"
  openssl verify $V -CAfile caA.cert.pem v1ee.cert.pem
  mkv() { # name CN ku eku san : leaf signed by the v1 end entity
    openssl genpkey -algorithm SM2 -out "$1.key.pem" 2>/dev/null
    { echo "basicConstraints=critical,CA:FALSE"; echo "keyUsage=critical,$3"; echo "extendedKeyUsage=$4"; echo "subjectKeyIdentifier=hash"; [ -z "$5" ] || echo "subjectAltName=DNS:$5"; } > "$1.ext"
    openssl req -new -key "$1.key.pem" -subj "/C=CN/O=verifsim/CN=$2" -out "$1.csr" -sm3 $D
    openssl x509 -req $V -in "$1.csr" -CA v1ee.cert.pem -CAkey v1ee.key.pem -out "$1.cert.pem" -extfile "$1.ext" -not_before $VB -not_after $VA -sm3 $D -set_serial $RANDOM$RANDOM 2>/dev/null
    rm -f "$1.csr" "$1.ext"
  }
  mkv forged-cli "admin" digitalSignature clientAuth ""
  mkv forged-sign "server.sim sign" digitalSignature serverAuth,clientAuth server.sim
  mkv forged-enc  "server.sim enc"  keyEncipherment,dataEncipherment,keyAgreement serverAuth,clientAuth server.sim
  # RSA flavour under the RSA root (TLS path: the client does use the intermediates a server sends)
  openssl genpkey -algorithm RSA -pkeyopt rsa_keygen_bits:2048 -out v1eersa.key.pem 2>/dev/null
  openssl req -new -key v1eersa.key.pem -subj "/C=CN/O=verifsim/CN=ordinary rsa user (v1)" -out t.csr -sha256
  openssl req -config min.cnf -x509 -x509v1 -in t.csr -CA rsaCA.cert.pem -CAkey rsaCA.key.pem -out v1eersa.cert.pem -not_before $VB -not_after $VA -sha256 -set_serial 7772 2>/dev/null
  openssl x509 -in v1eersa.cert.pem -noout -text | grep "Version:"
  for n in forgedrsa-srv forgedrsa-cli; do
    openssl genpkey -algorithm RSA -pkeyopt rsa_keygen_bits:2048 -out $n.key.pem 2>/dev/null
    if [ $n = forgedrsa-srv ]; then CN="server.sim"; EKU="serverAuth"; SAN="subjectAltName=DNS:server.sim"; else CN="admin"; EKU="clientAuth"; SAN=""; fi
    { echo "basicConstraints=critical,CA:FALSE"; echo "keyUsage=critical,digitalSignature,keyEncipherment"; echo "extendedKeyUsage=$EKU"; echo "subjectKeyIdentifier=hash"; [ -z "$SAN" ] || echo "$SAN"; } > t.ext
    openssl req -new -key $n.key.pem -subj "/C=CN/O=verifsim/CN=$CN" -out t.csr -sha256
    openssl x509 -req -in t.csr -CA v1eersa.cert.pem -CAkey v1eersa.key.pem -out $n.cert.pem -extfile t.ext -not_before $VB -not_after $VA -sha256 -set_serial $RANDOM$RANDOM 2>/dev/null
  done
  rm -f t.csr t.ext min.cnf
fi
# wave 6: wildcard server identities (*.wild.sim) under both roots; an intermediate CA under the RSA root and
# client certificates issued by the intermediates (SM2: caAint, RSA: rsaInt)
if [ ! -f srvwild-sign.cert.pem ]; then
  mk srvwild-sign "wild sign" digitalSignature serverAuth,clientAuth "*.wild.sim"
  mk srvwild-enc  "wild enc"  keyEncipherment,dataEncipherment,keyAgreement serverAuth,clientAuth "*.wild.sim"
  openssl genpkey -algorithm RSA -pkeyopt rsa_keygen_bits:2048 -out tlswild.key.pem 2>/dev/null
  { echo "basicConstraints=critical,CA:FALSE"; echo "keyUsage=critical,digitalSignature,keyEncipherment"; echo "extendedKeyUsage=serverAuth"; echo "subjectKeyIdentifier=hash"; echo "authorityKeyIdentifier=keyid"; echo "subjectAltName=DNS:*.wild.sim"; } > t.ext
  openssl req -new -key tlswild.key.pem -subj "/C=CN/O=verifsim/CN=wild" -out t.csr -sha256
  openssl x509 -req -in t.csr -CA rsaCA.cert.pem -CAkey rsaCA.key.pem -out tlswild.cert.pem -extfile t.ext -not_before $VB -not_after $VA -sha256 -set_serial 9292 2>/dev/null
  rm -f t.csr t.ext
  openssl verify -CAfile rsaCA.cert.pem tlswild.cert.pem
fi
if [ ! -f rsaInt.cert.pem ]; then
  openssl genpkey -algorithm RSA -pkeyopt rsa_keygen_bits:2048 -out rsaInt.key.pem 2>/dev/null
  { echo "basicConstraints=critical,CA:TRUE,pathlen:0"; echo "keyUsage=critical,keyCertSign,cRLSign"; echo "subjectKeyIdentifier=hash"; echo "authorityKeyIdentifier=keyid"; } > t.ext
  openssl req -new -key rsaInt.key.pem -subj "/C=CN/O=verifsim/CN=verifsim RSA intermediate" -out t.csr -sha256
  openssl x509 -req -in t.csr -CA rsaCA.cert.pem -CAkey rsaCA.key.pem -out rsaInt.cert.pem -extfile t.ext -not_before $VB -not_after $VA -sha256 -set_serial 9393 2>/dev/null
  openssl genpkey -algorithm RSA -pkeyopt rsa_keygen_bits:2048 -out tlscliint.key.pem 2>/dev/null
  { echo "basicConstraints=critical,CA:FALSE"; echo "keyUsage=critical,digitalSignature"; echo "extendedKeyUsage=clientAuth"; echo "subjectKeyIdentifier=hash"; echo "authorityKeyIdentifier=keyid"; } > t.ext
  openssl req -new -key tlscliint.key.pem -subj "/C=CN/O=verifsim/CN=client under intermediate" -out t.csr -sha256
  openssl x509 -req -in t.csr -CA rsaInt.cert.pem -CAkey rsaInt.key.pem -out tlscliint.cert.pem -extfile t.ext -not_before $VB -not_after $VA -sha256 -set_serial 9494 2>/dev/null
  rm -f t.csr t.ext
  openssl verify -CAfile rsaCA.cert.pem -untrusted rsaInt.cert.pem tlscliint.cert.pem
  # SM2 client under the existing SM2 intermediate
  openssl genpkey -algorithm SM2 -out cliint.key.pem 2>/dev/null
  { echo "basicConstraints=critical,CA:FALSE"; echo "keyUsage=critical,digitalSignature"; echo "extendedKeyUsage=clientAuth"; echo "subjectKeyIdentifier=hash"; echo "authorityKeyIdentifier=keyid"; } > t.ext
  openssl req -new -key cliint.key.pem -subj "/C=CN/O=verifsim/CN=client under SM2 intermediate" -out t.csr -sm3 $D
  openssl x509 -req $V -in t.csr -CA caAint.cert.pem -CAkey caAint.key.pem -out cliint.cert.pem -extfile t.ext -not_before $VB -not_after $VA -sm3 $D -set_serial 9595 2>/dev/null
  rm -f t.csr t.ext
  openssl x509 -in cliint.cert.pem -noout -issuer
fi
# wave 7: certificates whose extended key usage lists only a purpose the library does not know
if [ ! -f srvekuunk-sign.cert.pem ]; then
  mk srvekuunk-sign "server.sim sign" digitalSignature 1.3.6.1.4.1.99999.1.1 server.sim
  mk srvekuunk-enc  "server.sim enc"  keyEncipherment,dataEncipherment,keyAgreement 1.3.6.1.4.1.99999.1.1 server.sim
  mk cliekuunk "client unknown eku" digitalSignature 1.3.6.1.4.1.99999.1.1 ""
  openssl x509 -in cliekuunk.cert.pem -noout -ext extendedKeyUsage
fi
# wave 8: CA-capable look-alikes: self-signed, subject and key identifier of root caA / of the SM2 intermediate, own keys
if [ ! -f lookCA.cert.pem ]; then
  lkca() { # name ref subj
    SKID=$(openssl x509 -in $2.cert.pem -noout -ext subjectKeyIdentifier | tail -1 | tr -d ' :')
    openssl genpkey -algorithm SM2 -out "$1.key.pem" 2>/dev/null
    { echo "[req]"; echo "distinguished_name=dn"; echo "x509_extensions=v3"; echo "[dn]"; echo "[v3]"; echo "basicConstraints=critical,CA:TRUE"; echo "keyUsage=critical,keyCertSign,cRLSign"; echo "subjectKeyIdentifier=$SKID"; } > "$1.cnf"
    openssl req -config "$1.cnf" -x509 -new -key "$1.key.pem" -subj "$3" -out "$1.cert.pem" -not_before $VB -not_after $VA -sm3 $D -set_serial $RANDOM$RANDOM
    rm -f "$1.cnf"
  }
  lkca lookCA caA "/C=CN/O=verifsim/CN=verifsim SM2 root A"
  lkca lookInt caAint "/C=CN/O=verifsim/CN=verifsim SM2 intermediate"
  for c in lookCA lookInt; do openssl x509 -in $c.cert.pem -noout -subject -ext subjectKeyIdentifier,basicConstraints | tr '\n' ' '; echo; done
fi
# wave 9: name-constrained intermediates under caA (permitted DNS subtree), each issuing a pair for server.sim
if [ ! -f ncok.cert.pem ]; then
  ncca() { # name permitted-dns serial
    openssl genpkey -algorithm SM2 -out "$1.key.pem" 2>/dev/null
    { echo "basicConstraints=critical,CA:TRUE"; echo "keyUsage=critical,keyCertSign,cRLSign"; echo "subjectKeyIdentifier=hash"; echo "authorityKeyIdentifier=keyid"; echo "nameConstraints=critical,permitted;DNS:$2"; } > t.ext
    openssl req -new -key "$1.key.pem" -subj "/C=CN/O=verifsim/CN=verifsim constrained CA $1" -out t.csr -sm3 $D
    openssl x509 -req $V -in t.csr -CA caA.cert.pem -CAkey caA.key.pem -out "$1.cert.pem" -extfile t.ext -not_before $VB -not_after $VA -sm3 $D -set_serial $3 2>/dev/null
    rm -f t.csr t.ext
  }
  ncleaf() { # name CN ku ca serial
    openssl genpkey -algorithm SM2 -out "$1.key.pem" 2>/dev/null
    { echo "basicConstraints=critical,CA:FALSE"; echo "keyUsage=critical,$3"; echo "extendedKeyUsage=serverAuth,clientAuth"; echo "subjectKeyIdentifier=hash"; echo "authorityKeyIdentifier=keyid"; echo "subjectAltName=DNS:server.sim"; } > t.ext
    openssl req -new -key "$1.key.pem" -subj "/C=CN/O=verifsim/CN=$2" -out t.csr -sm3 $D
    openssl x509 -req $V -in t.csr -CA "$4.cert.pem" -CAkey "$4.key.pem" -out "$1.cert.pem" -extfile t.ext -not_before $VB -not_after $VA -sm3 $D -set_serial $5 2>/dev/null
    rm -f t.csr t.ext
  }
  ncca ncok server.sim 9701
  ncca ncdot .sim 9702
  ncca ncsfx rver.sim 9703
  ncca ncother other.sim 9704
  ncca ncsub www.server.sim 9705
  n=9710
  for ca in ncok ncdot ncsfx ncother ncsub; do
    ncleaf srv$ca-sign "server.sim sign" digitalSignature $ca $n; n=$((n+1))
    ncleaf srv$ca-enc "server.sim enc" keyEncipherment,dataEncipherment,keyAgreement $ca $n; n=$((n+1))
    openssl verify $V -CAfile caA.cert.pem -untrusted $ca.cert.pem srv$ca-sign.cert.pem 2>&1 | tail -1
  done
  openssl x509 -in ncsfx.cert.pem -noout -ext nameConstraints
fi
# wave 10: a self-signed (pinned) server pair for server.sim, not issued by any CA
if [ ! -f srvself-sign.cert.pem ]; then
  ss() { # name CN ku
    openssl genpkey -algorithm SM2 -out "$1.key.pem" 2>/dev/null
    { echo "[req]"; echo "distinguished_name=dn"; echo "x509_extensions=v3"; echo "[dn]"; echo "[v3]"; echo "basicConstraints=critical,CA:FALSE"; echo "keyUsage=critical,$3"; echo "extendedKeyUsage=serverAuth"; echo "subjectKeyIdentifier=hash"; echo "subjectAltName=DNS:server.sim"; } > "$1.cnf"
    openssl req -config "$1.cnf" -x509 -new -key "$1.key.pem" -subj "/C=CN/O=verifsim/CN=$2" -out "$1.cert.pem" -not_before $VB -not_after $VA -sm3 $D -set_serial $RANDOM$RANDOM
    rm -f "$1.cnf"
  }
  ss srvself-sign "pinned server.sim sign" digitalSignature
  ss srvself-enc "pinned server.sim enc" keyEncipherment,dataEncipherment,keyAgreement
  openssl x509 -in srvself-sign.cert.pem -noout -subject -issuer -dates
fi
# wave 11: (a) an intermediate CA under caA that expired in 2025 (virtual time zero is 2030) and leaves it issued
#          while valid, whose own validity extends far beyond it; (b) pairs whose common name is server.sim while
#          their subjectAltName lists another name only
if [ ! -f caAexp.cert.pem ]; then
  openssl genpkey -algorithm SM2 -out caAexp.key.pem 2>/dev/null
  { echo "basicConstraints=critical,CA:TRUE"; echo "keyUsage=critical,keyCertSign,cRLSign"; echo "subjectKeyIdentifier=hash"; echo "authorityKeyIdentifier=keyid"; } > t.ext
  openssl req -new -key caAexp.key.pem -subj "/C=CN/O=verifsim/CN=verifsim SM2 intermediate (expired 2025)" -out t.csr -sm3 $D
  openssl x509 -req $V -in t.csr -CA caA.cert.pem -CAkey caA.key.pem -out caAexp.cert.pem -extfile t.ext -not_before 20200101000000Z -not_after 20250101000000Z -sm3 $D -set_serial 9801 2>/dev/null
  rm -f t.csr t.ext
  el() { # name CN ku eku san
    openssl genpkey -algorithm SM2 -out "$1.key.pem" 2>/dev/null
    { echo "basicConstraints=critical,CA:FALSE"; echo "keyUsage=critical,$3"; echo "extendedKeyUsage=$4"; echo "subjectKeyIdentifier=hash"; echo "authorityKeyIdentifier=keyid"; [ -z "$5" ] || echo "subjectAltName=DNS:$5"; } > t.ext
    openssl req -new -key "$1.key.pem" -subj "/C=CN/O=verifsim/CN=$2" -out t.csr -sm3 $D
    openssl x509 -req $V -in t.csr -CA caAexp.cert.pem -CAkey caAexp.key.pem -out "$1.cert.pem" -extfile t.ext -not_before 20210101000000Z -not_after $VA -sm3 $D -set_serial $6 2>/dev/null
    rm -f t.csr t.ext
  }
  el cliexpca "client under expired intermediate" digitalSignature clientAuth "" 9802
  el srvexpca-sign "server.sim sign" digitalSignature serverAuth server.sim 9803
  el srvexpca-enc "server.sim enc" keyEncipherment,dataEncipherment,keyAgreement serverAuth server.sim 9804
  openssl x509 -in caAexp.cert.pem -noout -dates; openssl x509 -in cliexpca.cert.pem -noout -dates -issuer
fi
if [ ! -f srvcnsan-sign.cert.pem ]; then
  mk srvcnsan-sign "server.sim" digitalSignature serverAuth mallory.sim
  mk srvcnsan-enc  "server.sim" keyEncipherment,dataEncipherment,keyAgreement serverAuth mallory.sim
  openssl genpkey -algorithm RSA -pkeyopt rsa_keygen_bits:2048 -out tlscnsan.key.pem 2>/dev/null
  { echo "basicConstraints=critical,CA:FALSE"; echo "keyUsage=critical,digitalSignature,keyEncipherment"; echo "extendedKeyUsage=serverAuth"; echo "subjectKeyIdentifier=hash"; echo "authorityKeyIdentifier=keyid"; echo "subjectAltName=DNS:mallory.sim"; } > t.ext
  openssl req -new -key tlscnsan.key.pem -subj "/C=CN/O=verifsim/CN=server.sim" -out t.csr -sha256
  openssl x509 -req -in t.csr -CA rsaCA.cert.pem -CAkey rsaCA.key.pem -out tlscnsan.cert.pem -extfile t.ext -not_before $VB -not_after $VA -sha256 -set_serial 9901 2>/dev/null
  rm -f t.csr t.ext
  openssl x509 -in tlscnsan.cert.pem -noout -subject -ext subjectAltName | tr '\n' ' '; echo
  openssl x509 -in srvcnsan-sign.cert.pem -noout -subject -ext subjectAltName | tr '\n' ' '; echo
fi
# wave 12: (a) path-length constraint: caA -> caAp0 (CA, pathlen:0) -> caAp0sub (CA issued in violation of it) -> leaves;
#          (b) ECDSA P-384 / P-521 identities under rsaCA (server and client)
if [ ! -f caAp0.cert.pem ]; then
  sub() { # name CN issuer bc serial
    openssl genpkey -algorithm SM2 -out "$1.key.pem" 2>/dev/null
    { echo "basicConstraints=critical,$4"; echo "keyUsage=critical,keyCertSign,cRLSign"; echo "subjectKeyIdentifier=hash"; echo "authorityKeyIdentifier=keyid"; } > t.ext
    openssl req -new -key "$1.key.pem" -subj "/C=CN/O=verifsim/CN=$2" -out t.csr -sm3 $D
    openssl x509 -req $V -in t.csr -CA "$3.cert.pem" -CAkey "$3.key.pem" -out "$1.cert.pem" -extfile t.ext -not_before $VB -not_after $VA -sm3 $D -set_serial $5 2>/dev/null
    rm -f t.csr t.ext
  }
  sub caAp0 "verifsim SM2 issuing CA (pathlen 0)" caA "CA:TRUE,pathlen:0" 9951
  sub caAp0sub "verifsim SM2 CA below a pathlen-0 CA" caAp0 "CA:TRUE" 9952
  openssl genpkey -algorithm SM2 -out clip0.key.pem 2>/dev/null
  { echo "basicConstraints=critical,CA:FALSE"; echo "keyUsage=critical,digitalSignature"; echo "extendedKeyUsage=clientAuth"; echo "subjectKeyIdentifier=hash"; echo "authorityKeyIdentifier=keyid"; } > t.ext
  openssl req -new -key clip0.key.pem -subj "/C=CN/O=verifsim/CN=client below pathlen-0 sub CA" -out t.csr -sm3 $D
  openssl x509 -req $V -in t.csr -CA caAp0sub.cert.pem -CAkey caAp0sub.key.pem -out clip0.cert.pem -extfile t.ext -not_before $VB -not_after $VA -sm3 $D -set_serial 9953 2>/dev/null
  openssl genpkey -algorithm SM2 -out clip0ok.key.pem 2>/dev/null
  openssl req -new -key clip0ok.key.pem -subj "/C=CN/O=verifsim/CN=client directly below the pathlen-0 CA" -out t.csr -sm3 $D
  openssl x509 -req $V -in t.csr -CA caAp0.cert.pem -CAkey caAp0.key.pem -out clip0ok.cert.pem -extfile t.ext -not_before $VB -not_after $VA -sm3 $D -set_serial 9954 2>/dev/null
  rm -f t.csr t.ext
  openssl x509 -in caAp0.cert.pem -noout -ext basicConstraints | tr '\n' ' '; echo
fi
if [ ! -f tlsp384.cert.pem ]; then
  ecid() { # name curve CN eku san serial
    openssl genpkey -algorithm EC -pkeyopt ec_paramgen_curve:$2 -out "$1.key.pem" 2>/dev/null
    { echo "basicConstraints=critical,CA:FALSE"; echo "keyUsage=critical,digitalSignature"; echo "extendedKeyUsage=$4"; echo "subjectKeyIdentifier=hash"; echo "authorityKeyIdentifier=keyid"; [ -z "$5" ] || echo "subjectAltName=DNS:$5"; } > t.ext
    openssl req -new -key "$1.key.pem" -subj "/C=CN/O=verifsim/CN=$3" -out t.csr -sha256
    openssl x509 -req -in t.csr -CA rsaCA.cert.pem -CAkey rsaCA.key.pem -out "$1.cert.pem" -extfile t.ext -not_before $VB -not_after $VA -sha256 -set_serial $6 2>/dev/null
    rm -f t.csr t.ext
  }
  ecid tlsp384 secp384r1 "server.sim" serverAuth server.sim 9961
  ecid tlsp521 secp521r1 "server.sim" serverAuth server.sim 9962
  ecid tlsclip384 secp384r1 "client p384" clientAuth "" 9963
  ecid tlsclip521 secp521r1 "client p521" clientAuth "" 9964
  openssl verify -CAfile rsaCA.cert.pem tlsp384.cert.pem tlsp521.cert.pem tlsclip384.cert.pem tlsclip521.cert.pem 2>&1 | tr '\n' ' '; echo
fi
# wave 14: client certificates valid only around 2033-01-01 (virtual time zero is 2030-01-01): valid under a
# Config.Time set three years ahead, not yet valid under the process clock
if [ ! -f clifar.cert.pem ]; then
  openssl genpkey -algorithm SM2 -out clifar.key.pem 2>/dev/null
  { echo "basicConstraints=critical,CA:FALSE"; echo "keyUsage=critical,digitalSignature"; echo "extendedKeyUsage=clientAuth"; echo "subjectKeyIdentifier=hash"; echo "authorityKeyIdentifier=keyid"; } > t.ext
  openssl req -new -key clifar.key.pem -subj "/C=CN/O=verifsim/CN=client valid around 2033 only" -out t.csr -sm3 $D
  openssl x509 -req $V -in t.csr -CA caA.cert.pem -CAkey caA.key.pem -out clifar.cert.pem -extfile t.ext -not_before 20321220000000Z -not_after 20330201000000Z -sm3 $D -set_serial 9971 2>/dev/null
  openssl genpkey -algorithm RSA -pkeyopt rsa_keygen_bits:2048 -out tlsclifar.key.pem 2>/dev/null
  openssl req -new -key tlsclifar.key.pem -subj "/C=CN/O=verifsim/CN=client valid around 2033 only" -out t.csr -sha256
  openssl x509 -req -in t.csr -CA rsaCA.cert.pem -CAkey rsaCA.key.pem -out tlsclifar.cert.pem -extfile t.ext -not_before 20321220000000Z -not_after 20330201000000Z -sha256 -set_serial 9972 2>/dev/null
  rm -f t.csr t.ext
  openssl x509 -in clifar.cert.pem -noout -dates | tr '\n' ' '; openssl x509 -in tlsclifar.cert.pem -noout -dates | tr '\n' ' '; echo
fi
# (wave 15) an X.509 v3 end-entity certificate from caA that carries NEITHER basicConstraints NOR keyUsage
# (RFC 5280 4.2.1.9: without the extension it is not a CA), and leaves "issued" by it
if [ ! -f v3ee.cert.pem ]; then
  openssl genpkey -algorithm SM2 -out v3ee.key.pem 2>/dev/null
  { echo "subjectKeyIdentifier=hash"; echo "authorityKeyIdentifier=keyid"; } > t.ext
  openssl req -new -key v3ee.key.pem -subj "/C=CN/O=verifsim/CN=ordinary user (v3, no constraints)" -out t.csr -sm3 $D
  openssl x509 -req $V -in t.csr -CA caA.cert.pem -CAkey caA.key.pem -out v3ee.cert.pem -extfile t.ext -not_before $VB -not_after $VA -sm3 $D -set_serial 7773 2>/dev/null
  openssl x509 -in v3ee.cert.pem -noout -text | grep -E "Version:|Basic|Key Usage" || true
  openssl verify $V -CAfile caA.cert.pem v3ee.cert.pem
  mkv3() { # name CN ku eku san : leaf signed by the v3 end entity
    openssl genpkey -algorithm SM2 -out "$1.key.pem" 2>/dev/null
    { echo "basicConstraints=critical,CA:FALSE"; echo "keyUsage=critical,$3"; echo "extendedKeyUsage=$4"; echo "subjectKeyIdentifier=hash"; echo "authorityKeyIdentifier=keyid"; [ -z "$5" ] || echo "subjectAltName=DNS:$5"; } > "$1.ext"
    openssl req -new -key "$1.key.pem" -subj "/C=CN/O=verifsim/CN=$2" -out "$1.csr" -sm3 $D
    openssl x509 -req $V -in "$1.csr" -CA v3ee.cert.pem -CAkey v3ee.key.pem -out "$1.cert.pem" -extfile "$1.ext" -not_before $VB -not_after $VA -sm3 $D -set_serial $RANDOM$RANDOM 2>/dev/null
    rm -f "$1.csr" "$1.ext"
  }
  mkv3 forged3-cli "admin" digitalSignature clientAuth ""
  mkv3 forged3-sign "server.sim sign" digitalSignature serverAuth,clientAuth server.sim
  mkv3 forged3-enc  "server.sim enc"  keyEncipherment,dataEncipherment,keyAgreement serverAuth,clientAuth server.sim
  rm -f t.csr t.ext
fi
# (wave 16) server identities certified for an IP address only (iPAddress SAN 10.0.0.1) under both roots
if [ ! -f srvip-sign.cert.pem ]; then
  mkip() { # name CN ku
    openssl genpkey -algorithm SM2 -out "$1.key.pem" 2>/dev/null
    { echo "basicConstraints=critical,CA:FALSE"; echo "keyUsage=critical,$3"; echo "extendedKeyUsage=serverAuth,clientAuth"; echo "subjectKeyIdentifier=hash"; echo "authorityKeyIdentifier=keyid"; echo "subjectAltName=IP:10.0.0.1"; } > "$1.ext"
    openssl req -new -key "$1.key.pem" -subj "/C=CN/O=verifsim/CN=$2" -out "$1.csr" -sm3 $D
    openssl x509 -req $V -in "$1.csr" -CA caA.cert.pem -CAkey caA.key.pem -out "$1.cert.pem" -extfile "$1.ext" -not_before $VB -not_after $VA -sm3 $D -set_serial $RANDOM$RANDOM 2>/dev/null
    rm -f "$1.csr" "$1.ext"
  }
  mkip srvip-sign "ip sign" digitalSignature
  mkip srvip-enc  "ip enc"  keyEncipherment,dataEncipherment,keyAgreement
  openssl genpkey -algorithm RSA -pkeyopt rsa_keygen_bits:2048 -out tlsip.key.pem 2>/dev/null
  { echo "basicConstraints=critical,CA:FALSE"; echo "keyUsage=critical,digitalSignature,keyEncipherment"; echo "extendedKeyUsage=serverAuth"; echo "subjectKeyIdentifier=hash"; echo "authorityKeyIdentifier=keyid"; echo "subjectAltName=IP:10.0.0.1"; } > t.ext
  openssl req -new -key tlsip.key.pem -subj "/C=CN/O=verifsim/CN=ip" -out t.csr -sha256
  openssl x509 -req -in t.csr -CA rsaCA.cert.pem -CAkey rsaCA.key.pem -out tlsip.cert.pem -extfile t.ext -not_before $VB -not_after $VA -sha256 -set_serial 9393 2>/dev/null
  rm -f t.csr t.ext
  openssl verify -CAfile rsaCA.cert.pem tlsip.cert.pem; openssl verify $V -CAfile caA.cert.pem srvip-sign.cert.pem srvip-enc.cert.pem
fi
