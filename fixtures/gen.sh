#!/bin/bash
# Generates the fixture PKI with OpenSSL 3.5 (independent of gmsm). Run once; outputs are committed.
# Simulated epoch is 2030-01-01; "valid" = 2020..2120.
set -e
cd "$(dirname "$0")"
rm -f *.pem *.srl *.csr
VB=20200101000000Z; VA=21200101000000Z
sm2key() { openssl genpkey -algorithm SM2 -out "$1.key.pem" 2>/dev/null; }
rsakey() { openssl genpkey -algorithm RSA -pkeyopt rsa_keygen_bits:2048 -out "$1.key.pem" 2>/dev/null; }
p256key() { openssl genpkey -algorithm EC -pkeyopt ec_paramgen_curve:P-256 -out "$1.key.pem" 2>/dev/null; }
# ext NAME KIND SAN
ext() {
  local f="$1.ext"; : > "$f"
  case "$2" in
    ca)   echo "basicConstraints=critical,CA:TRUE" >> "$f"; echo "keyUsage=critical,keyCertSign,cRLSign,digitalSignature" >> "$f";;
    sign) echo "basicConstraints=critical,CA:FALSE" >> "$f"; echo "keyUsage=critical,digitalSignature" >> "$f"; echo "extendedKeyUsage=serverAuth,clientAuth" >> "$f";;
    enc)  echo "basicConstraints=critical,CA:FALSE" >> "$f"; echo "keyUsage=critical,keyEncipherment,dataEncipherment,keyAgreement" >> "$f"; echo "extendedKeyUsage=serverAuth,clientAuth" >> "$f";;
    tls)  echo "basicConstraints=critical,CA:FALSE" >> "$f"; echo "keyUsage=critical,digitalSignature,keyEncipherment" >> "$f"; echo "extendedKeyUsage=serverAuth,clientAuth" >> "$f";;
    cli)  echo "basicConstraints=critical,CA:FALSE" >> "$f"; echo "keyUsage=critical,digitalSignature" >> "$f"; echo "extendedKeyUsage=clientAuth" >> "$f";;
  esac
  echo "subjectKeyIdentifier=hash" >> "$f"
  [ "$2" != "ca" ] || true
  echo "authorityKeyIdentifier=keyid" >> "$f"
  [ -z "$3" ] || echo "subjectAltName=DNS:$3" >> "$f"
}
# root NAME CN keygen md
root() {
  VO=""; [ "$3" = sm2key ] && VO="-vfyopt distid:1234567812345678"
  $3 "$1"; ext "$1" ca ""
  sed -i '/authorityKeyIdentifier/d' "$1.ext"
  openssl req -new -key "$1.key.pem" -subj "/C=CN/O=verifsim/CN=$2" -out "$1.csr" -$4 $( [ "$3" = sm2key ] && echo -sigopt distid:1234567812345678 )
  openssl x509 -req $VO -in "$1.csr" -signkey "$1.key.pem" -out "$1.cert.pem" -extfile "$1.ext" -not_before $VB -not_after $VA -$4 $( [ "$3" = sm2key ] && echo -sigopt distid:1234567812345678 ) -set_serial $RANDOM$RANDOM 2>/dev/null
}
# leaf NAME CN CA KIND SAN keygen md [nb na]
leaf() {
  VO=""; [ "$6" = sm2key ] && VO="-vfyopt distid:1234567812345678"
  $6 "$1"; ext "$1" "$4" "$5"
  local nb=${8:-$VB}; local na=${9:-$VA}
  local cmd=sha256; [ "$6" = sm2key ] && cmd=sm3
  openssl req -new -key "$1.key.pem" -subj "/C=CN/O=verifsim/CN=$2" -out "$1.csr" -$cmd $( [ "$6" = sm2key ] && echo -sigopt distid:1234567812345678 )
  openssl x509 -req $VO -in "$1.csr" -CA "$3.cert.pem" -CAkey "$3.key.pem" -out "$1.cert.pem" -extfile "$1.ext" -not_before $nb -not_after $na -$7 $( [ "$7" = sm3 ] && echo -sigopt distid:1234567812345678 ) -set_serial $RANDOM$RANDOM 2>/dev/null
}
root caA "verifsim SM2 root A" sm2key sm3
root caB "verifsim SM2 root B" sm2key sm3
root rsaCA "verifsim RSA root" rsakey sha256
# intermediate under caA
leaf caAint "verifsim SM2 intermediate" caA ca "" sm2key sm3
sed -i 's/CA:FALSE/CA:TRUE/' caAint.ext 2>/dev/null || true
for s in srv srv2; do
  n=server.sim; [ $s = srv2 ] && n=server2.sim
  leaf $s-sign "$n sign" caA sign $n sm2key sm3
  leaf $s-enc  "$n enc"  caA enc  $n sm2key sm3
done
leaf srvB-sign "server.sim sign" caB sign server.sim sm2key sm3
leaf srvB-enc  "server.sim enc"  caB enc  server.sim sm2key sm3
leaf srvexp-sign "server.sim sign" caA sign server.sim sm2key sm3 20200101000000Z 20250101000000Z
leaf srvexp-enc  "server.sim enc"  caA enc  server.sim sm2key sm3 20200101000000Z 20250101000000Z
leaf srvfut-sign "server.sim sign" caA sign server.sim sm2key sm3 20350101000000Z 21200101000000Z
leaf srvfut-enc  "server.sim enc"  caA enc  server.sim sm2key sm3 20350101000000Z 21200101000000Z
# narrow validity window for clock-skew faults: 2029-12-31 .. 2030-01-02
leaf srvnarrow-sign "server.sim sign" caA sign server.sim sm2key sm3 20291231000000Z 20300102000000Z
leaf srvnarrow-enc  "server.sim enc"  caA enc  server.sim sm2key sm3 20291231000000Z 20300102000000Z
leaf srvother-sign "other.sim sign" caA sign other.sim sm2key sm3
leaf srvother-enc  "other.sim enc"  caA enc  other.sim sm2key sm3
leaf srvrsa "server.sim rsa" caA tls server.sim rsakey sm3
leaf srvp256 "server.sim p256" caA tls server.sim p256key sm3
leaf srvint-sign "server.sim sign" caAint sign server.sim sm2key sm3
leaf srvint-enc  "server.sim enc"  caAint enc  server.sim sm2key sm3
sm2key spare
leaf cli "client one" caA cli "" sm2key sm3
leaf cliB "client one" caB cli "" sm2key sm3
leaf cliexp "client one" caA cli "" sm2key sm3 20200101000000Z 20250101000000Z
leaf clinarrow "client one" caA cli "" sm2key sm3 20291231000000Z 20300102000000Z
# self-signed client
VO="-vfyopt distid:1234567812345678"; sm2key cliself; ext cliself cli ""; sed -i '/authorityKeyIdentifier/d' cliself.ext
openssl req -new -key cliself.key.pem -subj "/C=CN/O=verifsim/CN=client self" -out cliself.csr -sm3 -sigopt distid:1234567812345678
openssl x509 -req $VO -in cliself.csr -signkey cliself.key.pem -out cliself.cert.pem -extfile cliself.ext -not_before $VB -not_after $VA -sm3 -sigopt distid:1234567812345678 -set_serial 77 2>/dev/null
# TLS (RSA / ECDSA) identities
leaf tlsrsa "server.sim" rsaCA tls server.sim rsakey sha256
leaf tlsp256 "server.sim" rsaCA tls server.sim p256key sha256
leaf tlsclirsa "client rsa" rsaCA cli "" rsakey sha256
# fix intermediate: regenerate as CA (ext file edited above applies only on re-sign)
VO="-vfyopt distid:1234567812345678"; ext caAint ca ""; openssl x509 -req $VO -in caAint.csr -CA caA.cert.pem -CAkey caA.key.pem -out caAint.cert.pem -extfile caAint.ext -not_before $VB -not_after $VA -sm3 -sigopt distid:1234567812345678 -set_serial 4242 2>/dev/null
openssl x509 -req $VO -in srvint-sign.csr -CA caAint.cert.pem -CAkey caAint.key.pem -out srvint-sign.cert.pem -extfile srvint-sign.ext -not_before $VB -not_after $VA -sm3 -sigopt distid:1234567812345678 -set_serial 4243 2>/dev/null
openssl x509 -req $VO -in srvint-enc.csr -CA caAint.cert.pem -CAkey caAint.key.pem -out srvint-enc.cert.pem -extfile srvint-enc.ext -not_before $VB -not_after $VA -sm3 -sigopt distid:1234567812345678 -set_serial 4244 2>/dev/null
rm -f *.csr *.ext *.srl
echo "# note: openssl verify applies -vfyopt distid only at depth 0, so chains through the SM2 intermediate are verified by gmsm and refsm2 instead (see DESIGN.md Appendix F)"
# cross-check log
set +e
{
  echo "# openssl verify log ($(openssl version))"
  for c in srv-sign srv-enc srv2-sign srv2-enc srvother-sign srvother-enc srvrsa srvp256 cli caAint; do openssl verify -vfyopt distid:1234567812345678 -CAfile caA.cert.pem $c.cert.pem 2>&1; done
  for c in srvint-sign srvint-enc; do openssl verify -vfyopt distid:1234567812345678 -CAfile caA.cert.pem -untrusted caAint.cert.pem $c.cert.pem 2>&1; done
  for c in srvB-sign srvB-enc cliB; do openssl verify -vfyopt distid:1234567812345678 -CAfile caB.cert.pem $c.cert.pem 2>&1; done
  for c in tlsrsa tlsp256 tlsclirsa; do openssl verify -CAfile rsaCA.cert.pem $c.cert.pem 2>&1; done
  echo "# expected failures (expired / not yet valid at the real clock is irrelevant; -attime 2030-01-01 = 1893456000)"
  for c in srvexp-sign srvfut-sign srvnarrow-sign cliexp; do openssl verify -vfyopt distid:1234567812345678 -attime 1893456000 -CAfile caA.cert.pem $c.cert.pem 2>&1 | tail -1; done
} > openssl_verify.log
cat openssl_verify.log
