package scen

import (
	"bytes"
	"fmt"
	"io"
	"time"

	"github.com/tjfoc/gmsm/gmtls"
	"github.com/tjfoc/gmsm/verifsim/pki"
	"github.com/tjfoc/gmsm/verifsim/simkit"
)

// Shared machinery of the TLS scenario families: endpoints as tasks over
// simnet, entropy and clock seams, application workloads.

const (
	modeGM   = 0 // GMSSL only
	modeAuto = 1 // GMSSL/TLS auto switch
	modeTLS  = 2 // plain TLS
)

var gmSuites = []uint16{gmtls.GMTLS_ECC_SM4_CBC_SM3, gmtls.GMTLS_ECC_SM4_GCM_SM3}

// endRes is what one endpoint observed.
type endRes struct {
	HsErr     error
	HsDone    bool
	State     gmtls.ConnectionState
	EKM       [3][]byte
	EKMErr    error
	Read      []byte
	ReadErr   error // terminal error of the read loop (nil = clean EOF)
	ReadErrs  int
	WriteErr  error
	Written   int
	CloseErr  error
	KeyLog    bytes.Buffer
	Finished  bool // task ran to completion
	NReadOps  int
	NWriteOps int
	Timeouts  int
	SeenSNI   []string // ServerName seen by certificate/config callbacks
}

type ekmArg struct {
	label string
	ctx   []byte
	n     int
}

var ekmArgs = [3]ekmArg{{"EXPORTER-verifsim-a", nil, 32}, {"EXPORTER-verifsim-b", []byte("context"), 16}, {"EXPORTER-verifsim-c", []byte{}, 48}}

// appPlan is the application workload of one endpoint.
type appPlan struct {
	Payload   []byte
	WriteCuts []int // fragment sizes for Write calls (sum == len(Payload))
	ReadBuf   []int // cycle of read buffer sizes
	Deadline  int64 // if >0: set a read deadline this far ahead before every Read and retry on timeout
	NoClose   bool
}

func drawPayloadLen(c *simkit.Choice) int {
	switch c.Weighted([]int{4, 3, 2, 1, 1}, simkit.LScen) {
	case 0:
		return c.Range(0, 64, simkit.LScen)
	case 1:
		return c.Range(0, 4096, simkit.LScen)
	case 2:
		return []int{16383, 16384, 16385, 32768, 1, 0}[c.Choose(6, simkit.LScen)]
	case 3:
		return c.Range(0, 70000, simkit.LScen)
	}
	return c.Range(0, 200*1024, simkit.LScen)
}

func drawPlan(c *simkit.Choice, n int) appPlan {
	p := appPlan{Payload: drawData(c, n)}
	rem := n
	mode := c.Weighted([]int{3, 2, 2, 1}, simkit.LIO)
	for rem > 0 {
		var k int
		switch mode {
		case 0:
			k = rem
		case 1:
			k = c.Range(1, 2000, simkit.LIO)
		case 2:
			k = []int{1, 16384, 16385, 100, 5000}[c.Choose(5, simkit.LIO)]
		default:
			k = c.Range(0, rem, simkit.LIO) // includes 0-byte writes
			if k == 0 && c.Bool(1, 2, simkit.LIO) {
				k = 1
			}
		}
		if k > rem {
			k = rem
		}
		p.WriteCuts = append(p.WriteCuts, k)
		rem -= k
		if len(p.WriteCuts) > 300 {
			p.WriteCuts = append(p.WriteCuts, rem)
			rem = 0
		}
	}
	nb := 1 + c.Choose(3, simkit.LIO)
	for i := 0; i < nb; i++ {
		p.ReadBuf = append(p.ReadBuf, []int{4096, 1, 17, 16384, 70000, 512}[c.Choose(6, simkit.LIO)])
	}
	return p
}

// appRun runs the workload on an established connection from the endpoint's
// main task: a writer task sends the plan, the main task reads until EOF.
func appRun(s *simkit.Sim, node int, name string, conn *gmtls.Conn, raw *simkit.Conn, plan *appPlan, res *endRes) {
	wdone := &simkit.Flag{Name: name + "-writer-done"}
	s.Spawn(name+"-w", node, func() {
		defer wdone.Set()
		off := 0
		for _, k := range plan.WriteCuts {
			n, err := conn.Write(plan.Payload[off : off+k])
			res.NWriteOps++
			res.Written += n
			if err != nil {
				res.WriteErr = err
				return
			}
			if n != k {
				res.WriteErr = fmt.Errorf("short write %d of %d without error", n, k)
				return
			}
			off += k
		}
		if !plan.NoClose {
			if err := conn.CloseWrite(); err != nil {
				res.WriteErr = err
			}
		}
	})
	bi := 0
	buf := make([]byte, 70000)
	for {
		b := buf[:plan.ReadBuf[bi%len(plan.ReadBuf)]]
		bi++
		if plan.Deadline > 0 {
			raw.SetReadDeadlineNS(s.Now + plan.Deadline)
		}
		n, err := conn.Read(b)
		res.NReadOps++
		if n > 0 {
			res.Read = append(res.Read, b[:n]...)
		}
		if err == io.EOF {
			break
		}
		if err != nil {
			if isTimeout(err) && plan.Deadline > 0 && res.Timeouts < 1000000 {
				res.Timeouts++
				continue
			}
			res.ReadErr = err
			break
		}
		if res.NReadOps > 2000000 {
			res.ReadErr = fmt.Errorf("read loop did not terminate")
			break
		}
	}
	s.WaitFlag(wdone)
	if !plan.NoClose {
		res.CloseErr = conn.Close()
	}
}

func collectState(conn *gmtls.Conn, res *endRes) {
	res.State = conn.ConnectionState()
	res.HsDone = res.State.HandshakeComplete
	if res.HsDone {
		for i, a := range ekmArgs {
			res.EKM[i], res.EKMErr = res.State.ExportKeyingMaterial(a.label, a.ctx, a.n)
			if res.EKMErr != nil {
				break
			}
		}
	}
}

// simTime returns a Config.Time function reading the virtual clock with a skew.
func simTime(s *simkit.Sim, skew int64) func() time.Time {
	return func() time.Time { return simkit.TimeAt(s.Now + skew) }
}

// gmServerCerts returns the static GM certificate pair.
func gmServerCerts(sign, enc string) []gmtls.Certificate {
	return []gmtls.Certificate{pki.GM(sign), pki.GM(enc)}
}

func errStr(e error) string {
	if e == nil {
		return ""
	}
	return e.Error()
}
