package scen

import (
	"fmt"

	"github.com/tjfoc/gmsm/gmtls"
	"github.com/tjfoc/gmsm/verifsim/pki"
	"github.com/tjfoc/gmsm/verifsim/ref/reftls"
	"github.com/tjfoc/gmsm/verifsim/simkit"
)

// C15, second handshakes: a TLS client that allows renegotiation has completed
// an honest handshake with the reference server. The server asks for a
// renegotiation (HelloRequest), takes the client's new ClientHello and then
// misbehaves: a wrong message, garbage, an alert, application data, the end of
// the stream. The second handshake is a handshake like the first: the call that
// ran it returns an error, the connection never again reports a complete
// handshake, and nothing the peer sends afterwards reaches the application.
// (A GMSSL client cannot renegotiate in this code base: it refuses the
// HelloRequest record itself; that path is exercised with the same script and
// the same expectations.)

var renegFaults = []string{"reneg-wrong-message", "reneg-unknown-message-type", "reneg-fatal-alert", "reneg-stream-ends", "reneg-application-data", "reneg-warning-alerts-then-silence-ends", "reneg-plaintext-record"}
var renegReach = []string{"renegotiation-hello-sent", "second-handshake-failed", "post-failure-calls-checked", "gm-client", "tls-client", "policy-once", "policy-freely"}

func init() {
	register(Family{Name: "tls-scripted-reneg", Prop: "C15", ID: 1502, Weight: 1, FaultNames: renegFaults, ReachNames: renegReach, Run: runScriptedReneg})
}

func runScriptedReneg(c *simkit.Choice, r *simkit.Rec) {
	pki.Load()
	gm := c.Bool(1, 5, simkit.LScen)
	policy := []gmtls.RenegotiationSupport{gmtls.RenegotiateOnceAsClient, gmtls.RenegotiateFreelyAsClient}[c.Choose(2, simkit.LScen)]
	kind := c.Choose(len(renegFaults), simkit.LFault)
	suite := []uint16{0x002f, 0x009c, 0xc02f, 0x003c, 0x009d}[c.Choose(5, simkit.LScen)]
	if gm {
		suite = gmSuites[c.Choose(2, simkit.LScen)]
	}
	junk := drawData(c, c.Range(0, 40, simkit.LFault))
	n1, n2 := simkit.DrawNetCfg(c), simkit.DrawNetCfg(c)
	entC := simkit.NewStream(uint64(c.Choose(1<<31, simkit.LEntropy)) + 71)
	entS := simkit.NewStream(uint64(c.Choose(1<<31, simkit.LEntropy)) + 73)
	s := simkit.NewSim(c, simkit.Policy{StarveNode: -1}, 4000000)
	a, b := s.NewConnPair("cli", "ref", n1, n2)
	mode := map[bool]string{true: "gmssl", false: "tls"}[gm]
	r.Config = fmt.Sprintf("reneg/%s/%04x/policy%d/%s", mode, suite, policy, renegFaults[kind])
	r.SigStr(r.Config)
	r.Nontrivial = true
	r.Fault(kind)
	if gm {
		r.Reach(idx(renegReach, "gm-client"))
	} else {
		r.Reach(idx(renegReach, "tls-client"))
	}
	r.Reach(idx(renegReach, map[gmtls.RenegotiationSupport]string{gmtls.RenegotiateOnceAsClient: "policy-once", gmtls.RenegotiateFreelyAsClient: "policy-freely"}[policy]))

	ccfg := &gmtls.Config{Rand: entC, Time: simTime(s, 0), ServerName: "server.sim", CipherSuites: []uint16{suite}, Renegotiation: policy, SessionTicketsDisabled: true}
	scfg := &reftls.ServerCfg{Rand: entS, Suites: []uint16{suite}}
	if gm {
		ccfg.GMSupport = gmtls.NewGMSupport()
		ccfg.RootCAs = pki.Pool("caA")
		scfg.Sign = &reftls.Identity{Chain: [][]byte{pki.DER("srv-sign")}, Key: pki.D("srv-sign")}
		scfg.Enc = &reftls.Identity{Chain: [][]byte{pki.DER("srv-enc")}, Key: pki.D("srv-enc")}
	} else {
		ccfg.RootCAs = pki.Pool("rsaCA")
		ccfg.MinVersion, ccfg.MaxVersion = gmtls.VersionTLS12, gmtls.VersionTLS12
		scfg.TLS12 = true
		scfg.Sign = &reftls.Identity{Chain: [][]byte{pki.DER("tlsrsa")}, RSA: refRSA("tlsrsa")}
	}
	var hsErr, srvErr, rdErr, again, rd2Err, wErr error
	var got, got2 []byte
	var stAfter gmtls.ConnectionState
	sawHello, finished := false, false
	s.Spawn("cli", 0, func() {
		conn := gmtls.Client(a, ccfg)
		if hsErr = conn.Handshake(); hsErr != nil {
			a.Close()
			finished = true
			return
		}
		buf := make([]byte, 64)
		for {
			n, err := conn.Read(buf)
			got = append(got, buf[:n]...)
			if err != nil {
				rdErr = err
				break
			}
		}
		// the application looks at the connection again
		again = conn.Handshake()
		stAfter = conn.ConnectionState()
		for k := 0; k < 3; k++ {
			n, err := conn.Read(buf)
			got2 = append(got2, buf[:n]...)
			if err != nil {
				rd2Err = err
				break
			}
		}
		_, wErr = conn.Write([]byte("written after the failed renegotiation"))
		conn.Close()
		finished = true
	})
	s.Spawn("ref", 1, func() {
		pc := reftls.NewConn(b)
		b.SetReadDeadlineNS(s.Now + 60e9)
		var res *reftls.Result
		res, srvErr = reftls.ServerHandshake(pc, scfg)
		if srvErr != nil || res == nil || !res.Complete {
			if srvErr == nil {
				srvErr = fmt.Errorf("reference server did not complete")
			}
			b.Close()
			return
		}
		pc.WriteRecord(reftls.RecApp, []byte("d0"))
		pc.WriteRecord(reftls.RecHandshake, reftls.Handshake(reftls.HsHelloRequest, nil))
		// wait for the client's answer: its new ClientHello (or whatever it makes of the request)
		for !sawHello {
			typ, _, err := pc.ReadRecord()
			if err != nil {
				break
			}
			if typ == reftls.RecHandshake {
				sawHello = true
			}
			if typ == reftls.RecAlert {
				break
			}
		}
		switch kind {
		case 0:
			pc.WriteRecord(reftls.RecHandshake, reftls.Handshake(reftls.HsServerHelloDone, nil))
		case 1:
			pc.WriteRecord(reftls.RecHandshake, reftls.Handshake(99, junk))
		case 2:
			pc.WriteRecord(reftls.RecAlert, []byte{reftls.AlertFatal, 40})
		case 3:
			b.Close()
			return
		case 4:
			pc.WriteRecord(reftls.RecApp, []byte("application data in place of a ServerHello"))
		case 5:
			for k := 0; k < 3; k++ {
				pc.WriteRecord(reftls.RecAlert, []byte{reftls.AlertWarning, 90})
			}
			pc.WriteRecord(reftls.RecHandshake, reftls.Handshake(reftls.HsFinished, junk))
		case 6:
			pc.WriteRecordRaw(reftls.RecHandshake, 0x0303, reftls.Handshake(reftls.HsServerHelloDone, nil))
		}
		// ... and carries on as if nothing had happened
		pc.WriteRecord(reftls.RecApp, []byte("d-after"))
		pc.CloseNotify()
		for {
			if _, _, err := pc.ReadRecord(); err != nil {
				break
			}
		}
		b.Close()
	})
	s.Run()
	r.FromSim(s)
	site := fmt.Sprintf("client/%s/%s", mode, renegFaults[kind])
	r.Detail = map[string]interface{}{"mode": mode, "suite": fmt.Sprintf("%04x", suite), "policy": int(policy), "script": renegFaults[kind], "first_handshake": fmt.Sprintf("%v / %v", hsErr, srvErr),
		"read": fmt.Sprintf("%q then %v", got, rdErr), "renegotiation_hello_seen": sawHello, "handshake_again": errStr(again), "complete_after": stAfter.HandshakeComplete, "read_after": fmt.Sprintf("%q %v", got2, rd2Err), "write_after": errStr(wErr)}
	s.TaskPanics(r)
	if r.Violation() != nil || r.HarnessErr != "" {
		return
	}
	if s.Reason == simkit.StopBudget {
		r.Violate("no-progress", site, fmt.Sprintf("step budget exhausted: %v", s.Blocked))
		return
	}
	if hsErr != nil || srvErr != nil {
		r.Violate("honest-peer-rejected", site, fmt.Sprintf("honest first handshake failed: client=%v reference server=%v", hsErr, srvErr))
		return
	}
	if !finished {
		r.Violate("keeps-waiting", site, fmt.Sprintf("the client did not return although the peer's stream has ended: %v", s.Blocked))
		return
	}
	if sawHello {
		r.Reach(idx(renegReach, "renegotiation-hello-sent"))
	}
	if string(got) != "d0" || rdErr == nil {
		r.Violate("completed-with-misbehaving-peer", site, fmt.Sprintf("the Read that met the renegotiation returned %q, %v; the server never completed a second handshake, so only \"d0\" and an error are possible", got, rdErr))
		return
	}
	r.Reach(idx(renegReach, "second-handshake-failed"))
	// (when no second handshake was begun - the request itself was refused at the
	// record layer - the first handshake's result stands; the connection is dead all the same)
	if sawHello && (again == nil || stAfter.HandshakeComplete) {
		r.Violate("completed-with-misbehaving-peer", site, fmt.Sprintf("after the failed second handshake (%v) Handshake returned %v and ConnectionState reports HandshakeComplete=%v", rdErr, again, stAfter.HandshakeComplete))
		return
	}
	if len(got2) > 0 || rd2Err == nil {
		r.Violate("data-after-failed-handshake", site, fmt.Sprintf("after the failed second handshake (%v) Read delivered %q, %v", rdErr, got2, rd2Err))
		return
	}
	if wErr == nil {
		r.Violate("error-not-sticky", site, fmt.Sprintf("after the failed second handshake (%v) a Write succeeded", rdErr))
		return
	}
	r.Reach(idx(renegReach, "post-failure-calls-checked"))
	r.Outcome = "second-handshake-refused"
}
