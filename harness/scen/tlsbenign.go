package scen

import (
	"bytes"
	"crypto/tls"
	"errors"
	"fmt"
	"io"
	"strings"
	"time"

	"github.com/tjfoc/gmsm/gmtls"
	"github.com/tjfoc/gmsm/verifsim/pki"
	"github.com/tjfoc/gmsm/verifsim/ref/reftls"
	"github.com/tjfoc/gmsm/verifsim/simkit"
)

// C06: two real endpoints on a benign simulated network; every configuration
// axis redrawn per run; outcome predicted by the policy model of DESIGN.md
// Appendix A where the documentation is unambiguous.

var benignFaults = []string{"resegment", "dribble", "random-cuts", "latency", "jitter", "short-read", "finite-window", "starved-node", "deadline-retry", "preempt", "short-reads-from-rand"}
var benignReach = []string{"A1-proto-mismatch", "A2-version", "A3-no-suite", "A4-ecdhe-gm", "A5-missing-certs", "A6-server-verify", "A7-client-auth", "A8-callback-error", "A9-complete",
	"gm-cbc", "gm-gcm", "tls10", "tls11", "tls12", "client-cert-sent", "callbacks-cert", "getconfigforclient", "payload>=16k", "payload-0", "stdlib-client", "stdlib-server", "wire-decoded", "vhost-second-name", "timeout-retried", "auto-gm", "auto-tls", "wire-decoded-tls12", "alpn-negotiated", "client-chain-with-intermediate", "certificate-message-over-one-record", "default-pair-probed-before-and-after"}

func init() {
	register(Family{Name: "tls-benign", Prop: "C06", ID: 601, Weight: 1, FaultNames: benignFaults, ReachNames: benignReach, Run: runTLSBenign})
}

type suiteInfo struct {
	id     uint16
	tls12  bool // only TLS 1.2
	ecdsa  bool // needs an ECDSA server key
	rsaKex bool
}

// the TLS suites exercised (properties from their RFC definitions)
var tlsSuiteTab = []suiteInfo{
	{0xc02f, true, false, false},  // ECDHE_RSA_AES128_GCM_SHA256
	{0xc030, true, false, false},  // ECDHE_RSA_AES256_GCM_SHA384
	{0xc02b, true, true, false},   // ECDHE_ECDSA_AES128_GCM_SHA256
	{0xc02c, true, true, false},   // ECDHE_ECDSA_AES256_GCM_SHA384
	{0xcca8, true, false, false},  // ECDHE_RSA_CHACHA20_POLY1305
	{0xcca9, true, true, false},   // ECDHE_ECDSA_CHACHA20_POLY1305
	{0x009c, true, false, true},   // RSA_AES128_GCM_SHA256
	{0x009d, true, false, true},   // RSA_AES256_GCM_SHA384
	{0x002f, false, false, true},  // RSA_AES128_CBC_SHA
	{0x0035, false, false, true},  // RSA_AES256_CBC_SHA
	{0xc014, false, false, false}, // ECDHE_RSA_AES256_CBC_SHA
	{0xc009, false, true, false},  // ECDHE_ECDSA_AES128_CBC_SHA
	{0xc00a, false, true, false},  // ECDHE_ECDSA_AES256_CBC_SHA
	{0x000a, false, false, true},  // RSA_3DES_EDE_CBC_SHA
	{0x003c, true, false, true},   // RSA_AES128_CBC_SHA256
}

func tlsSuite(id uint16) *suiteInfo {
	for i := range tlsSuiteTab {
		if tlsSuiteTab[i].id == id {
			return &tlsSuiteTab[i]
		}
	}
	return nil
}

const (
	peerGmtls     = 0
	peerStdClient = 1 // stdlib crypto/tls client -> gmtls server
	peerStdServer = 2 // gmtls client -> stdlib crypto/tls server
)

type benignParams struct {
	SMode        int
	CGM          bool
	Peer         int
	CSuites      []uint16
	SSuites      []uint16
	PreferServer bool
	CMin, CMax   uint16
	SMin, SMax   uint16
	ClientAuth   gmtls.ClientAuthType
	ClientCert   int  // 0 none 1 valid 2 untrusted (other CA) 3 valid, chain through an intermediate CA
	ClientLeaf   bool // Certificate.Leaf populated (as its documentation recommends)
	SrvClientCAs bool
	SrvCertSrc   int      // 0 static 1 callbacks 2 GetConfigForClient 3 callbacks decline (nil, nil), static list present 4 callbacks decline, nothing static
	Curves       []uint16 // TLS: CurvePreferences of both ends (nil = default)
	CProtos      []string // NextProtos of the client (ALPN)
	SProtos      []string // NextProtos of the server
	CliCertSrc   int      // 0 static 1 GetClientCertificate
	Tickets      bool
	DynOff       bool
	SrvKey       int  // TLS: 0 rsa 1 ecdsa P-256 2 ecdsa P-384 3 ecdsa P-521
	CliKey       int  // TLS client certificate (ClientCert 1): 0 rsa 1 ecdsa P-384 2 ecdsa P-521
	CallbackErr  int  // 0 none 1 server cert callback fails 2 client cert callback fails
	CVerify      int  // 0 correct 1 wrong server name 2 wrong roots 3 InsecureSkipVerify
	SrvChain     int  // GM: 0 direct leaf, 1 via intermediate
	SrvMissing   bool // GMSSL server configured with the signing certificate only
	VHost        bool // the server holds two identities; the client asks for the second name (server2.sim)
	SNICase      int  // VHost: spelling of the second name in the client's ServerName (0 lower case, 1 mixed case, 2 upper case): host names are case-insensitive
	VHostCB      bool // VHost on a TLS-only server: static default certificate + GetCertificate callback serving the second name
	MultiCert    bool // GMSSL client holding several certificates, an RSA one first: the SM2 one is the one to send
	Reneg        int  // client's Config.Renegotiation (never / once / freely): no effect on a benign session
	BigSize      int  // BigChain: bytes of padding certificates per chain (0 = 17 500; 40 000 makes the transcript of a mutually authenticated TLS handshake exceed 64 KiB before the ClientKeyExchange)
	BigChain     bool // certificate chains padded with unrelated certificates of the same family until the Certificate message exceeds one record (16 KiB)
	OuterCfg     int  // SrvCertSrc 2: policy fields of the listener configuration: 0 same as the per-connection one, 1 permissive decoy, 2 restrictive decoy
}

func drawSuiteList(c *simkit.Choice, pool []uint16) []uint16 {
	if c.Bool(1, 4, simkit.LScen) {
		return nil // default
	}
	// subset in drawn order, at least one
	idxs := make([]int, len(pool))
	for i := range idxs {
		idxs[i] = i
	}
	var out []uint16
	n := 1 + c.Choose(len(pool), simkit.LScen)
	if n > 5 {
		n = 1 + c.Choose(5, simkit.LScen)
	}
	for i := 0; i < n; i++ {
		j := c.Choose(len(idxs), simkit.LScen)
		out = append(out, pool[idxs[j]])
		idxs = append(idxs[:j], idxs[j+1:]...)
	}
	return out
}

var gmAllSuites = []uint16{gmtls.GMTLS_ECC_SM4_CBC_SM3, gmtls.GMTLS_ECC_SM4_GCM_SM3, gmtls.GMTLS_ECDHE_SM4_CBC_SM3, gmtls.GMTLS_ECDHE_SM4_GCM_SM3}

func drawBenignParams(c *simkit.Choice) benignParams {
	var p benignParams
	p.SMode = c.Weighted([]int{4, 3, 2}, simkit.LScen)
	p.CGM = !c.Bool(3, 10, simkit.LScen)
	// mostly compatible protocol families
	if c.Bool(9, 10, simkit.LScen) {
		if p.SMode == modeGM {
			p.CGM = true
		}
		if p.SMode == modeTLS {
			p.CGM = false
		}
	}
	if !p.CGM && p.SMode != modeGM {
		p.Peer = c.Weighted([]int{3, 2, 2}, simkit.LScen)
		if p.Peer == peerStdServer && p.SMode != modeTLS {
			p.Peer = peerGmtls
		}
	}
	if p.CGM {
		// GM suites: mostly the two implemented ones
		pool := gmSuites
		if c.Bool(1, 6, simkit.LScen) {
			pool = gmAllSuites
		}
		if c.Bool(1, 5, simkit.LScen) {
			// a list shared with TLS use (auto-switch deployments): ids of the other family mixed in
			pool = append(append([]uint16(nil), pool...), 0xc02f, 0x009c, 0x002f, 0xc02b)
		}
		p.CSuites = drawSuiteList(c, pool)
		p.SSuites = drawSuiteList(c, pool)
		if p.CSuites == nil && c.Bool(5, 6, simkit.LScen) {
			// the default list prefers... nothing is predicted for it unless ECDHE is excluded
			p.CSuites = append([]uint16(nil), gmSuites...)
		}
	} else {
		var pool []uint16
		for _, s := range tlsSuiteTab {
			pool = append(pool, s.id)
		}
		if c.Bool(1, 5, simkit.LScen) {
			pool = append(pool, gmSuites...)
		}
		p.CSuites = drawSuiteList(c, pool)
		p.SSuites = drawSuiteList(c, pool)
		p.Curves = [][]uint16{nil, nil, {23}, {24}, {25}, {25, 23}, {29}, {24, 29, 23}}[c.Choose(8, simkit.LScen)]
		vs := []uint16{0, gmtls.VersionTLS10, gmtls.VersionTLS11, gmtls.VersionTLS12}
		p.CMax = vs[c.Weighted([]int{5, 1, 1, 2}, simkit.LScen)]
		p.SMax = vs[c.Weighted([]int{5, 1, 1, 2}, simkit.LScen)]
		p.CMin = vs[c.Weighted([]int{3, 3, 1, 2}, simkit.LScen)]
		p.SMin = vs[c.Weighted([]int{3, 3, 1, 2}, simkit.LScen)]
		p.SrvKey = c.Weighted([]int{6, 2, 1, 1}, simkit.LScen)
		p.CliKey = c.Weighted([]int{4, 1, 1}, simkit.LScen)
	}
	// application protocols: none, both ends with a common entry, one end only
	protoPool := []string{"h2", "http/1.1", "sim/1", "sim/2"}
	switch c.Weighted([]int{3, 3, 1, 1}, simkit.LScen) {
	case 1:
		common := protoPool[c.Choose(4, simkit.LScen)]
		p.CProtos = []string{protoPool[c.Choose(4, simkit.LScen)], common}
		p.SProtos = []string{common, protoPool[c.Choose(4, simkit.LScen)]}
		if c.Bool(1, 2, simkit.LScen) {
			p.SProtos[0], p.SProtos[1] = p.SProtos[1], p.SProtos[0]
		}
	case 2:
		p.CProtos = []string{protoPool[c.Choose(4, simkit.LScen)]}
	case 3:
		p.SProtos = []string{protoPool[c.Choose(4, simkit.LScen)]}
	}
	p.PreferServer = c.Bool(1, 3, simkit.LScen)
	p.ClientAuth = gmtls.ClientAuthType(c.Weighted([]int{4, 1, 1, 1, 2}, simkit.LScen))
	p.ClientCert = c.Weighted([]int{3, 4, 1, 2}, simkit.LScen) // 3: valid, issued by an intermediate CA whose certificate travels along
	p.ClientLeaf = c.Bool(1, 2, simkit.LScen)
	p.SrvClientCAs = !c.Bool(1, 6, simkit.LScen)
	p.SrvCertSrc = c.Weighted([]int{3, 2, 1}, simkit.LScen)
	p.CliCertSrc = c.Weighted([]int{3, 1}, simkit.LScen)
	p.Tickets = c.Bool(1, 2, simkit.LScen)
	p.DynOff = c.Bool(1, 3, simkit.LScen)
	if c.Bool(1, 25, simkit.LScen) {
		p.CallbackErr = 1 + c.Choose(2, simkit.LScen)
	}
	p.CVerify = c.Weighted([]int{12, 1, 1, 2}, simkit.LScen)
	if p.CGM && p.SMode != modeTLS && c.Bool(1, 30, simkit.LScen) {
		p.SrvMissing = true
		p.SrvCertSrc = 0
	}
	if p.SMode != modeAuto && !p.SrvMissing && p.CallbackErr != 1 && c.Bool(1, 8, simkit.LScen) {
		p.SrvCertSrc = 3 + c.Weighted([]int{3, 1}, simkit.LScen)
	}
	if p.Peer == peerGmtls && !p.SrvMissing && p.SrvCertSrc < 3 && p.CVerify == 0 && p.CallbackErr == 0 && c.Bool(1, 5, simkit.LScen) {
		p.VHost = true
		p.SrvKey = 0 // the second TLS identity has an RSA key
		if p.SrvCertSrc == 0 && (p.CGM || p.SMode == modeAuto) {
			p.SrvCertSrc = 1 // GMSSL / auto-switch select by name through the callbacks
		}
	}
	// the stdlib ends have no callbacks in this harness: certificates are static there
	if p.Peer == peerStdClient {
		p.CliCertSrc = 0
		if p.CallbackErr == 2 {
			p.CallbackErr = 0
		}
	}
	if p.Peer == peerStdServer {
		p.SrvCertSrc = 0
		if p.CallbackErr == 1 {
			p.CallbackErr = 0
		}
	}
	// SrvChain (certificates under an intermediate CA) is outside C06's quantifier;
	// see DESIGN.md "things deliberately not done". Always 0.
	if p.SrvCertSrc == 2 {
		p.OuterCfg = c.Weighted([]int{1, 2, 2}, simkit.LScen)
	}
	p.BigChain = c.Bool(1, 8, simkit.LScen)
	if p.BigChain && c.Bool(1, 2, simkit.LScen) {
		p.BigSize = 40000
	}
	p.Reneg = c.Weighted([]int{4, 1, 1}, simkit.LScen)
	if p.VHost && p.SMode == modeTLS && p.SrvCertSrc == 0 {
		p.VHostCB = c.Bool(1, 2, simkit.LScen)
	}
	if p.VHost {
		p.SNICase = c.Weighted([]int{2, 1, 1}, simkit.LScen)
	}
	if p.CGM && p.ClientCert == 1 && p.CliCertSrc == 0 && p.Peer != peerStdClient {
		p.MultiCert = c.Bool(1, 3, simkit.LScen)
	}
	return p
}

var errCallback = errors.New("verifsim: injected callback error")

func (p *benignParams) secondName() string {
	return []string{"server2.sim", "Server2.Sim", "SERVER2.SIM"}[p.SNICase]
}

func tlsSrvCertName(k int) string { return []string{"tlsrsa", "tlsp256", "tlsp384", "tlsp521"}[k] }
func tlsCliCertName(k int) string { return []string{"tlsclirsa", "tlsclip384", "tlsclip521"}[k] }

// bigExtras returns unrelated certificates of one family (SM2 or RSA/ECDSA),
// repeated until they add up to more than one record's worth of bytes: a chain
// carrying them makes the Certificate message span two records. They are
// harmless to verification (extra candidates for intermediates).
func bigExtras(gm bool, target ...int) [][]byte {
	want := 17500
	if len(target) > 0 && target[0] > 0 {
		want = target[0]
	}
	names := []string{"rsaInt", "tlsrsa2", "tlsclirsa", "tlswild", "tlscliint", "tlsclienc", "forgedrsa-srv"}
	if gm {
		names = []string{"caAint", "srv2-sign", "srv2-enc", "cliB", "srvB-sign", "srvwild-sign", "cliint", "srvother-sign"}
	}
	var out [][]byte
	total := 0
	for i := 0; total < want; i++ {
		d := pki.DER(names[i%len(names)])
		out = append(out, d)
		total += len(d) + 3
	}
	return out
}

const (
	vComplete    = 1
	vFail        = 2
	vUnspecified = 0
)

func effVers(v, def uint16) uint16 {
	if v == 0 {
		return def
	}
	return v
}

func contains(l []uint16, x uint16) bool {
	for _, v := range l {
		if v == x {
			return true
		}
	}
	return false
}

// presented: does the client, per RFC 5246 §7.4.4, present its certificate?
func (p *benignParams) presented() bool {
	if p.ClientCert == 0 {
		return false
	}
	if p.ClientAuth == gmtls.NoClientCert {
		return false
	}
	if p.CliCertSrc == 1 {
		return true // callback decides itself; ours always returns the certificate
	}
	if p.ClientCert == 2 && p.SrvClientCAs {
		return false // issuer not among the acceptable CAs
	}
	return true
}

// model is the policy model of DESIGN.md Appendix A. It returns the verdict,
// the rule that decided and (for vComplete) the expected version and suite
// (0 = not predicted).
func (p *benignParams) model() (verdict int, rule string, vers uint16, suite uint16) {
	// A1
	if p.CGM && p.SMode == modeTLS {
		return vFail, "A1-proto-mismatch", 0, 0
	}
	if !p.CGM && p.SMode == modeGM {
		return vFail, "A1-proto-mismatch", 0, 0
	}
	stdSrv := p.Peer == peerStdServer
	if p.CGM {
		vers = gmtls.VersionGMSSL
		// ids of the TLS family in a list can never be negotiated in a GMSSL handshake
		cl, sl := gmOnly(p.CSuites), gmOnly(p.SSuites)
		if (cl != nil && len(cl) == 0) || (sl != nil && len(sl) == 0) {
			return vFail, "A3-no-suite", 0, 0
		}
		if cl == nil || sl == nil {
			// A default list (nil): its content and order are documented only by the
			// code. Assumption at documentation level: the default offers both
			// implemented ECC suites. Hence: both default, or the explicit list holds
			// an (unimplemented) ECDHE suite -> nothing predicted; explicit list of
			// ECC suites only -> must complete, and the suite is predicted only when
			// the explicit list is the preference list.
			expl := cl
			explIsPref := !p.PreferServer
			if cl == nil {
				expl = sl
				explIsPref = p.PreferServer
			}
			if expl == nil {
				return vUnspecified, "", vers, 0
			}
			for _, id := range expl {
				if id != gmtls.GMTLS_ECC_SM4_CBC_SM3 && id != gmtls.GMTLS_ECC_SM4_GCM_SM3 {
					return vUnspecified, "", vers, 0
				}
			}
			if explIsPref {
				suite = expl[0]
			}
		} else {
			pref, other := cl, sl
			if p.PreferServer {
				pref, other = sl, cl
			}
			for _, id := range pref {
				if contains(other, id) {
					suite = id
					break
				}
			}
			if suite == 0 {
				return vFail, "A3-no-suite", 0, 0
			}
			if suite == gmtls.GMTLS_ECDHE_SM4_CBC_SM3 || suite == gmtls.GMTLS_ECDHE_SM4_GCM_SM3 {
				return vFail, "A4-ecdhe-gm", 0, 0
			}
		}
	} else {
		cmin, cmax := effVers(p.CMin, gmtls.VersionTLS10), effVers(p.CMax, gmtls.VersionTLS12)
		smin, smax := effVers(p.SMin, gmtls.VersionTLS10), effVers(p.SMax, gmtls.VersionTLS12)
		if cmin > cmax || smin > smax {
			return vUnspecified, "", 0, 0
		}
		v := cmax
		if smax < v {
			v = smax
		}
		if v < cmin || v < smin {
			return vFail, "A2-version", 0, 0
		}
		vers = v
		cl, sl := p.CSuites, p.SSuites
		// the stdlib end always gets an explicit list (stdSuites): the whole table when none was drawn
		if stdSrv {
			sl = stdSuites(sl)
		}
		if p.Peer == peerStdClient {
			cl = stdSuites(cl)
		}
		if cl == nil || sl == nil {
			// a default list of gmtls: its content is documented only by the code, so
			// neither the suite nor whether a common usable suite exists is predicted
			return vUnspecified, "", vers, 0
		}
		pref, other := cl, sl
		if p.PreferServer {
			pref, other = sl, cl
		}
		for _, id := range pref {
			si := tlsSuite(id)
			if si == nil || !contains(other, id) {
				continue
			}
			if si.tls12 && vers < gmtls.VersionTLS12 {
				continue
			}
			if si.ecdsa != (p.SrvKey >= 1) {
				continue
			}
			suite = id
			break
		}
		if suite == 0 {
			return vFail, "A3-no-suite", 0, 0
		}
		if stdSrv || p.Peer == peerStdClient {
			suite = 0 // existence of a usable common suite is predicted, the stdlib's own preference order is not
		}
	}
	// A5 GMSSL server without an encryption certificate
	if p.SrvMissing || (p.SrvCertSrc == 4 && !stdSrv) {
		return vFail, "A5-missing-certs", 0, 0
	}
	// A8 callback errors
	if p.CallbackErr == 1 && p.SrvCertSrc != 0 {
		return vFail, "A8-callback-error", 0, 0
	}
	if p.CallbackErr == 2 && p.CliCertSrc == 1 && p.ClientAuth != gmtls.NoClientCert {
		return vFail, "A8-callback-error", 0, 0
	}
	// A6 server verification by the client
	if p.CVerify == 1 || p.CVerify == 2 {
		return vFail, "A6-server-verify", 0, 0
	}
	// A7 client authentication
	pres := p.presented()
	switch p.ClientAuth {
	case gmtls.RequireAnyClientCert:
		if !pres {
			return vFail, "A7-client-auth", 0, 0
		}
	case gmtls.RequireAndVerifyClientCert:
		if !pres || p.ClientCert == 2 || !p.SrvClientCAs {
			return vFail, "A7-client-auth", 0, 0
		}
	case gmtls.VerifyClientCertIfGiven:
		if pres && (p.ClientCert == 2 || !p.SrvClientCAs) {
			return vFail, "A7-client-auth", 0, 0
		}
	}
	return vComplete, "A9-complete", vers, suite
}

// gmOnly keeps the GMSSL suite ids of a list (nil stays nil: default list).
func gmOnly(l []uint16) []uint16 {
	if l == nil {
		return nil
	}
	out := []uint16{}
	for _, id := range l {
		if contains(gmAllSuites, id) {
			out = append(out, id)
		}
	}
	return out
}

func (p *benignParams) String() string {
	return fmt.Sprintf("alpn=%v/%v curves=%v smode=%d cgm=%v peer=%d csuites=%x ssuites=%x prefsrv=%v cver=[%x,%x] sver=[%x,%x] auth=%d ccert=%d cas=%v ssrc=%d csrc=%d tick=%v dyn=%v skey=%d cberr=%d cverify=%d chain=%d missing=%v vhost=%v",
		p.CProtos, p.SProtos, p.Curves, p.SMode, p.CGM, p.Peer, p.CSuites, p.SSuites, p.PreferServer, p.CMin, p.CMax, p.SMin, p.SMax, p.ClientAuth, p.ClientCert, p.SrvClientCAs, p.SrvCertSrc, p.CliCertSrc, p.Tickets, p.DynOff, p.SrvKey, p.CallbackErr, p.CVerify, p.SrvChain, p.SrvMissing, p.VHost) + fmt.Sprintf(" outer=%d bigchain=%v reneg=%d multicert=%v clikey=%d bigsize=%d vhostcb=%v snicase=%d", p.OuterCfg, p.BigChain, p.Reneg, p.MultiCert, p.CliKey, p.BigSize, p.VHostCB, p.SNICase)
}

// serverConfig builds the gmtls server configuration.
func (p *benignParams) serverConfig(s *simkit.Sim, ent *simkit.Stream, res *endRes) *gmtls.Config {
	cfg := &gmtls.Config{Rand: ent, Time: simTime(s, 0), KeyLogWriter: &res.KeyLog}
	signN, encN := "srv-sign", "srv-enc"
	var chain []string
	if p.SrvChain == 1 {
		signN, encN = "srvint-sign", "srvint-enc"
		chain = []string{"caAint"}
	}
	sign, enc := pki.GM(signN, chain...), pki.GM(encN, chain...)
	var std gmtls.Certificate
	std = pki.GMStd(tlsSrvCertName(p.SrvKey))
	sign2, enc2, std2 := pki.GM("srv2-sign"), pki.GM("srv2-enc"), pki.GMStd("tlsrsa2")
	if p.BigChain {
		std.Certificate = append(std.Certificate, bigExtras(false, p.BigSize)...)
		std2.Certificate = append(std2.Certificate, bigExtras(false, p.BigSize)...)
	}
	fill := func(c *gmtls.Config) {
		switch p.SMode {
		case modeGM:
			c.GMSupport = gmtls.NewGMSupport()
		case modeAuto:
			c.GMSupport = gmtls.NewGMSupport()
			c.GMSupport.EnableMixMode()
		}
		c.CipherSuites = p.SSuites
		c.PreferServerCipherSuites = p.PreferServer
		c.MinVersion, c.MaxVersion = p.SMin, p.SMax
		c.ClientAuth = p.ClientAuth
		if p.SrvClientCAs {
			if p.CGM {
				c.ClientCAs = pki.Pool("caA")
			} else {
				c.ClientCAs = pki.Pool("rsaCA")
			}
		}
		c.SessionTicketsDisabled = !p.Tickets
		c.DynamicRecordSizingDisabled = p.DynOff
		for _, id := range p.Curves {
			c.CurvePreferences = append(c.CurvePreferences, gmtls.CurveID(id))
		}
		c.NextProtos = p.SProtos
	}
	certs := func(c *gmtls.Config) {
		switch p.SMode {
		case modeGM:
			c.Certificates = []gmtls.Certificate{sign, enc}
		case modeAuto:
			// static: sign+enc first (GM), std certificate selected by callback is the
			// documented auto-switch arrangement; static-only auto switch uses the list.
			c.Certificates = []gmtls.Certificate{sign, enc, std}
		case modeTLS:
			c.Certificates = []gmtls.Certificate{std}
			if p.VHost && p.VHostCB {
				// a static default certificate plus a per-name callback: "GetCertificate ...
				// will only be called if the client supplies SNI information or if
				// Certificates is empty" - the client does supply the second name
				c.GetCertificate = func(h *gmtls.ClientHelloInfo) (*gmtls.Certificate, error) {
					res.SeenSNI = append(res.SeenSNI, h.ServerName)
					if strings.EqualFold(h.ServerName, "server2.sim") {
						return &std2, nil
					}
					return nil, nil
				}
			} else if p.VHost {
				c.Certificates = []gmtls.Certificate{std, std2}
				c.BuildNameToCertificate()
			}
		}
	}
	callbacks := func(c *gmtls.Config) {
		c.GetCertificate = func(h *gmtls.ClientHelloInfo) (*gmtls.Certificate, error) {
			if p.CallbackErr == 1 {
				return nil, errCallback
			}
			res.SeenSNI = append(res.SeenSNI, h.ServerName)
			second := p.VHost && strings.EqualFold(h.ServerName, "server2.sim")
			for _, v := range h.SupportedVersions {
				if v == gmtls.VersionGMSSL {
					if second {
						return &sign2, nil
					}
					return &sign, nil
				}
			}
			if second {
				return &std2, nil
			}
			return &std, nil
		}
		c.GetKECertificate = func(h *gmtls.ClientHelloInfo) (*gmtls.Certificate, error) {
			if p.CallbackErr == 1 {
				return nil, errCallback
			}
			res.SeenSNI = append(res.SeenSNI, h.ServerName)
			if p.VHost && strings.EqualFold(h.ServerName, "server2.sim") {
				return &enc2, nil
			}
			return &enc, nil
		}
	}
	fill(cfg)
	switch p.SrvCertSrc {
	case 3, 4:
		// the callbacks decline: "If GetCertificate is nil or returns nil, then the
		// certificate is retrieved from NameToCertificate and finally Certificates"
		if p.SrvCertSrc == 3 {
			certs(cfg)
		}
		cfg.GetCertificate = func(h *gmtls.ClientHelloInfo) (*gmtls.Certificate, error) {
			res.SeenSNI = append(res.SeenSNI, h.ServerName)
			return nil, nil
		}
		cfg.GetKECertificate = func(h *gmtls.ClientHelloInfo) (*gmtls.Certificate, error) {
			res.SeenSNI = append(res.SeenSNI, h.ServerName)
			return nil, nil
		}
	case 0:
		certs(cfg)
		if p.SMode == modeAuto {
			// auto-switch with a static list needs a way to pick the standard
			// certificate for TLS clients: the documented way is GetCertificate.
			st := std
			sg := sign
			cfg.Certificates = []gmtls.Certificate{sign, enc}
			cfg.GetCertificate = func(h *gmtls.ClientHelloInfo) (*gmtls.Certificate, error) {
				for _, v := range h.SupportedVersions {
					if v == gmtls.VersionGMSSL {
						return &sg, nil
					}
				}
				return &st, nil
			}
			if !p.CGM {
				// TLS client against auto-switch: the static list's first entry would be the SM2 one
				cfg.Certificates = nil
				en := enc
				cfg.GetKECertificate = func(h *gmtls.ClientHelloInfo) (*gmtls.Certificate, error) { return &en, nil }
			}
		}
	case 1:
		callbacks(cfg)
	case 2:
		inner := &gmtls.Config{Rand: ent, Time: simTime(s, 0), KeyLogWriter: &res.KeyLog}
		fill(inner)
		if p.SMode == modeAuto || (p.VHost && p.SMode == modeGM) {
			callbacks(inner)
		} else {
			certs(inner)
		}
		// outer config carries only what is needed to read the ClientHello
		cfg.GetConfigForClient = func(h *gmtls.ClientHelloInfo) (*gmtls.Config, error) {
			if p.CallbackErr == 1 {
				return nil, errCallback
			}
			res.SeenSNI = append(res.SeenSNI, h.ServerName)
			return inner, nil
		}
		if p.SMode == modeAuto {
			callbacks(cfg)
		} else {
			certs(cfg)
		}
		// "GetConfigForClient ... may return a non-nil Config in order to change the
		// Config that will be used to handle this connection": the policy in force is
		// the returned one. The listener configuration's own policy fields are decoys.
		switch p.OuterCfg {
		case 1:
			cfg.MinVersion, cfg.MaxVersion = 0, 0
			cfg.CipherSuites = nil
			cfg.PreferServerCipherSuites = !p.PreferServer
			cfg.ClientAuth, cfg.ClientCAs = gmtls.NoClientCert, nil
			cfg.NextProtos, cfg.CurvePreferences = nil, nil
		case 2:
			if p.SMode == modeTLS {
				cfg.MinVersion, cfg.MaxVersion = gmtls.VersionTLS10, gmtls.VersionTLS10
			} else {
				cfg.MinVersion, cfg.MaxVersion = gmtls.VersionTLS12, gmtls.VersionTLS12
			}
			cfg.CipherSuites = []uint16{gmtls.TLS_RSA_WITH_3DES_EDE_CBC_SHA}
			cfg.PreferServerCipherSuites = !p.PreferServer
			cfg.ClientAuth, cfg.ClientCAs = gmtls.RequireAndVerifyClientCert, pki.Pool("caB")
			cfg.NextProtos = []string{"decoy/1"}
			cfg.CurvePreferences = []gmtls.CurveID{gmtls.CurveP521}
		}
	}
	if p.SrvMissing {
		cfg.Certificates = []gmtls.Certificate{sign}
		cfg.GetCertificate, cfg.GetKECertificate, cfg.GetConfigForClient = nil, nil, nil
	}
	return cfg
}

func (p *benignParams) clientConfig(s *simkit.Sim, ent *simkit.Stream, res *endRes) *gmtls.Config {
	cfg := &gmtls.Config{Rand: ent, Time: simTime(s, 0), KeyLogWriter: &res.KeyLog, ServerName: "server.sim"}
	if p.CGM {
		cfg.GMSupport = gmtls.NewGMSupport()
		cfg.RootCAs = pki.Pool("caA")
	} else {
		cfg.RootCAs = pki.Pool("rsaCA")
	}
	if p.VHost {
		cfg.ServerName = p.secondName()
	}
	switch p.CVerify {
	case 1:
		cfg.ServerName = "other.sim"
	case 2:
		cfg.RootCAs = pki.Pool("caB")
	case 3:
		cfg.InsecureSkipVerify = true
	}
	cfg.CipherSuites = p.CSuites
	cfg.NextProtos = p.CProtos
	cfg.MinVersion, cfg.MaxVersion = p.CMin, p.CMax
	cfg.Renegotiation = gmtls.RenegotiationSupport(p.Reneg)
	cfg.DynamicRecordSizingDisabled = p.DynOff
	for _, id := range p.Curves {
		cfg.CurvePreferences = append(cfg.CurvePreferences, gmtls.CurveID(id))
	}
	if p.Tickets {
		cfg.ClientSessionCache = gmtls.NewLRUClientSessionCache(4)
	}
	var cc *gmtls.Certificate
	switch {
	case p.ClientCert == 1 && p.CGM:
		x := pki.GM("cli")
		cc = &x
	case p.ClientCert == 2 && p.CGM:
		x := pki.GM("cliB")
		cc = &x
	case p.ClientCert == 3 && p.CGM:
		x := pki.GM("cliint", "caAint")
		cc = &x
	case p.ClientCert == 3:
		x := pki.GMStd("tlscliint", "rsaInt")
		cc = &x
	case p.ClientCert == 1:
		x := pki.GMStd(tlsCliCertName(p.CliKey))
		cc = &x
	case p.ClientCert == 2:
		x := pki.GMStd("tlsrsa") // a certificate without clientAuth usage from the same CA is still "rooted"; use an SM2-CA one instead
		x = pki.GMStd("srvrsa")
		cc = &x
	}
	if cc != nil && p.BigChain && p.ClientCert != 2 {
		// (not for the untrusted certificate: the extras are issued by the trusted CA and
		// would make the chain match the server's acceptable-CA list)
		cc.Certificate = append(cc.Certificate, bigExtras(p.CGM, p.BigSize)...)
	}
	if cc != nil && p.ClientLeaf {
		cc.Leaf = pki.Cert(map[bool]map[int]string{true: {1: "cli", 2: "cliB", 3: "cliint"}, false: {1: tlsCliCertName(p.CliKey), 2: "srvrsa", 3: "tlscliint"}}[p.CGM][p.ClientCert])
	}
	if cc != nil {
		if p.CliCertSrc == 1 {
			cfg.GetClientCertificate = func(*gmtls.CertificateRequestInfo) (*gmtls.Certificate, error) {
				if p.CallbackErr == 2 {
					return nil, errCallback
				}
				return cc, nil
			}
		} else {
			cfg.Certificates = []gmtls.Certificate{*cc}
			if p.MultiCert {
				cfg.Certificates = []gmtls.Certificate{pki.GMStd("tlsclirsa"), *cc}
			}
		}
	} else if p.CliCertSrc == 1 {
		cfg.GetClientCertificate = func(*gmtls.CertificateRequestInfo) (*gmtls.Certificate, error) {
			if p.CallbackErr == 2 {
				return nil, errCallback
			}
			return &gmtls.Certificate{}, nil
		}
	}
	return cfg
}

func stdSuites(l []uint16) []uint16 {
	if l != nil {
		return l
	}
	var out []uint16
	for _, s := range tlsSuiteTab {
		out = append(out, s.id)
	}
	return out
}

type stdEnd struct {
	HsErr   error
	State   tls.ConnectionState
	Done    bool
	Read    []byte
	ReadErr error
	WErr    error
	EKM     [3][]byte
}

func runTLSBenign(c *simkit.Choice, r *simkit.Rec) {
	pki.Load()
	p := drawBenignParams(c)
	nC2S, nS2C := drawPayloadLen(c), drawPayloadLen(c)
	planC, planS := drawPlan(c, nC2S), drawPlan(c, nS2C)
	netAB, netBA := simkit.DrawNetCfg(c), simkit.DrawNetCfg(c)
	netAB.Capture, netBA.Capture = true, true
	pol := simkit.Policy{StarveNode: -1}
	switch c.Weighted([]int{3, 2, 2, 1}, simkit.LScen) {
	case 1:
		pol.MeanGap = 3
	case 2:
		pol.MeanGap = 40
	case 3:
		pol.StarveNode = c.Choose(2, simkit.LScen)
		pol.MeanGap = 10
	}
	window := 0
	if p.Peer == peerGmtls && c.Bool(1, 4, simkit.LScen) {
		window = []int{65536, 4096, 256}[c.Choose(3, simkit.LScen)]
		netAB.Window, netBA.Window = window, window
	}
	if p.Peer == peerGmtls && c.Bool(1, 6, simkit.LScen) {
		d := []int64{1e6, 30e6, 1e9}[c.Choose(3, simkit.LScen)]
		planC.Deadline, planS.Deadline = d, d
	}
	entC := simkit.NewStream(uint64(c.Choose(1<<31, simkit.LEntropy)) + 11)
	entS := simkit.NewStream(uint64(c.Choose(1<<31, simkit.LEntropy)) + 77)
	// Config.Rand is an io.Reader: it may return fewer bytes than asked for
	if c.Bool(1, 4, simkit.LScen) {
		entC.Short, entS.Short = true, true
		r.Fault(idx(benignFaults, "short-reads-from-rand"))
	}

	// history independence: what two endpoints with default settings negotiate must
	// not depend on which sessions this process has served before. The same default
	// pair handshakes before and after the session under test (gmtls ends only).
	probe := p.Peer == peerGmtls && c.Bool(1, 3, simkit.LScen)
	probeBefore := ""
	if probe {
		probeBefore = defaultPairProbe(c)
	}
	s := simkit.NewSim(c, pol, 4000000)
	a, b := s.NewConnPair("cli", "srv", netAB, netBA)
	var cr, sr endRes
	var stdC, stdS stdEnd

	verdict, rule, wantVers, wantSuite := p.model()
	r.Config = fmt.Sprintf("smode%d/cgm%v/peer%d/auth%d/ssrc%d", p.SMode, p.CGM, p.Peer, p.ClientAuth, p.SrvCertSrc)
	r.SigStr(p.String())
	r.Sig(uint64(netAB.SegPol)<<8 | uint64(netBA.SegPol) | uint64(window)<<16)

	// --- client task
	switch p.Peer {
	case peerStdClient:
		s.Spawn("cli", 0, func() { stdClientRun(&p, a, entC, &planC, &stdC) })
	default:
		s.Spawn("cli", 0, func() {
			conn := gmtls.Client(a, p.clientConfig(s, entC, &cr))
			cr.HsErr = conn.Handshake()
			collectState(conn, &cr)
			if cr.HsErr != nil {
				a.Close()
				cr.Finished = true
				return
			}
			appRun(s, 0, "cli", conn, a, &planC, &cr)
			cr.Finished = true
		})
	}
	// --- server task
	switch p.Peer {
	case peerStdServer:
		s.Spawn("srv", 1, func() { stdServerRun(&p, b, entS, &planS, &stdS) })
	default:
		s.Spawn("srv", 1, func() {
			conn := gmtls.Server(b, p.serverConfig(s, entS, &sr))
			sr.HsErr = conn.Handshake()
			collectState(conn, &sr)
			if sr.HsErr != nil {
				b.Close()
				sr.Finished = true
				return
			}
			appRun(s, 1, "srv", conn, b, &planS, &sr)
			sr.Finished = true
		})
	}
	s.Run()
	r.FromSim(s)
	r.Nontrivial = true
	if probe {
		r.Reach(idx(benignReach, "default-pair-probed-before-and-after"))
		if after := defaultPairProbe(c); after != probeBefore {
			r.Violate("history-dependent", "default-configurations", fmt.Sprintf("two endpoints with default settings negotiated %s before this session and %s after it [%s]", probeBefore, after, p.String()))
			return
		}
	}

	// environment behaviour that actually happened
	countNet := func(n simkit.NetCfg, pp *simkit.Pipe) {
		switch n.SegPol {
		case simkit.SegMSS:
			r.Fault(idx(benignFaults, "resegment"))
		case simkit.SegDribble, simkit.SegByte:
			r.Fault(idx(benignFaults, "dribble"))
		case simkit.SegRandom:
			r.Fault(idx(benignFaults, "random-cuts"))
		}
		if n.Latency > 0 {
			r.Fault(idx(benignFaults, "latency"))
		}
		if n.Jitter > 0 {
			r.Fault(idx(benignFaults, "jitter"))
		}
		if n.ShortRd > 0 {
			r.Fault(idx(benignFaults, "short-read"))
		}
	}
	countNet(netAB, a.WrPipe())
	countNet(netBA, b.WrPipe())
	if window > 0 {
		r.Fault(idx(benignFaults, "finite-window"))
	}
	if pol.StarveNode >= 0 {
		r.Fault(idx(benignFaults, "starved-node"))
	}
	if s.Preempts > 0 {
		r.FaultN(idx(benignFaults, "preempt"), int(s.Preempts))
	}
	if cr.Timeouts+sr.Timeouts > 0 {
		r.FaultN(idx(benignFaults, "deadline-retry"), cr.Timeouts+sr.Timeouts)
		r.Reach(idx(benignReach, "timeout-retried"))
	}

	r.Detail = map[string]interface{}{"params": p.String(), "payload_c2s": nC2S, "payload_s2c": nS2C, "model": rule,
		"net_c2s": fmt.Sprintf("%+v", netAB), "net_s2c": fmt.Sprintf("%+v", netBA), "policy": fmt.Sprintf("%+v", pol),
		"client_err": errStr(cr.HsErr), "server_err": errStr(sr.HsErr), "steps": s.Steps, "switches": s.Switches, "sim_ns": s.Now}

	// ---- oracles
	s.TaskPanics(r)
	if r.Violation() != nil || r.HarnessErr != "" {
		return
	}
	site := fmt.Sprintf("smode%d/cgm%v/peer%d", p.SMode, p.CGM, p.Peer)
	if s.Reason == simkit.StopBudget {
		r.Violate("no-progress", site, fmt.Sprintf("step budget exhausted in a fault-free run (%d steps); blocked: %v", s.Steps, s.Blocked))
		return
	}
	if s.Reason == simkit.StopDeadlock {
		r.Violate("deadlock", site, fmt.Sprintf("fault-free run deadlocked; blocked: %v; client hs err=%v server hs err=%v", s.Blocked, cr.HsErr, sr.HsErr))
		return
	}

	// normalise the two ends
	type endView struct {
		err    error
		done   bool
		vers   uint16
		suite  uint16
		resume bool
		proto  string
		peer   [][]byte
		ekm    [3][]byte
		read   []byte
		rerr   error
		werr   error
	}
	var cv, sv endView
	rawCerts := func(st gmtls.ConnectionState) [][]byte {
		var o [][]byte
		for _, x := range st.PeerCertificates {
			o = append(o, x.Raw)
		}
		return o
	}
	if p.Peer == peerStdClient {
		cv = endView{err: stdC.HsErr, done: stdC.Done, vers: stdC.State.Version, suite: stdC.State.CipherSuite, resume: stdC.State.DidResume, proto: stdC.State.NegotiatedProtocol, ekm: stdC.EKM, read: stdC.Read, rerr: stdC.ReadErr, werr: stdC.WErr}
		for _, x := range stdC.State.PeerCertificates {
			cv.peer = append(cv.peer, x.Raw)
		}
	} else {
		cv = endView{err: cr.HsErr, done: cr.HsDone, vers: cr.State.Version, suite: cr.State.CipherSuite, resume: cr.State.DidResume, proto: cr.State.NegotiatedProtocol, peer: rawCerts(cr.State), ekm: cr.EKM, read: cr.Read, rerr: cr.ReadErr, werr: cr.WriteErr}
	}
	if p.Peer == peerStdServer {
		sv = endView{err: stdS.HsErr, done: stdS.Done, vers: stdS.State.Version, suite: stdS.State.CipherSuite, resume: stdS.State.DidResume, proto: stdS.State.NegotiatedProtocol, ekm: stdS.EKM, read: stdS.Read, rerr: stdS.ReadErr, werr: stdS.WErr}
		for _, x := range stdS.State.PeerCertificates {
			sv.peer = append(sv.peer, x.Raw)
		}
	} else {
		sv = endView{err: sr.HsErr, done: sr.HsDone, vers: sr.State.Version, suite: sr.State.CipherSuite, resume: sr.State.DidResume, proto: sr.State.NegotiatedProtocol, peer: rawCerts(sr.State), ekm: sr.EKM, read: sr.Read, rerr: sr.ReadErr, werr: sr.WriteErr}
	}

	// both fail or both complete
	if (cv.err == nil) != (sv.err == nil) {
		// one side completed, the other failed: legal only if the completed side
		// then sees the failure when it tries to talk (e.g. client finished first
		// and the server rejects the client certificate afterwards). The property
		// asks for "fail on both sides": the completing side must at least observe
		// an error on its stream instead of clean data.
		comp, fail := cv, sv
		who := "client"
		if cv.err != nil {
			comp, fail = sv, cv
			who = "server"
		}
		if comp.rerr == nil && len(comp.read) == 0 && verdict != vComplete {
			// completed side read a clean EOF without data: the peer failed and
			// closed. Acceptable only for the side that legitimately finishes first.
			_ = fail
		}
		if verdict == vComplete {
			r.Violate("should-complete", site+"/"+rule, fmt.Sprintf("model says complete but %s completed and the other failed: client=%v server=%v [%s]", who, cv.err, sv.err, p.String()))
			return
		}
	}
	switch verdict {
	case vFail:
		r.Reach(idx(benignReach, rule))
		if cv.err == nil && sv.err == nil {
			r.Violate("should-fail", site+"/"+rule, fmt.Sprintf("policy forbids this combination (%s) but both sides completed [%s]", rule, p.String()))
			return
		}
		if cv.err == nil || sv.err == nil {
			// one side thinks the handshake completed: it must not have received
			// application data and must have seen an error or EOF
			comp := cv
			if cv.err != nil {
				comp = sv
			}
			if len(comp.read) > 0 {
				r.Violate("should-fail", site+"/"+rule, fmt.Sprintf("policy forbids this combination (%s) but one side completed and received %d bytes of application data [%s]", rule, len(comp.read), p.String()))
				return
			}
		}
		r.Outcome = "failed-as-model:" + rule
		return
	case vComplete:
		r.Reach(idx(benignReach, rule))
		if cv.err != nil || sv.err != nil {
			r.Violate("should-complete", site+"/"+rule, fmt.Sprintf("correctly configured combination failed: client=%v server=%v [%s]", cv.err, sv.err, p.String()))
			return
		}
	case vUnspecified:
		if cv.err != nil || sv.err != nil {
			r.Outcome = "failed-unspecified"
			return
		}
	}
	// ---- both completed: agreement
	if !cv.done || !sv.done {
		r.Violate("state", site, "Handshake returned nil but HandshakeComplete is false")
		return
	}
	if cv.vers != sv.vers || cv.suite != sv.suite || cv.resume != sv.resume {
		r.Violate("disagree", site, fmt.Sprintf("client (vers %x suite %x resume %v) != server (vers %x suite %x resume %v) [%s]", cv.vers, cv.suite, cv.resume, sv.vers, sv.suite, sv.resume, p.String()))
		return
	}
	if wantVers != 0 && cv.vers != wantVers {
		r.Violate("wrong-version", site, fmt.Sprintf("negotiated %x, model expects %x [%s]", cv.vers, wantVers, p.String()))
		return
	}
	if wantSuite != 0 && cv.suite != wantSuite {
		r.Violate("wrong-suite", site, fmt.Sprintf("negotiated %x, preference order selects %x [%s]", cv.suite, wantSuite, p.String()))
		return
	}
	// application protocol: both ends report the same one; with a common entry it
	// is the server's first choice among what the client offered (RFC 7301 3.2)
	if cv.proto != sv.proto {
		r.Violate("disagree", site, fmt.Sprintf("NegotiatedProtocol: client %q, server %q [%s]", cv.proto, sv.proto, p.String()))
		return
	}
	wantProto := ""
	for _, sp := range p.SProtos {
		for _, cp := range p.CProtos {
			if sp == cp && wantProto == "" {
				wantProto = sp
			}
		}
	}
	if p.CGM {
		// (GM/T 0024 has no application-protocol negotiation; gmtls' GMSSL hello does
		// not carry the extension: agreement only)
	} else if len(p.CProtos) > 0 && len(p.SProtos) > 0 {
		if cv.proto != wantProto {
			r.Violate("wrong-protocol", site, fmt.Sprintf("NegotiatedProtocol %q, the server's first choice among the client's offer is %q [%s]", cv.proto, wantProto, p.String()))
			return
		}
		r.Reach(idx(benignReach, "alpn-negotiated"))
	} else if cv.proto != "" && len(p.SProtos) == 0 {
		r.Violate("wrong-protocol", site, fmt.Sprintf("NegotiatedProtocol %q although the server has no protocols configured [%s]", cv.proto, p.String()))
		return
	}
	// the server sees the name the client asked for
	if p.Peer != peerStdServer {
		wantName := "server.sim"
		if p.VHost {
			wantName = p.secondName()
		}
		if p.CVerify == 1 {
			wantName = "other.sim"
		}
		if sr.State.ServerName != wantName {
			r.Violate("server-name", site, fmt.Sprintf("server's ConnectionState.ServerName is %q, the client asked for %q [%s]", sr.State.ServerName, wantName, p.String()))
			return
		}
	}
	// verified chains are reported where verification took place
	if p.Peer != peerStdClient && p.CVerify == 0 && len(cr.State.VerifiedChains) == 0 {
		r.Violate("peer-certs", site, "client verified the server but reports no VerifiedChains ["+p.String()+"]")
		return
	}
	for i := range ekmArgs {
		if p.Reneg != 0 && p.Peer != peerStdClient {
			// documented: "if the application enables renegotiation via
			// Config.Renegotiation, this function will return an error"
			if len(cv.ekm[i]) != 0 {
				r.Violate("ekm-mismatch", site, "client with renegotiation enabled exported keying material")
				return
			}
			if len(sv.ekm[i]) != ekmArgs[i].n {
				r.Violate("ekm-mismatch", site, "server exported no keying material")
				return
			}
			continue
		}
		if !bytes.Equal(cv.ekm[i], sv.ekm[i]) || len(cv.ekm[i]) != ekmArgs[i].n {
			r.Violate("ekm-mismatch", site, fmt.Sprintf("ExportKeyingMaterial(%q) differs: client %x server %x", ekmArgs[i].label, cv.ekm[i], sv.ekm[i]))
			return
		}
	}
	// peer certificates
	if p.CGM {
		signN, encN := "srv-sign", "srv-enc"
		if p.SrvChain == 1 {
			signN, encN = "srvint-sign", "srvint-enc"
		}
		if p.VHost {
			signN, encN = "srv2-sign", "srv2-enc"
		}
		if len(cv.peer) < 2 || !bytes.Equal(cv.peer[0], pki.DER(signN)) || !bytes.Equal(cv.peer[1], pki.DER(encN)) {
			r.Violate("peer-certs", site, fmt.Sprintf("client's PeerCertificates (%d) are not the server's signing and encryption certificates", len(cv.peer)))
			return
		}
	} else {
		want := tlsSrvCertName(p.SrvKey)
		if p.VHost {
			want = "tlsrsa2"
		}
		if len(cv.peer) < 1 || !bytes.Equal(cv.peer[0], pki.DER(want)) {
			r.Violate("peer-certs", site, "client's PeerCertificates[0] is not the server's certificate")
			return
		}
	}
	if verdict == vComplete {
		pres := p.presented()
		if pres != (len(sv.peer) > 0) {
			r.Violate("peer-certs", site+"/client-cert", fmt.Sprintf("client certificate presented=%v but server sees %d peer certificates [%s]", pres, len(sv.peer), p.String()))
			return
		}
		if p.BigChain && ((pres && p.ClientCert != 2) || !p.CGM) {
			r.Reach(idx(benignReach, "certificate-message-over-one-record"))
		}
		if pres {
			r.Reach(idx(benignReach, "client-cert-sent"))
			want := map[bool]map[int]string{true: {1: "cli", 2: "cliB", 3: "cliint"}, false: {1: tlsCliCertName(p.CliKey), 2: "srvrsa", 3: "tlscliint"}}[p.CGM][p.ClientCert]
			if !bytes.Equal(sv.peer[0], pki.DER(want)) {
				r.Violate("peer-certs", site+"/client-cert", "server's PeerCertificates[0] is not the client's certificate")
				return
			}
		}
	}
	for _, n := range sr.SeenSNI {
		want := "server.sim"
		if p.VHost {
			want = p.secondName()
		}
		if n != want && p.Peer != peerStdServer {
			r.Violate("callback-sni", site, fmt.Sprintf("a certificate/config callback saw ServerName %q, the client sent %q [%s]", n, want, p.String()))
			return
		}
	}
	if p.VHost {
		r.Reach(idx(benignReach, "vhost-second-name"))
	}
	// ---- data
	if cv.werr != nil || sv.werr != nil {
		r.Violate("write-error", site, fmt.Sprintf("write failed on an established benign connection: client=%v server=%v", cv.werr, sv.werr))
		return
	}
	if cv.rerr != nil || sv.rerr != nil {
		r.Violate("read-error", site, fmt.Sprintf("read failed on an established benign connection: client=%v server=%v", cv.rerr, sv.rerr))
		return
	}
	if d := firstDiff(sv.read, planC.Payload); d >= 0 {
		r.Violate("data-mismatch", site+"/c2s", fmt.Sprintf("server read %d bytes, client wrote %d; first difference at %d [%s]", len(sv.read), len(planC.Payload), d, p.String()))
		return
	}
	if d := firstDiff(cv.read, planS.Payload); d >= 0 {
		r.Violate("data-mismatch", site+"/s2c", fmt.Sprintf("client read %d bytes, server wrote %d; first difference at %d [%s]", len(cv.read), len(planS.Payload), d, p.String()))
		return
	}
	// ---- reach probes
	switch cv.suite {
	case gmtls.GMTLS_ECC_SM4_CBC_SM3:
		r.Reach(idx(benignReach, "gm-cbc"))
	case gmtls.GMTLS_ECC_SM4_GCM_SM3:
		r.Reach(idx(benignReach, "gm-gcm"))
	}
	switch cv.vers {
	case gmtls.VersionTLS10:
		r.Reach(idx(benignReach, "tls10"))
	case gmtls.VersionTLS11:
		r.Reach(idx(benignReach, "tls11"))
	case gmtls.VersionTLS12:
		r.Reach(idx(benignReach, "tls12"))
	}
	if p.SMode == modeAuto {
		if p.CGM {
			r.Reach(idx(benignReach, "auto-gm"))
		} else {
			r.Reach(idx(benignReach, "auto-tls"))
		}
	}
	if p.SrvCertSrc == 1 {
		r.Reach(idx(benignReach, "callbacks-cert"))
	}
	if p.ClientCert == 3 && len(sv.peer) > 1 {
		r.Reach(idx(benignReach, "client-chain-with-intermediate"))
	}
	if p.SrvCertSrc == 2 {
		r.Reach(idx(benignReach, "getconfigforclient"))
	}
	if nC2S >= 16384 || nS2C >= 16384 {
		r.Reach(idx(benignReach, "payload>=16k"))
	}
	if nC2S == 0 || nS2C == 0 {
		r.Reach(idx(benignReach, "payload-0"))
	}
	if p.Peer == peerStdClient {
		r.Reach(idx(benignReach, "stdlib-client"))
	}
	if p.Peer == peerStdServer {
		r.Reach(idx(benignReach, "stdlib-server"))
	}
	// wire oracle (GMSSL sessions): independent decode of the capture
	if p.CGM {
		if msg := wireCheckGM(a.WrPipe().Captured(), b.WrPipe().Captured(), &cr, &sr, planC.Payload, planS.Payload, &p); msg != "" {
			r.Violate("wire", site, msg+" ["+p.String()+"]")
			return
		}
		r.Reach(idx(benignReach, "wire-decoded"))
	}
	if !p.CGM && reftls.Decodable(cv.vers, cv.suite, false) {
		keyName := "tlsrsa"
		if p.VHost {
			keyName = "tlsrsa2"
		}
		if p.SrvKey >= 1 {
			keyName = "" // ECDSA certificate: ECDHE only, master secret from the key log
		}
		if msg := wireCheckTLS12(a.WrPipe().Captured(), b.WrPipe().Captured(), &cr, &sr, planC.Payload, planS.Payload, keyName, cv.suite); msg != "" {
			r.Violate("wire", site, msg+" ["+p.String()+"]")
			return
		}
		r.Reach(idx(benignReach, "wire-decoded-tls12"))
	}
	r.Sig(uint64(cv.suite)<<16 | uint64(cv.vers))
	r.Outcome = "complete"
}

// ---- stdlib peers (crypto/tls of the toolchain): sequential application
// (write, close-write, read to EOF) because its mutexes are not cooperative.

func stdCommon(p *benignParams, ent *simkit.Stream) *tls.Config {
	cfg := &tls.Config{Rand: ent, Time: func() time.Time { return simkit.TimeAt(0) }}
	for _, id := range p.Curves {
		cfg.CurvePreferences = append(cfg.CurvePreferences, tls.CurveID(id))
	}
	return cfg
}

func stdApp(conn *tls.Conn, plan *appPlan, e *stdEnd) {
	off := 0
	for _, k := range plan.WriteCuts {
		n, err := conn.Write(plan.Payload[off : off+k])
		if err != nil || n != k {
			e.WErr = fmt.Errorf("write %d/%d: %v", n, k, err)
			return
		}
		off += k
	}
	if err := conn.CloseWrite(); err != nil {
		e.WErr = err
	}
	buf := make([]byte, 70000)
	bi := 0
	for {
		b := buf[:plan.ReadBuf[bi%len(plan.ReadBuf)]]
		bi++
		n, err := conn.Read(b)
		e.Read = append(e.Read, b[:n]...)
		if err == io.EOF {
			break
		}
		if err != nil {
			e.ReadErr = err
			break
		}
	}
	conn.Close()
}

func stdState(conn *tls.Conn, e *stdEnd) {
	e.State = conn.ConnectionState()
	e.Done = e.State.HandshakeComplete
	if e.Done {
		for i, a := range ekmArgs {
			e.EKM[i], _ = e.State.ExportKeyingMaterial(a.label, a.ctx, a.n)
		}
	}
}

func stdClientRun(p *benignParams, raw *simkit.Conn, ent *simkit.Stream, plan *appPlan, e *stdEnd) {
	cfg := stdCommon(p, ent)
	cfg.ServerName = "server.sim"
	cfg.RootCAs = pki.StdPool("rsaCA")
	switch p.CVerify {
	case 1:
		cfg.ServerName = "other.sim"
	case 2:
		cfg.RootCAs = pki.StdPool() // trusts nothing
	case 3:
		cfg.InsecureSkipVerify = true
	}
	cfg.CipherSuites = stdSuites(p.CSuites)
	cfg.NextProtos = p.CProtos
	cfg.MinVersion, cfg.MaxVersion = effVers(p.CMin, tls.VersionTLS10), effVers(p.CMax, tls.VersionTLS12)
	if cfg.MinVersion > cfg.MaxVersion {
		cfg.MinVersion = cfg.MaxVersion
	}
	cfg.SessionTicketsDisabled = true
	switch p.ClientCert {
	case 1:
		cfg.Certificates = []tls.Certificate{{Certificate: [][]byte{pki.DER(tlsCliCertName(p.CliKey))}, PrivateKey: pki.StdKey(tlsCliCertName(p.CliKey))}}
	case 2:
		cfg.Certificates = []tls.Certificate{{Certificate: [][]byte{pki.DER("srvrsa")}, PrivateKey: pki.StdKey("srvrsa")}}
	case 3:
		cfg.Certificates = []tls.Certificate{{Certificate: [][]byte{pki.DER("tlscliint"), pki.DER("rsaInt")}, PrivateKey: pki.StdKey("tlscliint")}}
	}
	if p.BigChain && len(cfg.Certificates) == 1 && p.ClientCert != 2 {
		cfg.Certificates[0].Certificate = append(cfg.Certificates[0].Certificate, bigExtras(false, p.BigSize)...)
	}
	conn := tls.Client(raw, cfg)
	e.HsErr = conn.Handshake()
	stdState(conn, e)
	if e.HsErr != nil {
		raw.Close()
		return
	}
	stdApp(conn, plan, e)
}

func stdServerRun(p *benignParams, raw *simkit.Conn, ent *simkit.Stream, plan *appPlan, e *stdEnd) {
	cfg := stdCommon(p, ent)
	name := tlsSrvCertName(p.SrvKey)
	cfg.Certificates = []tls.Certificate{{Certificate: [][]byte{pki.DER(name)}, PrivateKey: pki.StdKey(name)}}
	if p.BigChain {
		cfg.Certificates[0].Certificate = append(cfg.Certificates[0].Certificate, bigExtras(false, p.BigSize)...)
	}
	cfg.CipherSuites = stdSuites(p.SSuites)
	cfg.NextProtos = p.SProtos
	cfg.MinVersion, cfg.MaxVersion = effVers(p.SMin, tls.VersionTLS10), effVers(p.SMax, tls.VersionTLS12)
	if cfg.MinVersion > cfg.MaxVersion {
		cfg.MinVersion = cfg.MaxVersion
	}
	cfg.ClientAuth = tls.ClientAuthType(p.ClientAuth)
	if p.SrvClientCAs {
		cfg.ClientCAs = pki.StdPool("rsaCA")
	}
	cfg.SessionTicketsDisabled = true
	conn := tls.Server(raw, cfg)
	e.HsErr = conn.Handshake()
	stdState(conn, e)
	if e.HsErr != nil {
		raw.Close()
		return
	}
	stdApp(conn, plan, e)
}

// defaultPairProbe runs one TLS and one GMSSL handshake between endpoints that
// leave versions and cipher suites to the library, in a simulation of their own,
// and reports what they negotiated.
func defaultPairProbe(c *simkit.Choice) string {
	out := ""
	for _, gm := range []bool{false, true} {
		s := simkit.NewSim(c, simkit.Policy{StarveNode: -1}, 2000000)
		a, b := s.NewConnPair("pc", "ps", simkit.NetCfg{}, simkit.NetCfg{})
		ccfg := &gmtls.Config{Rand: simkit.NewStream(901), Time: simTime(s, 0), ServerName: "server.sim", RootCAs: pki.Pool("rsaCA")}
		scfg := &gmtls.Config{Rand: simkit.NewStream(903), Time: simTime(s, 0), Certificates: []gmtls.Certificate{pki.GMStd("tlsp256")}, SessionTicketsDisabled: true}
		if gm {
			ccfg.GMSupport, scfg.GMSupport = gmtls.NewGMSupport(), gmtls.NewGMSupport()
			ccfg.RootCAs = pki.Pool("caA")
			scfg.Certificates = gmServerCerts("srv-sign", "srv-enc")
		}
		var cst gmtls.ConnectionState
		var cerr, serr error
		s.Spawn("pc", 0, func() {
			conn := gmtls.Client(a, ccfg)
			cerr = conn.Handshake()
			cst = conn.ConnectionState()
			conn.Close()
		})
		s.Spawn("ps", 1, func() {
			conn := gmtls.Server(b, scfg)
			serr = conn.Handshake()
			buf := make([]byte, 8)
			conn.Read(buf)
			conn.Close()
		})
		s.Run()
		out += fmt.Sprintf("[gm=%v version %04x suite %04x client=%v server=%v]", gm, cst.Version, cst.CipherSuite, cerr, serr)
	}
	return out
}
