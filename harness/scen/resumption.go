package scen

import (
	"bytes"
	"encoding/hex"
	"errors"
	"fmt"
	"io"
	"time"

	"github.com/tjfoc/gmsm/gmtls"
	"github.com/tjfoc/gmsm/verifsim/pki"
	"github.com/tjfoc/gmsm/verifsim/ref/reftls"
	"github.com/tjfoc/gmsm/verifsim/simkit"
	"github.com/tjfoc/gmsm/x509"
)

// C16: histories of connections, ticket-key rotations, restarts, configuration
// changes, cache evictions and forged tickets, judged by a small reference
// model of the resumption policy (DESIGN.md Appendix D).

var resFaults = []string{"rotate-keep-old", "rotate-drop-old", "rotate-retire-old-only", "rotate-readmit-retired", "rotate-old-key-primary-again", "restart-keep-key", "restart-lose-key", "change-suites", "change-client-auth", "disable-tickets", "enable-tickets", "evict-by-other-name", "other-server-shared-key", "other-server-own-key",
	"change-max-version", "clone-config", "ticket-byte-flip", "ticket-truncated", "ticket-extended", "ticket-suite-not-offered", "ticket-genuine-via-reference-client", "clock-jump", "connection-damaged-after-ticket", "change-client-cas", "library-default-ticket-key", "hello-without-null-compression", "peer-certificate-callback-rejects", "config-time-far-from-process-clock"}
var resReach = []string{"resumed", "full-handshake", "resumed-with-old-key-ticket-refreshed", "fallback-after-rotation", "fallback-suite-change", "fallback-client-auth", "fallback-tickets-off", "fallback-evicted", "fallback-forged-ticket", "completeness-checked", "soundness-checked", "master-equal-checked", "wire-decoded-resumed", "gm-mode", "tls-mode", "client-cert-in-ticket", "history>=4", "refclient-tls12", "wire-decoded-resumed-tls12", "policy-forbids-failed", "ticket-seen-in-failed-handshake", "per-connection-config"}

func init() {
	register(Family{Name: "tls-resumption", Prop: "C16", ID: 1601, Weight: 4, FaultNames: resFaults, ReachNames: resReach, Run: runResumption})
}

type resSrv struct {
	name                     string
	cfg                      *gmtls.Config
	keys                     []int // key generations, first = primary
	retired                  []int // generations once configured, no longer
	suites                   []uint16
	policy                   gmtls.ClientAuthType
	ticketsOff               bool
	maxVers                  uint16 // TLS mode: 0 = default (TLS 1.2)
	second                   bool   // GMSSL: serves the second identity (server2.sim)
	otherCAs                 bool   // ClientCAs switched to a root that did not issue the client's certificate
	ent                      *simkit.Stream
	keylog                   *bytes.Buffer
	everNoCert, everOtherCAs bool // the server has at some time not requested client certificates / trusted other client CAs
	cbReject                 bool // VerifyPeerCertificate refuses every certificate (for one connection)
	lib                      bool // no ticket key configured: the library draws one (a new one for every Config built)
}

type issuedTicket struct {
	gen        int
	vers       uint16
	suite      uint16
	master     []byte
	clientCert bool
	cfgSig     string // configuration of the issuing server at issue time
	name       string // server name the client dialled when the ticket was issued
	peerCerts  [][]byte
}

func keyBytes(seed uint64, gen int) [32]byte {
	var k [32]byte
	st := simkit.NewStream(seed*1000003 + uint64(gen)*7919 + 1)
	st.Read(k[:])
	return k
}

func (sv *resSrv) sig() string {
	return fmt.Sprintf("keys=%v suites=%x policy=%d off=%v maxvers=%x othercas=%v", sv.keys, sv.suites, sv.policy, sv.ticketsOff, sv.maxVers, sv.otherCAs)
}

// plainHandshake returns the plaintext handshake messages of a captured
// direction up to its ChangeCipherSpec.
func plainHandshake(stream []byte) []reftls.HsMsg {
	recs, _ := reftls.ParseRecords(stream)
	var buf []byte
	for _, rc := range recs {
		if rc.Type == reftls.RecCCS {
			break
		}
		if rc.Type == reftls.RecHandshake {
			buf = append(buf, rc.Body...)
		}
	}
	msgs, _ := reftls.SplitHandshake(buf)
	return msgs
}

func runResumption(c *simkit.Choice, r *simkit.Rec) {
	pki.Load()
	gm := !c.Bool(1, 3, simkit.LScen)
	capacity := c.Range(1, 3, simkit.LScen)
	twoServers := c.Bool(1, 3, simkit.LScen)
	sharedKey := c.Bool(1, 2, simkit.LScen)
	explicit := !c.Bool(1, 6, simkit.LScen)
	clientHasCert := c.Bool(1, 2, simkit.LScen)
	// the client's certificate is issued by an intermediate CA and travels with it
	// (the ticket then carries two certificates)
	clientChain := c.Bool(1, 3, simkit.LScen)
	farClock := c.Bool(1, 4, simkit.LScen)
	// application protocols configured on both ends (TLS mode): what was negotiated is reported alike
	alpn := c.Bool(1, 3, simkit.LScen)
	nops := c.Range(2, 6, simkit.LScen)
	initPolicy := c.Weighted([]int{4, 1, 1, 1, 2}, simkit.LScen)
	seed := uint64(c.Choose(1<<31, simkit.LEntropy)) + 61
	pol := simkit.Policy{StarveNode: -1, MeanGap: []int{0, 13}[c.Choose(2, simkit.LScen)]}
	s := simkit.NewSim(c, pol, 8000000)
	r.Config = fmt.Sprintf("gm%v/cap%d/two%v/explicit%v", gm, capacity, twoServers, explicit)
	r.SigStr(r.Config)
	if gm {
		r.Reach(idx(resReach, "gm-mode"))
	} else {
		r.Reach(idx(resReach, "tls-mode"))
	}

	var allSuites []uint16
	if gm {
		allSuites = []uint16{gmSuites[0], gmSuites[1]}
	} else {
		allSuites = []uint16{0xc02f, 0x009c, 0x002f}
		if c.Bool(1, 2, simkit.LScen) {
			allSuites = []uint16{0x009c, 0x002f, 0xc02f} // RSA key exchange preferred: sessions the reference client can take over
		}
	}
	nextGen := 1
	skew := int64(0)
	// farClock: every Config's Time is three years ahead of the process clock and the
	// client's certificate is valid around that date only - whatever consults the
	// process clock instead of Config.Time finds it not yet valid
	cliName, tlsCliName := "cli", "tlsclirsa"
	farBase := int64(0)
	if farClock {
		farBase = 1096 * 24 * 3600e9
		skew = farBase
		cliName, tlsCliName = "clifar", "tlsclifar"
		r.Fault(idx(resFaults, "config-time-far-from-process-clock"))
	}
	// perConn: the listener's configuration hands every connection a freshly built
	// Config through GetConfigForClient (no ticket keys of its own: "the session
	// ticket keys of the original Config are used", rotations included)
	perConn := c.Bool(1, 4, simkit.LScen)
	// libKeys: the servers configure no ticket key at all (until their first rotation)
	libKeys := !sharedKey && c.Bool(1, 4, simkit.LScen)
	if libKeys {
		r.Fault(idx(resFaults, "library-default-ticket-key"))
	}
	var mkCfg func(sv *resSrv)
	build := func(sv *resSrv) *gmtls.Config {
		cfg := &gmtls.Config{Rand: sv.ent, Time: simTime(s, 0), KeyLogWriter: sv.keylog, ClientAuth: sv.policy, ClientCAs: pki.Pool("caA"), SessionTicketsDisabled: sv.ticketsOff}
		cfg.Time = func() time.Time { return simkit.TimeAt(s.Now + skew) }
		if gm {
			cfg.GMSupport = gmtls.NewGMSupport()
			cfg.Certificates = gmServerCerts("srv-sign", "srv-enc")
			if sv.second {
				cfg.Certificates = gmServerCerts("srv2-sign", "srv2-enc")
			}
		} else {
			cfg.Certificates = []gmtls.Certificate{pki.GMStd("tlsrsa")}
			cfg.ClientCAs = pki.Pool("rsaCA")
		}
		if sv.otherCAs {
			if gm {
				cfg.ClientCAs = pki.Pool("caB")
			} else {
				cfg.ClientCAs = pki.Pool("caA")
			}
		}
		cfg.CipherSuites = sv.suites
		cfg.MaxVersion = sv.maxVers
		if sv.cbReject {
			cfg.VerifyPeerCertificate = func([][]byte, [][]*x509.Certificate) error {
				return errors.New("verifsim: the application refuses this client certificate")
			}
		}
		if alpn && !gm {
			cfg.NextProtos = []string{"h2", "sim/2"}
		}
		return cfg
	}
	mkCfg = func(sv *resSrv) {
		if sv.policy == gmtls.NoClientCert {
			sv.everNoCert = true
		}
		if sv.otherCAs {
			sv.everOtherCAs = true
		}
		cfg := build(sv)
		if perConn {
			cfg.GetConfigForClient = func(*gmtls.ClientHelloInfo) (*gmtls.Config, error) { return build(sv), nil }
			r.Reach(idx(resReach, "per-connection-config"))
		}
		if sv.lib {
			// the key is left to the library: every Config built draws its own, which no
			// other Config (and no earlier incarnation of this one) shares
			sv.retired = append(sv.retired, sv.keys...)
			sv.keys = []int{nextGen}
			nextGen++
			sv.cfg = cfg
			return
		}
		kb := keyBytes(seed, sv.keys[0])
		cfg.SessionTicketKey = kb
		if len(sv.keys) > 1 {
			var ks [][32]byte
			for _, g := range sv.keys {
				ks = append(ks, keyBytes(seed, g))
			}
			cfg.SetSessionTicketKeys(ks)
		}
		sv.cfg = cfg
	}
	newSrv := func(name string, gen int) *resSrv {
		sv := &resSrv{name: name, keys: []int{gen}, ent: simkit.NewStream(seed + uint64(len(name))*77 + 2*uint64(name[0])), keylog: &bytes.Buffer{}}
		if explicit {
			sv.suites = append([]uint16(nil), allSuites...)
		}
		sv.lib = libKeys
		if clientHasCert {
			sv.policy = gmtls.ClientAuthType(initPolicy)
		} else {
			sv.policy = []gmtls.ClientAuthType{gmtls.NoClientCert, gmtls.RequestClientCert, gmtls.VerifyClientCertIfGiven}[initPolicy%3]
		}
		mkCfg(sv)
		return sv
	}
	srvs := []*resSrv{newSrv("A", nextGen)}
	nextGen++
	if twoServers {
		g := nextGen
		if sharedKey {
			g = srvs[0].keys[0]
		} else {
			nextGen++
		}
		srvs = append(srvs, newSrv("B", g))
	}
	// eviction target: another name, its own key
	evict := &resSrv{name: "E", keys: []int{1000}, ent: simkit.NewStream(seed + 999), keylog: &bytes.Buffer{}, suites: allSuites}
	if sharedKey {
		evict.keys = []int{srvs[0].keys[0]} // the other name is served by the same farm (same ticket key)
	}
	evict.second = true
	mkCfg(evict)

	cache := gmtls.NewLRUClientSessionCache(capacity)
	clientLog := &bytes.Buffer{}
	entC := simkit.NewStream(seed + 5)
	mkClient := func(name string, suites []uint16) *gmtls.Config {
		cc := &gmtls.Config{Rand: entC, Time: simTime(s, farBase), KeyLogWriter: clientLog, ServerName: name, ClientSessionCache: cache, CipherSuites: suites}
		if gm {
			cc.GMSupport = gmtls.NewGMSupport()
			cc.RootCAs = pki.Pool("caA")
			if clientHasCert {
				cc.Certificates = []gmtls.Certificate{pki.GM(cliName)}
				if clientChain {
					cc.Certificates = []gmtls.Certificate{pki.GM("cliint", "caAint")}
				}
			}
		} else {
			cc.RootCAs = pki.Pool("rsaCA")
			if clientHasCert {
				cc.Certificates = []gmtls.Certificate{pki.GMStd(tlsCliName)}
				if clientChain {
					cc.Certificates = []gmtls.Certificate{pki.GMStd("tlscliint", "rsaInt")}
				}
			}
			if alpn {
				cc.NextProtos = []string{"sim/2", "h2"}
			}
		}
		return cc
	}
	clientSuites := append([]uint16(nil), allSuites...)

	issued := map[string]*issuedTicket{}
	var issuedOrder []string
	var history []string
	fail := func(class, site, msg string) {
		r.Violate(class, site, msg+" | history: "+fmt.Sprint(history))
	}

	type connOut struct {
		cst, sst   gmtls.ConnectionState
		cerr, serr error
		cgot, sgot []byte
		c2s, s2c   []byte
		refRes     *reftls.Result
		refErr     error
		cekm, sekm []byte
		done       bool
	}
	// one connection of the gmtls client (or the reference client when ref != nil)
	tainted := map[string]bool{} // tickets delivered in handshakes the client did not complete
	// client-cache model, as far as it is certain: the newest ticket the gmtls client
	// was handed for a name in a handshake it completed, valid until the client dials
	// another name (which may evict it)
	latest := map[string][]byte{}
	connect := func(tag string, sv *resSrv, ccfg *gmtls.Config, ref *reftls.ClientCfg, fault int) *connOut {
		out := &connOut{}
		capt := simkit.NetCfg{Capture: true}
		a, b := s.NewConnPair("c"+tag, "s"+tag, capt, capt)
		// every connection to one server reaches the same address; names served by one
		// farm (shared ticket key) share the address as well
		peerAddr := "192.0.2.10:443"
		if sv.second && !sharedKey {
			peerAddr = "192.0.2.20:443"
		}
		if sv.name == "B" {
			peerAddr = "192.0.2.11:443"
		}
		a.PeerAddr = peerAddr
		if fault > 0 {
			// an in-path fault on the server's last flight: client <-> (ra | rb) <-> server
			var ra, rb *simkit.Conn
			a, ra = s.NewConnPair("c"+tag, "rc"+tag, capt, capt)
			a.PeerAddr = peerAddr
			rb, b = s.NewConnPair("rs"+tag, "s"+tag, capt, capt)
			s.Spawn("relay-c2s"+tag, 2, func() {
				buf := make([]byte, 2048)
				for {
					n, err := ra.Read(buf)
					if n > 0 {
						rb.Write(buf[:n])
					}
					if err != nil {
						rb.Close()
						return
					}
				}
			})
			s.Spawn("relay-s2c"+tag, 3, func() {
				hdr := make([]byte, 5)
				afterCCS := false
				for {
					if n, err := readFull(rb, hdr); err != nil {
						ra.Write(hdr[:n])
						ra.Close()
						return
					}
					rec := make([]byte, 5+int(hdr[3])<<8+int(hdr[4]))
					copy(rec, hdr)
					if n, err := readFull(rb, rec[5:]); err != nil {
						ra.Write(rec[:5+n])
						ra.Close()
						return
					}
					switch {
					case afterCCS && fault == 1:
						rec[5+len(rec[5:])/2] ^= 0x10 // the server's Finished no longer authenticates
						afterCCS = false
						fault = -1
					case afterCCS && fault == 2:
						ra.Close() // the stream ends before the server's Finished
						rb.Close()
						return
					case rec[0] == reftls.RecCCS && fault == 3:
						ra.Close() // the stream ends right after the NewSessionTicket
						rb.Close()
						return
					}
					if rec[0] == reftls.RecCCS {
						afterCCS = true
					}
					ra.Write(rec)
				}
			})
		}
		cdone, sdone := &simkit.Flag{Name: "c"}, &simkit.Flag{Name: "s"}
		s.Spawn("cli"+tag, 0, func() {
			defer cdone.Set()
			if ref != nil {
				pc := reftls.NewConn(a)
				a.SetReadDeadlineNS(s.Now + 60e9)
				out.refRes, out.refErr = reftls.ClientHandshake(pc, ref)
				if out.refErr == nil && out.refRes.Complete {
					pc.WriteRecord(reftls.RecApp, []byte("ref-hello"))
					for len(out.cgot) < 9 {
						d, err := pc.ReadApp()
						if err != nil {
							break
						}
						out.cgot = append(out.cgot, d...)
					}
					pc.CloseNotify()
				}
				a.Close()
				return
			}
			conn := gmtls.Client(a, ccfg)
			if out.cerr = conn.Handshake(); out.cerr != nil {
				a.Close()
				return
			}
			out.cst = conn.ConnectionState()
			out.cekm, _ = out.cst.ExportKeyingMaterial("EXPORTER-resumption", nil, 24)
			conn.Write([]byte("cli-hello"))
			buf := make([]byte, 9)
			n, _ := io.ReadFull(conn, buf)
			out.cgot = append([]byte(nil), buf[:n]...)
			conn.Close()
		})
		s.Spawn("srv"+tag, 1, func() {
			defer sdone.Set()
			conn := gmtls.Server(b, sv.cfg)
			if out.serr = conn.Handshake(); out.serr != nil {
				b.Close()
				return
			}
			out.sst = conn.ConnectionState()
			out.sekm, _ = out.sst.ExportKeyingMaterial("EXPORTER-resumption", nil, 24)
			buf := make([]byte, 9)
			n, _ := io.ReadFull(conn, buf)
			out.sgot = append([]byte(nil), buf[:n]...)
			conn.Write([]byte("srv-hello"))
			conn.Close()
		})
		s.WaitFlag(cdone)
		s.WaitFlag(sdone)
		out.c2s, out.s2c = a.WrPipe().Captured(), b.WrPipe().Captured()
		out.done = true
		return out
	}

	violated := func() bool { return r.Violation() != nil }

	// judge evaluates one finished connection against the model.
	judge := func(step int, sv *resSrv, out *connOut, viaRef bool, forged bool, offeredSuites []uint16, dialled string) {
		site := fmt.Sprintf("%s/step%d", map[bool]string{true: "gmssl", false: "tls"}[gm], step)
		site = map[bool]string{true: "gmssl", false: "tls"}[gm]
		chs := plainHandshake(out.c2s)
		if len(chs) == 0 || chs[0].Type != reftls.HsClientHello {
			r.HarnessErr = "no ClientHello in capture"
			return
		}
		ch, err := reftls.ParseClientHello(chs[0].Body)
		if err != nil {
			r.HarnessErr = "cannot parse captured ClientHello: " + err.Error()
			return
		}
		offered, _ := reftls.FindExt(ch.Exts, reftls.ExtSessionTicket)
		var nst []byte
		for _, m := range plainHandshake(out.s2c) {
			if m.Type == reftls.HsNewSessionTicket {
				if t, err := reftls.ParseNewSessionTicket(m.Body); err == nil {
					nst = t.Ticket
				}
			}
		}
		// outcome
		var resumed bool
		var hsOK bool
		if viaRef {
			hsOK = out.refErr == nil && out.refRes != nil && out.refRes.Complete && out.serr == nil
			resumed = out.refRes != nil && out.refRes.Resumed
			if hsOK && resumed != out.sst.DidResume {
				fail("resume-disagree", site, fmt.Sprintf("reference client resumed=%v but server DidResume=%v", resumed, out.sst.DidResume))
				return
			}
		} else {
			hsOK = out.cerr == nil && out.serr == nil
			resumed = out.cst.DidResume
			if hsOK && out.cst.DidResume != out.sst.DidResume {
				fail("resume-disagree", site, fmt.Sprintf("client DidResume=%v, server DidResume=%v", out.cst.DidResume, out.sst.DidResume))
				return
			}
		}
		if tainted[string(offered)] && !viaRef {
			fail("unestablished-session-offered", site, "the client offered a ticket it had received in a handshake that it never completed (the server's Finished was never verified, RFC 5077 3.3)")
			return
		}
		if want := latest[dialled]; want != nil && !viaRef && !bytes.Equal(want, offered) {
			if wi := issued[string(want)]; wi != nil && contains(offeredSuites, wi.suite) {
				what := "no ticket"
				if oi := issued[string(offered)]; oi != nil {
					what = fmt.Sprintf("an older ticket (key generation %d)", oi.gen)
				} else if len(offered) > 0 {
					what = "a ticket nobody issued"
				}
				fail("stale-session-offered", site, fmt.Sprintf("in its previous completed connection to %q the client was handed a new ticket (key generation %d); it now offered %s: the session cache did not take the newer session", dialled, wi.gen, what))
				return
			}
		}
		if !viaRef {
			for n := range latest {
				if n != dialled {
					delete(latest, n) // another name was dialled: the entry may have been evicted
				}
			}
		}
		it := issued[string(offered)]
		if it != nil && !viaRef && it.name != dialled {
			fail("foreign-session-offered", site, fmt.Sprintf("while dialling %q the client offered a ticket it had obtained from %q (session cache mixes server names)", dialled, it.name))
			return
		}
		inKeys := func(g int) bool {
			for _, k := range sv.keys {
				if k == g {
					return true
				}
			}
			return false
		}
		vers := uint16(gmtls.VersionTLS12)
		if sv.maxVers != 0 {
			vers = sv.maxVers
		}
		if gm {
			vers = gmtls.VersionGMSSL
		}
		// the client certificate (issued by caA / rsaCA) verifies only while that root is among the ClientCAs
		caOK := !sv.otherCAs
		resumable := !sv.ticketsOff && it != nil && inKeys(it.gen) && it.vers == vers && contains(ch.Suites, it.suite) &&
			(sv.suites == nil || contains(sv.suites, it.suite)) &&
			!((sv.policy == gmtls.RequireAnyClientCert || sv.policy == gmtls.RequireAndVerifyClientCert) && !it.clientCert) &&
			!(sv.policy == gmtls.NoClientCert && it.clientCert) &&
			!(it.clientCert && sv.policy >= gmtls.VerifyClientCertIfGiven && !caOK)
		// would a full handshake be acceptable? The gmtls client only presents a
		// certificate whose issuer the CertificateRequest names; the reference client
		// presents what it has.
		present := clientHasCert && (caOK || viaRef) && sv.policy != gmtls.NoClientCert
		fullOK := true
		switch sv.policy {
		case gmtls.RequireAnyClientCert:
			fullOK = present
		case gmtls.RequireAndVerifyClientCert:
			fullOK = present && caOK
		case gmtls.VerifyClientCertIfGiven:
			fullOK = !present || caOK
		}
		mustResume := resumable && it.cfgSig == sv.sig() && sv.suites != nil
		if !fullOK && !mustResume {
			// a full handshake cannot succeed under the current policy, and resumption
			// is not owed: failing on both ends is right, so is a permitted resumption
			if hsOK && !(resumed && resumable) {
				fail("completed-but-policy-forbids", site, fmt.Sprintf("client-certificate policy %d with ClientCAs that do not cover the client's certificate, yet the connection completed (resumed=%v)", sv.policy, resumed))
				return
			}
			if !hsOK {
				r.Reach(idx(resReach, "policy-forbids-failed"))
				return
			}
		}
		if !hsOK {
			// neither resumed nor fell back: an error surfaced
			fail("connection-failed", site, fmt.Sprintf("connection to server %s failed instead of resuming or falling back: client=%v server=%v ref=%v (offered ticket %d bytes, known=%v, forged=%v)", sv.name, out.cerr, out.serr, out.refErr, len(offered), it != nil, forged))
			return
		}
		// 2. soundness
		r.Reach(idx(resReach, "soundness-checked"))
		if resumed && !resumable {
			why := "ticket differs from every ticket issued"
			switch {
			case it == nil:
			case sv.ticketsOff:
				why = "tickets are disabled"
			case !inKeys(it.gen):
				why = fmt.Sprintf("ticket was issued under key generation %d, server %s now holds %v", it.gen, sv.name, sv.keys)
			case !contains(ch.Suites, it.suite):
				why = "the session's suite was not offered"
			case sv.suites != nil && !contains(sv.suites, it.suite):
				why = "the session's suite is no longer configured"
			case it.clientCert && sv.policy >= gmtls.VerifyClientCertIfGiven && !caOK:
				why = "the session's client certificate does not verify against the current ClientCAs"
			default:
				why = "the session's client certificates are incompatible with the current ClientAuth policy"
			}
			fail("resumed-but-must-not", site, fmt.Sprintf("server %s resumed although %s (forged=%v)", sv.name, why, forged))
			return
		}
		if forged && resumed {
			fail("resumed-but-must-not", site, "forged ticket resumed")
			return
		}
		// 5. completeness, exactly as the property limits it
		if resumable && it.cfgSig == sv.sig() && sv.suites != nil {
			r.Reach(idx(resReach, "completeness-checked"))
			if !resumed {
				fail("not-resumed", site, fmt.Sprintf("genuine ticket, unchanged configuration (%s) listing the suite explicitly, but server %s performed a full handshake", sv.sig(), sv.name))
				return
			}
		}
		// data
		if viaRef {
			if string(out.sgot) != "ref-hello" || string(out.cgot) != "srv-hello" {
				fail("data-mismatch", site, fmt.Sprintf("application data after handshake: server got %q, reference client got %q", out.sgot, out.cgot))
				return
			}
		} else {
			if string(out.sgot) != "cli-hello" || string(out.cgot) != "srv-hello" {
				fail("data-mismatch", site, fmt.Sprintf("application data after handshake: server got %q, client got %q", out.sgot, out.cgot))
				return
			}
			if !bytes.Equal(out.cekm, out.sekm) || len(out.cekm) != 24 {
				fail("ekm-mismatch", site, "exported keying material differs between the ends")
				return
			}
			if out.cst.Version != out.sst.Version || out.cst.CipherSuite != out.sst.CipherSuite {
				fail("disagree", site, "version/suite differ between the ends")
				return
			}
			if out.cst.NegotiatedProtocol != out.sst.NegotiatedProtocol || (alpn && !gm && out.cst.NegotiatedProtocol != "h2") {
				fail("disagree", site, fmt.Sprintf("NegotiatedProtocol: client %q, server %q (resumed=%v, both ends configured: %v)", out.cst.NegotiatedProtocol, out.sst.NegotiatedProtocol, resumed, alpn && !gm))
				return
			}
			if len(out.cst.VerifiedChains) == 0 {
				fail("session-changed", site, fmt.Sprintf("the client reports no verified chain for the server (resumed=%v)", resumed))
				return
			}
			if it != nil && resumed && it.clientCert && sv.policy >= gmtls.VerifyClientCertIfGiven && len(out.sst.VerifiedChains) == 0 {
				fail("session-changed", site, "the server resumed a session with a verified client certificate but reports no verified chain")
				return
			}
		}
		// master secret of this connection
		kl := reftls.ParseKeyLog(append(append(append([]byte(nil), clientLog.Bytes()...), sv.keylog.Bytes()...), evict.keylog.Bytes()...))
		var master []byte
		if resumed {
			r.Reach(idx(resReach, "resumed"))
			master = it.master
			// 3. same session: suite, version, peer identity
			if !viaRef {
				if out.cst.CipherSuite != it.suite || out.cst.Version != it.vers {
					fail("session-changed", site, fmt.Sprintf("resumed session reports suite %04x version %04x, original had %04x %04x", out.cst.CipherSuite, out.cst.Version, it.suite, it.vers))
					return
				}
				if len(out.cst.PeerCertificates) != len(it.peerCerts) {
					fail("session-changed", site, "resumed session reports different peer certificates")
					return
				}
				for i := range it.peerCerts {
					if !bytes.Equal(out.cst.PeerCertificates[i].Raw, it.peerCerts[i]) {
						fail("session-changed", site, "resumed session reports different peer certificates")
						return
					}
				}
			}
			if it.clientCert {
				r.Reach(idx(resReach, "client-cert-in-ticket"))
				if len(out.sst.PeerCertificates) == 0 {
					fail("session-changed", site, "resumed session lost the client identity on the server")
					return
				}
			}
			// 6. ticket under a non-primary key => refreshed
			if it.gen != sv.keys[0] {
				if nst == nil {
					fail("ticket-not-refreshed", site, fmt.Sprintf("session resumed from a ticket of old key generation %d (primary is %d) but no fresh ticket was issued", it.gen, sv.keys[0]))
					return
				}
				r.Reach(idx(resReach, "resumed-with-old-key-ticket-refreshed"))
			}
		} else {
			r.Reach(idx(resReach, "full-handshake"))
			master = kl[hex.EncodeToString(ch.Random)]
			if master == nil && viaRef && out.refRes != nil {
				master = out.refRes.Master
			}
			if master == nil {
				fail("no-keylog", site, "full handshake completed but no CLIENT_RANDOM line was logged")
				return
			}
			if len(offered) == 0 && len(issuedOrder) > 0 && !viaRef {
				r.Reach(idx(resReach, "fallback-evicted"))
			}
			if it != nil || len(offered) > 0 {
				switch {
				case forged:
					r.Reach(idx(resReach, "fallback-forged-ticket"))
				case sv.ticketsOff:
					r.Reach(idx(resReach, "fallback-tickets-off"))
				case it != nil && !inKeys(it.gen):
					r.Reach(idx(resReach, "fallback-after-rotation"))
				case it != nil && sv.suites != nil && !contains(sv.suites, it.suite):
					r.Reach(idx(resReach, "fallback-suite-change"))
				case it != nil:
					r.Reach(idx(resReach, "fallback-client-auth"))
				}
			}
		}
		// 3/wire: GMSSL sessions, and the TLS 1.2 sessions the reference can follow, are
		// decoded independently under the model's master
		if gm || reftls.Decodable(out.sst.Version, out.sst.CipherSuite, resumed) {
			km := map[string][]byte{hex.EncodeToString(ch.Random): master}
			sess, err := reftls.Decode(out.c2s, out.s2c, reftls.DecodeOpts{KeyLog: km})
			if err != nil || !sess.Complete {
				what := "full handshake"
				if resumed {
					what = "resumed session (decoded with the ORIGINAL session's master secret)"
				}
				fail("wire", site, fmt.Sprintf("independent decode of the %s failed: %v", what, err))
				return
			}
			if sess.Resumed != resumed {
				fail("wire", site, fmt.Sprintf("wire shows resumed=%v, endpoints report %v", sess.Resumed, resumed))
				return
			}
			if resumed {
				r.Reach(idx(resReach, "wire-decoded-resumed"))
				r.Reach(idx(resReach, "master-equal-checked"))
				if !gm {
					r.Reach(idx(resReach, "wire-decoded-resumed-tls12"))
				}
			}
		} else if resumed {
			// TLS mode: both ends agree on exported keying material (checked above)
			r.Reach(idx(resReach, "master-equal-checked"))
		}
		// record the ticket issued in this handshake
		if nst != nil {
			suite := out.sst.CipherSuite
			ccert := len(out.sst.PeerCertificates) > 0
			var pcs [][]byte
			if viaRef {
				if resumed {
					pcs = it.peerCerts
				} else if out.refRes != nil {
					pcs = out.refRes.ServerCerts
				}
			} else {
				for _, x := range out.cst.PeerCertificates {
					pcs = append(pcs, x.Raw)
				}
			}
			issued[string(nst)] = &issuedTicket{gen: sv.keys[0], vers: vers, suite: suite, master: master, clientCert: ccert, cfgSig: sv.sig(), peerCerts: pcs, name: dialled}
			issuedOrder = append(issuedOrder, string(nst))
			if !viaRef && hsOK {
				latest[dialled] = nst
			}
		}
	}

	// keep the histories "correctly configured": client and every server always share a suite
	fixSuites := func() {
		if !gm {
			// with version caps in play, a suite usable below TLS 1.2 must stay common
			if !contains(clientSuites, 0x002f) {
				clientSuites = append(append([]uint16(nil), clientSuites...), 0x002f)
			}
			for _, sv := range srvs {
				if sv.maxVers != 0 && sv.maxVers < gmtls.VersionTLS12 && sv.suites != nil && !contains(sv.suites, 0x002f) {
					sv.suites = append(append([]uint16(nil), sv.suites...), 0x002f)
					mkCfg(sv)
				}
			}
		}
		for _, sv := range srvs {
			if sv.suites == nil {
				continue
			}
			common := false
			for _, x := range clientSuites {
				if contains(sv.suites, x) {
					common = true
				}
			}
			if !common {
				clientSuites = append([]uint16(nil), allSuites...)
			}
		}
	}
	s.Spawn("driver", 5, func() {
		for step := 0; step < nops && !violated() && r.HarnessErr == ""; step++ {
			fixSuites()
			sv := srvs[c.Choose(len(srvs), simkit.LOp)]
			op := c.Weighted([]int{10, 5, 2, 2, 2, 2, 1, 3, 3, 1, 2, 2, 2, 2, 2}, simkit.LOp)
			if step == 0 {
				op = 0
			}
			switch op {
			case 0: // connect with the gmtls client and the shared cache
				history = append(history, "connect("+sv.name+")")
				if sv != srvs[0] {
					if sharedKey {
						r.Fault(idx(resFaults, "other-server-shared-key"))
					} else {
						r.Fault(idx(resFaults, "other-server-own-key"))
					}
				}
				out := connect(fmt.Sprint(step), sv, mkClient("server.sim", clientSuites), nil, 0)
				judge(step, sv, out, false, false, clientSuites, "server.sim")
			case 1: // rotate
				// 0/1: a new primary key, old ones kept or dropped; 2: the primary stays and
				// the older keys are retired; 3: the primary stays and a retired key is
				// accepted again; 4: an older key becomes the primary again
				mode := c.Weighted([]int{3, 2, 3, 1, 1}, simkit.LFault)
				if mode == 2 && len(sv.keys) < 2 {
					mode = 0
				}
				if mode == 3 && len(sv.retired) == 0 {
					mode = 1
				}
				if mode == 4 && len(sv.keys) < 2 {
					mode = 1
				}
				if sv.lib {
					mode = 1 // (the library's own key is not known to the application: it cannot be kept in the new list)
					sv.lib = false
				}
				before := append([]int(nil), sv.keys...)
				switch mode {
				case 0:
					sv.keys = append([]int{nextGen}, sv.keys...)
					nextGen++
					if len(sv.keys) > 3 {
						sv.keys = sv.keys[:3]
					}
					r.Fault(idx(resFaults, "rotate-keep-old"))
				case 1:
					sv.keys = []int{nextGen}
					nextGen++
					r.Fault(idx(resFaults, "rotate-drop-old"))
				case 2:
					sv.keys = sv.keys[:1]
					r.Fault(idx(resFaults, "rotate-retire-old-only"))
				case 3:
					sv.keys = append(append([]int(nil), sv.keys...), sv.retired[len(sv.retired)-1])
					r.Fault(idx(resFaults, "rotate-readmit-retired"))
				case 4:
					sv.keys = append([]int{sv.keys[len(sv.keys)-1]}, sv.keys[:len(sv.keys)-1]...)
					r.Fault(idx(resFaults, "rotate-old-key-primary-again"))
				}
				for _, k := range before {
					still := false
					for _, k2 := range sv.keys {
						if k2 == k {
							still = true
						}
					}
					if !still {
						sv.retired = append(sv.retired, k)
					}
				}
				var ks [][32]byte
				for _, k := range sv.keys {
					ks = append(ks, keyBytes(seed, k))
				}
				sv.cfg.SetSessionTicketKeys(ks)
				history = append(history, fmt.Sprintf("rotate(%s,mode=%d)->%v", sv.name, mode, sv.keys))
			case 2: // restart
				keep := c.Bool(1, 2, simkit.LFault)
				if keep {
					sv.retired = append(sv.retired, sv.keys[1:]...)
					sv.keys = sv.keys[:1]
					r.Fault(idx(resFaults, "restart-keep-key"))
				} else {
					sv.retired = append(sv.retired, sv.keys...)
					sv.keys = []int{nextGen}
					nextGen++
					r.Fault(idx(resFaults, "restart-lose-key"))
				}
				mkCfg(sv)
				history = append(history, fmt.Sprintf("restart(%s,keepkey=%v)->%v", sv.name, keep, sv.keys))
			case 3: // change suites
				sv.suites = [][]uint16{{allSuites[0]}, {allSuites[1]}, allSuites, nil}[c.Choose(4, simkit.LFault)]
				mkCfgKeepKeys(sv, mkCfg)
				r.Fault(idx(resFaults, "change-suites"))
				history = append(history, fmt.Sprintf("suites(%s)=%x", sv.name, sv.suites))
			case 4: // client-auth policy
				if clientHasCert {
					sv.policy = []gmtls.ClientAuthType{gmtls.NoClientCert, gmtls.RequestClientCert, gmtls.RequireAnyClientCert, gmtls.VerifyClientCertIfGiven, gmtls.RequireAndVerifyClientCert}[c.Choose(5, simkit.LFault)]
				} else {
					sv.policy = []gmtls.ClientAuthType{gmtls.NoClientCert, gmtls.RequestClientCert, gmtls.VerifyClientCertIfGiven}[c.Choose(3, simkit.LFault)]
				}
				mkCfgKeepKeys(sv, mkCfg)
				r.Fault(idx(resFaults, "change-client-auth"))
				history = append(history, fmt.Sprintf("clientauth(%s)=%d", sv.name, sv.policy))
			case 5: // tickets on/off
				sv.ticketsOff = !sv.ticketsOff
				mkCfgKeepKeys(sv, mkCfg)
				if sv.ticketsOff {
					r.Fault(idx(resFaults, "disable-tickets"))
				} else {
					r.Fault(idx(resFaults, "enable-tickets"))
				}
				history = append(history, fmt.Sprintf("ticketsOff(%s)=%v", sv.name, sv.ticketsOff))
			case 6: // client narrows its suite list
				clientSuites = [][]uint16{{allSuites[0]}, {allSuites[1]}, allSuites}[c.Choose(3, simkit.LFault)]
				history = append(history, fmt.Sprintf("clientSuites=%x", clientSuites))
			case 7: // eviction pressure: a connection to another server name
				history = append(history, "connect(E:server2.sim)")
				r.Fault(idx(resFaults, "evict-by-other-name"))
				if gm {
					out := connect(fmt.Sprint(step)+"e", evict, mkClient("server2.sim", allSuites), nil, 0)
					judge(step, evict, out, false, false, allSuites, "server2.sim")
				}
			case 8: // forged / foreign ticket through the reference client
				if len(issuedOrder) == 0 {
					continue
				}
				tk := issuedOrder[c.Choose(len(issuedOrder), simkit.LFault)]
				it := issued[tk]
				ticket := []byte(tk)
				forged := true
				other := gmSuites[0] + gmSuites[1] - it.suite
				if !gm {
					// the reference client speaks TLS 1.2 with RSA key exchange only: the
					// fallback full handshake must be able to use one of the two RSA suites
					if sv.maxVers != 0 && sv.maxVers != gmtls.VersionTLS12 {
						continue
					}
					if it.suite != 0x009c && it.suite != 0x002f {
						continue
					}
					other = 0x009c + 0x002f - it.suite
					r.Reach(idx(resReach, "refclient-tls12"))
				}
				offer := []uint16{it.suite, other}
				kind := c.Choose(5, simkit.LFault)
				switch kind {
				case 0:
					ticket = append([]byte(nil), ticket...)
					ticket[c.Choose(len(ticket), simkit.LFault)] ^= byte(1 + c.Choose(255, simkit.LFault))
					r.Fault(idx(resFaults, "ticket-byte-flip"))
				case 1:
					ticket = ticket[:c.Choose(len(ticket), simkit.LFault)]
					if len(ticket) == 0 {
						ticket = []byte{}
					}
					r.Fault(idx(resFaults, "ticket-truncated"))
				case 2:
					ticket = append(append([]byte(nil), ticket...), drawData(c, 1+c.Choose(16, simkit.LFault))...)
					r.Fault(idx(resFaults, "ticket-extended"))
				case 3:
					offer = []uint16{other}
					forged = false // genuine ticket, but its suite is not offered: the model decides
					r.Fault(idx(resFaults, "ticket-suite-not-offered"))
				case 4:
					forged = false
					r.Fault(idx(resFaults, "ticket-genuine-via-reference-client"))
				}
				if sv.suites != nil {
					common := false
					for _, o := range offer {
						if contains(sv.suites, o) {
							common = true
						}
					}
					if !common {
						continue // no suite in common: even a full handshake cannot succeed
					}
				}
				history = append(history, fmt.Sprintf("refclient(%s,kind=%d)", sv.name, kind))
				rc := &reftls.ClientCfg{Rand: simkit.NewStream(seed + uint64(step)*31), Suites: offer, ServerName: "server.sim", Ticket: ticket, Master: it.master}
				if clientHasCert {
					rc.Cert = ident(cliName, true)
					if clientChain {
						rc.Cert = &reftls.Identity{Chain: [][]byte{pki.DER("cliint"), pki.DER("caAint")}, Key: pki.D("cliint")}
					}
				}
				if !gm {
					rc.Vers, rc.VersSet = reftls.VersionTLS12, true
					if clientHasCert {
						rc.Cert = &reftls.Identity{Chain: [][]byte{pki.DER(tlsCliName)}, RSA: refRSA(tlsCliName)}
						if clientChain {
							rc.Cert = &reftls.Identity{Chain: [][]byte{pki.DER("tlscliint"), pki.DER("rsaInt")}, RSA: refRSA("tlscliint")}
						}
					}
				}
				if len(ticket) == 0 {
					rc.Ticket = nil
				}
				if c.Bool(1, 6, simkit.LFault) {
					// the same hello without the null compression method: no handshake, resumed
					// or full, may come of it
					rc.Compress = []byte{1}
					history[len(history)-1] += "+no-null-compression"
					r.Fault(idx(resFaults, "hello-without-null-compression"))
					out := connect(fmt.Sprint(step)+"r", sv, nil, rc, 0)
					if out.serr == nil || (out.refRes != nil && out.refRes.Complete) {
						fail("completed-with-misbehaving-peer", map[bool]string{true: "gmssl", false: "tls"}[gm], fmt.Sprintf("a ClientHello whose compression methods lack null (offering a %d-byte ticket, forged=%v) was answered with a completed handshake: server err=%v, DidResume=%v", len(ticket), forged, out.serr, out.sst.DidResume))
						return
					}
					continue
				}
				out := connect(fmt.Sprint(step)+"r", sv, nil, rc, 0)
				if len(ticket) > 0 || !forged {
					judge(step, sv, out, true, forged, offer, "server.sim")
				}
			case 12: // a connection whose last server flight is damaged in transit: nothing of it may be reused
				if len(history) == 0 {
					continue
				}
				kind := 1 + c.Choose(3, simkit.LFault)
				history = append(history, fmt.Sprintf("faulty-connect(%s,kind=%d)", sv.name, kind))
				r.Fault(idx(resFaults, "connection-damaged-after-ticket"))
				out := connect(fmt.Sprint(step)+"f", sv, mkClient("server.sim", clientSuites), nil, kind)
				if out.cerr == nil {
					fail("completed-despite-fault", map[bool]string{true: "gmssl", false: "tls"}[gm], fmt.Sprintf("the client completed a handshake whose server Finished never arrived intact (fault kind %d)", kind))
					return
				}
				for _, m := range plainHandshake(out.s2c) {
					if m.Type == reftls.HsNewSessionTicket {
						if t, err := reftls.ParseNewSessionTicket(m.Body); err == nil && len(t.Ticket) > 0 {
							tainted[string(t.Ticket)] = true
							r.Reach(idx(resReach, "ticket-seen-in-failed-handshake"))
						}
					}
				}
			case 14: // one connection while the application's VerifyPeerCertificate callback says no
				// (only in histories in which every session the client can hold was made with
				// its certificate: no server ever ran without requesting one)
				certless := !clientHasCert
				for _, x := range srvs {
					if x.everNoCert || x.otherCAs || x.everOtherCAs {
						certless = true
					}
				}
				if certless {
					continue
				}
				// the client has a certificate and the server asks for one (or finds one in the
				// ticket): whichever way the certificates reach the server, the callback sees
				// them and refuses, so no handshake - full or abbreviated - may complete
				sv.cbReject = true
				mkCfg(sv)
				history = append(history, fmt.Sprintf("connect-under-rejecting-callback(%s)", sv.name))
				r.Fault(idx(resFaults, "peer-certificate-callback-rejects"))
				out := connect(fmt.Sprint(step)+"v", sv, mkClient("server.sim", clientSuites), nil, 0)
				sv.cbReject = false
				mkCfg(sv)
				if out.serr == nil {
					fail("completed-but-policy-forbids", map[bool]string{true: "gmssl", false: "tls"}[gm], fmt.Sprintf("the server's VerifyPeerCertificate callback refuses the client's certificate, yet the server completed (DidResume=%v, %d peer certificates)", out.sst.DidResume, len(out.sst.PeerCertificates)))
					return
				}
			case 13: // the set of acceptable client CAs changes
				sv.otherCAs = !sv.otherCAs
				mkCfgKeepKeys(sv, mkCfg)
				r.Fault(idx(resFaults, "change-client-cas"))
				history = append(history, fmt.Sprintf("clientCAs(%s,other=%v)", sv.name, sv.otherCAs))
			case 11: // the server continues with a Clone of its configuration: nothing may change
				sv.cfg = sv.cfg.Clone()
				r.Fault(idx(resFaults, "clone-config"))
				history = append(history, fmt.Sprintf("clone(%s)", sv.name))
			case 10: // version cap (TLS mode): a ticket of another version must not be resumed
				if gm {
					continue
				}
				sv.maxVers = []uint16{0, gmtls.VersionTLS11, gmtls.VersionTLS12, gmtls.VersionTLS10}[c.Choose(4, simkit.LFault)]
				mkCfgKeepKeys(sv, mkCfg)
				r.Fault(idx(resFaults, "change-max-version"))
				history = append(history, fmt.Sprintf("maxvers(%s)=%x", sv.name, sv.maxVers))
			case 9: // clock jump
				skew += int64(c.Range(1, 48, simkit.LFault)) * 3600e9
				r.Fault(idx(resFaults, "clock-jump"))
				history = append(history, fmt.Sprintf("clock+%dh", skew/3600e9))
			}
		}
	})
	s.Run()
	r.FromSim(s)
	r.Nontrivial = len(history) > 1
	for _, h := range history {
		r.SigStr(h)
	}
	if len(history) >= 4 {
		r.Reach(idx(resReach, "history>=4"))
	}
	r.Detail = map[string]interface{}{"gm": gm, "cache_capacity": capacity, "two_servers": twoServers, "shared_key": sharedKey, "explicit_suites": explicit, "client_cert": clientHasCert, "history": history, "tickets_issued": len(issuedOrder)}
	s.TaskPanics(r)
	if r.Violation() != nil || r.HarnessErr != "" {
		return
	}
	if s.Reason != simkit.StopDone {
		r.Violate("deadlock", map[bool]string{true: "gmssl", false: "tls"}[gm], fmt.Sprintf("history did not run to completion (%d): %v | history %v", s.Reason, s.Blocked, history))
		return
	}
	r.Outcome = "ok"
}

// mkCfgKeepKeys rebuilds the Config object after a configuration change (a
// Config must not be modified after use) keeping the key list.
func mkCfgKeepKeys(sv *resSrv, mk func(*resSrv)) { mk(sv) }
