package scen

import (
	"fmt"

	"github.com/tjfoc/gmsm/gmtls"
	"github.com/tjfoc/gmsm/verifsim/pki"
	"github.com/tjfoc/gmsm/verifsim/simkit"
)

// C07, cross-connection replay of whole byte streams. Two honest connections
// between one client Config (session cache) and one server Config (tickets
// on): a full handshake and, when the ticket is accepted, an abbreviated one.
// Everything each side sent is recorded. Then the attacker, who holds no key,
//
//   - opens a connection of its own to the same server and plays back, byte
//     for byte, what the client sent in one of the two connections; or
//   - answers a fresh dial of the same client with what the server sent.
//
// The fresh end contributes fresh randomness, so the recorded Finished cannot
// verify: the handshake must fail and not one recorded application byte may be
// delivered. The same second of virtual time is used for all connections (the
// time field of the hello randoms is no source of freshness).

var crFaults = []string{"replay-client-stream-full-handshake", "replay-client-stream-resumed", "replay-server-stream-full-handshake", "replay-server-stream-resumed"}
var crReach = []string{"gm-mode", "tls-mode", "second-connection-resumed", "replayed-stream-refused", "honest-connections-completed"}

func init() {
	register(Family{Name: "tls-conn-replay", Prop: "C07", ID: 705, Weight: 1, FaultNames: crFaults, ReachNames: crReach, Run: runConnReplay})
}

func runConnReplay(c *simkit.Choice, r *simkit.Rec) {
	pki.Load()
	gm := c.Bool(2, 3, simkit.LScen)
	suite := gmSuites[c.Choose(2, simkit.LScen)]
	if !gm {
		suite = []uint16{0x002f, 0x009c, 0xc02f, 0x003c}[c.Choose(4, simkit.LScen)]
	}
	tickets := c.Bool(3, 4, simkit.LScen)
	which := c.Choose(2, simkit.LFault)     // stream of the first or of the second connection
	toServer := c.Bool(2, 3, simkit.LFault) // play the client's stream to the server, or the server's stream to the client
	chunk := []int{1 << 20, 1, 7, 100, 1500}[c.Choose(5, simkit.LFault)]
	entC := simkit.NewStream(uint64(c.Choose(1<<31, simkit.LEntropy)) + 61)
	entS := simkit.NewStream(uint64(c.Choose(1<<31, simkit.LEntropy)) + 63)
	pol := simkit.Policy{StarveNode: -1, MeanGap: []int{0, 9}[c.Choose(2, simkit.LScen)]}
	s := simkit.NewSim(c, pol, 6000000)
	mode := map[bool]string{true: "gmssl", false: "tls"}[gm]
	r.Config = fmt.Sprintf("connreplay/%s/%04x/tick%v/conn%d/toserver%v", mode, suite, tickets, which, toServer)
	r.SigStr(r.Config)
	r.Nontrivial = true
	if gm {
		r.Reach(idx(crReach, "gm-mode"))
	} else {
		r.Reach(idx(crReach, "tls-mode"))
	}
	// (no latency is configured: the whole run happens in one second of virtual time)
	ccfg := &gmtls.Config{Rand: entC, Time: simTime(s, 0), ServerName: "server.sim", CipherSuites: []uint16{suite}}
	scfg := &gmtls.Config{Rand: entS, Time: simTime(s, 0), CipherSuites: []uint16{suite}, SessionTicketsDisabled: !tickets}
	if tickets {
		ccfg.ClientSessionCache = gmtls.NewLRUClientSessionCache(2)
	}
	if gm {
		ccfg.GMSupport, scfg.GMSupport = gmtls.NewGMSupport(), gmtls.NewGMSupport()
		ccfg.RootCAs = pki.Pool("caA")
		scfg.Certificates = gmServerCerts("srv-sign", "srv-enc")
	} else {
		ccfg.RootCAs = pki.Pool("rsaCA")
		ccfg.MinVersion, ccfg.MaxVersion = gmtls.VersionTLS12, gmtls.VersionTLS12
		scfg.Certificates = []gmtls.Certificate{pki.GMStd("tlsrsa")}
	}
	type sess struct {
		cerr, serr     error
		resumed        bool
		c2s, s2c       []byte
		srvGot, cliGot []byte
	}
	var hs [2]sess
	var rp sess
	capt := simkit.NetCfg{Capture: true}
	honest := func(i int, done *simkit.Flag) {
		a, b := s.NewConnPair(fmt.Sprintf("cli%d", i), fmt.Sprintf("srv%d", i), capt, capt)
		cd, sd := &simkit.Flag{Name: "c"}, &simkit.Flag{Name: "s"}
		o := &hs[i]
		s.Spawn(fmt.Sprintf("cli%d", i), 0, func() {
			defer cd.Set()
			conn := gmtls.Client(a, ccfg)
			if o.cerr = conn.Handshake(); o.cerr != nil {
				a.Close()
				return
			}
			o.resumed = conn.ConnectionState().DidResume
			conn.Write([]byte(fmt.Sprintf("client-data-of-connection-%d", i)))
			conn.CloseWrite()
			buf := make([]byte, 128)
			for {
				n, err := conn.Read(buf)
				o.cliGot = append(o.cliGot, buf[:n]...)
				if err != nil {
					break
				}
			}
			conn.Close()
		})
		s.Spawn(fmt.Sprintf("srv%d", i), 1, func() {
			defer sd.Set()
			conn := gmtls.Server(b, scfg)
			if o.serr = conn.Handshake(); o.serr != nil {
				b.Close()
				return
			}
			conn.Write([]byte(fmt.Sprintf("server-data-of-connection-%d", i)))
			buf := make([]byte, 128)
			for {
				n, err := conn.Read(buf)
				o.srvGot = append(o.srvGot, buf[:n]...)
				if err != nil {
					break
				}
			}
			conn.Close()
		})
		s.Spawn(fmt.Sprintf("join%d", i), 2, func() {
			s.WaitFlag(cd)
			s.WaitFlag(sd)
			o.c2s = append([]byte(nil), a.WrPipe().Captured()...)
			o.s2c = append([]byte(nil), b.WrPipe().Captured()...)
			done.Set()
		})
	}
	d0, d1 := &simkit.Flag{Name: "d0"}, &simkit.Flag{Name: "d1"}
	honest(0, d0)
	s.Spawn("driver", 3, func() {
		s.WaitFlag(d0)
		honest(1, d1)
		s.WaitFlag(d1)
		// the replay
		a, b := s.NewConnPair("x", "y", simkit.NetCfg{}, simkit.NetCfg{})
		play := func(raw *simkit.Conn, data []byte) {
			for off := 0; off < len(data); off += chunk {
				end := off + chunk
				if end > len(data) {
					end = len(data)
				}
				if _, err := raw.Write(data[off:end]); err != nil {
					break
				}
				simkit.Yield(-33)
			}
			raw.CloseWrite()
			// drain whatever the victim answers, until it hangs up
			buf := make([]byte, 512)
			for {
				if _, err := raw.Read(buf); err != nil {
					break
				}
			}
			raw.Close()
		}
		if toServer {
			s.Spawn("attacker", 2, func() { play(a, hs[which].c2s) })
			conn := gmtls.Server(b, scfg)
			rp.serr = conn.Handshake()
			if rp.serr == nil {
				buf := make([]byte, 128)
				for {
					n, err := conn.Read(buf)
					rp.srvGot = append(rp.srvGot, buf[:n]...)
					if err != nil {
						break
					}
				}
			}
			conn.Close()
			b.Close()
		} else {
			s.Spawn("attacker", 2, func() { play(b, hs[which].s2c) })
			conn := gmtls.Client(a, ccfg)
			rp.cerr = conn.Handshake()
			if rp.cerr == nil {
				buf := make([]byte, 128)
				for {
					n, err := conn.Read(buf)
					rp.cliGot = append(rp.cliGot, buf[:n]...)
					if err != nil {
						break
					}
				}
			}
			conn.Close()
			a.Close()
		}
	})
	s.Run()
	r.FromSim(s)
	item := 0
	if hs[1].resumed && which == 1 {
		item = 1
	}
	if !toServer {
		item += 2
	}
	r.Fault(item)
	site := fmt.Sprintf("%s/%s", mode, crFaults[item])
	r.Detail = map[string]interface{}{"mode": mode, "suite": fmt.Sprintf("%04x", suite), "tickets": tickets, "replayed_connection": which, "to_server": toServer, "chunk": chunk,
		"honest_errs": fmt.Sprintf("%v %v %v %v", hs[0].cerr, hs[0].serr, hs[1].cerr, hs[1].serr), "second_resumed": hs[1].resumed,
		"replay_handshake_err": fmt.Sprintf("%v %v", rp.cerr, rp.serr), "replay_delivered": fmt.Sprintf("%q %q", rp.srvGot, rp.cliGot)}
	s.TaskPanics(r)
	if r.Violation() != nil || r.HarnessErr != "" {
		return
	}
	if s.Reason == simkit.StopBudget || s.Reason == simkit.StopDeadlock {
		r.Violate("no-progress", site, fmt.Sprintf("run did not finish (reason %d): %v", s.Reason, s.Blocked))
		return
	}
	for i := range hs {
		if hs[i].cerr != nil || hs[i].serr != nil || string(hs[i].srvGot) != fmt.Sprintf("client-data-of-connection-%d", i) || string(hs[i].cliGot) != fmt.Sprintf("server-data-of-connection-%d", i) {
			r.Violate("benign-failed", site, fmt.Sprintf("honest connection %d: client=%v server=%v, server read %q, client read %q", i, hs[i].cerr, hs[i].serr, hs[i].srvGot, hs[i].cliGot))
			return
		}
	}
	r.Reach(idx(crReach, "honest-connections-completed"))
	if hs[1].resumed {
		r.Reach(idx(crReach, "second-connection-resumed"))
	}
	if len(rp.srvGot) > 0 || len(rp.cliGot) > 0 {
		r.Violate("replayed-connection-accepted", site, fmt.Sprintf("the recorded byte stream of connection %d, played to a fresh %s, made it deliver %q%q to its application", which, map[bool]string{true: "server connection", false: "client connection"}[toServer], rp.srvGot, rp.cliGot))
		return
	}
	if (toServer && rp.serr == nil) || (!toServer && rp.cerr == nil) {
		r.Violate("replayed-connection-accepted", site, fmt.Sprintf("the recorded byte stream of connection %d, played to a fresh endpoint, completed its handshake", which))
		return
	}
	r.Reach(idx(crReach, "replayed-stream-refused"))
	r.Outcome = "replay-refused"
}
