package scen

// wireCheckGM decodes the captured GMSSL session with the independent
// reference implementation (reftls). Placeholder until reftls lands.
func wireCheckGM(c2s, s2c []byte, cr, sr *endRes, payC, payS []byte, p *benignParams) string {
	return ""
}
