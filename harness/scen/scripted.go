package scen

import (
	"bytes"
	"crypto/rsa"
	"crypto/sha1"
	"fmt"
	"io"
	"math/big"

	"github.com/tjfoc/gmsm/gmtls"
	"github.com/tjfoc/gmsm/verifsim/pki"
	"github.com/tjfoc/gmsm/verifsim/ref/refsm2"
	"github.com/tjfoc/gmsm/verifsim/ref/reftls"
	"github.com/tjfoc/gmsm/verifsim/simkit"
)

// C15: one gmtls endpoint against the scripted reference peer. The peer keeps
// its own honest transcript, so every deviation that changes handshake bytes
// also makes the Finished values disagree: the endpoint must never complete.

var scriptFaults = []string{"replace-type", "duplicate", "omit", "truncate-body", "truncate-body+close", "set-byte", "handshake-length", "insert-record", "close-before", "close-inside", "stall", "fragment(legal)", "coalesce(legal)", "replace-body", "record-version", "oversize-record", "warning-alerts", "empty-record", "length-field", "finished-early", "plaintext-finished", "swap-with-next", "extend-body",
	"hello-version", "hello-suites", "hello-compression", "server-bad-selection", "server-cert-list", "deadline", "crafted-key-exchange", "malformed-extensions", "cert-message-omitted", "ecdhe-server-params"}
var scriptReach = []string{"honest-client-vs-gm-server", "honest-client-vs-auto-server", "honest-server-vs-gm-client", "must-complete-completed", "must-fail-failed", "unspecified-ok", "eut-client", "eut-server-gm", "eut-server-auto", "eut-server-tls", "alert-from-eut", "timeout-at-deadline", "legit-wait", "client-auth-path", "dev-in-client-flight", "dev-in-server-flight", "dev-after-ccs", "scripted-tls12-peer", "honest-tls12-client-vs-auto-server", "honest-tls12-client-vs-tls-server", "honest-tls12-server-vs-tls-client", "npn-negotiated", "unnegotiated-optional-message-refused", "honest-ecdhe-completed", "server-version-bounds", "server-getconfigforclient"}

func init() {
	register(Family{Name: "tls-scripted-peer", Prop: "C15", ID: 1501, Weight: 7, FaultNames: scriptFaults, ReachNames: scriptReach, Run: runScriptedPeer})
}

const (
	expComplete = 1
	expFail     = 2
	expAny      = 0
)

type scriptRun struct {
	EUTServer  bool // endpoint under test is the server
	TLS        bool // the scripted peer speaks TLS 1.2 with RSA key exchange instead of GM/T 0024
	SMode      int  // server mode when the EUT is the server
	Suite      uint16
	ClientAuth bool
	Devs       []*reftls.Dev
	Expect     int
	Why        string
	// hello-level content deviations (scripted client)
	Vers     uint16
	VersSet  bool
	Suites   []uint16
	Compress []byte
	// scripted server deviations
	SrvVers       uint16
	SrvChoose     uint16
	SrvCompress   uint8
	SrvCertList   [][]byte
	Deadline      int64
	ExtraExt      bool
	ExtraExts     []reftls.Ext
	IgnoreCertReq bool
	ShareSuffix   []byte // scripted client: bytes appended to its ECDHE key share
	// scripted ECDHE server deviations
	SrvECDHECurve, SrvECDHEWireCurve uint16
	SrvECDHEPoint                    []byte
	SrvSKXWrongKey, SrvSKXStale      bool
	SrvSKXOverList                   bool   // GM: sign the ServerKeyExchange over the second entry of the substituted certificate list
	SrvSKXSigAlg                     uint16 // TLS ECDHE: SignatureAndHashAlgorithm named in the ServerKeyExchange (signature bytes stay RSA/SHA-256)
	EUTNoVerify                      bool   // endpoint under test (client) runs with InsecureSkipVerify
	EUTReneg                         int    // endpoint under test (client): Config.Renegotiation (0 never, 1 once, 2 freely)
	EUTDefaultSuites                 bool   // endpoint under test (GMSSL client) keeps the default suite list
	GMECDHECurve                     uint16 // scripted GM server: curve id named in the ECDHE-SM2 parameters
	GMECDHEBadPoint                  int
	EUTGetConfig                     bool   // endpoint under test (server) answers through GetConfigForClient
	EUTMaxVers, EUTMinVers           uint16 // version bounds of the endpoint under test
	NPN                              bool   // scripted client and server under test negotiate NPN: one more client unit (NextProtocol)
	NPNOfferOnly                     bool   // the scripted client offers NPN, the server under test has no protocols configured
	NPNSkip                          bool   // NPN negotiated, but the client never sends NextProtocol (consistent transcript)
}

// number of outgoing units of the honest peer (for drawing At)
func honestUnits(eutServer, clientAuth, tls bool) int {
	if !eutServer && tls {
		// scripted TLS server: SH Cert [CR] SHD | CCS Fin
		if clientAuth {
			return 6
		}
		return 5
	}
	if eutServer {
		// scripted client: CH | [Cert] CKX [CV] CCS Fin
		if clientAuth {
			return 6
		}
		return 4
	}
	// scripted server: SH Cert SKX [CR] SHD | CCS Fin
	if clientAuth {
		return 7
	}
	return 6
}

func drawDev(c *simkit.Choice, units int) (*reftls.Dev, int, string) {
	d := &reftls.Dev{At: c.Choose(units, simkit.LFault)}
	exp := expFail
	why := ""
	k := c.Weighted([]int{3, 3, 3, 3, 3, 4, 2, 4, 3, 3, 1, 3, 2, 2, 2, 1, 2, 1, 6, 0, 2, 4, 4}, simkit.LFault)
	d.Kind = k + 1
	switch d.Kind {
	case reftls.DevReplaceType:
		d.Val = []int{0, 1, 2, 4, 11, 12, 13, 14, 15, 16, 20, 3, 99}[c.Choose(13, simkit.LFault)]
		why = fmt.Sprintf("message sent with handshake type %d", d.Val)
	case reftls.DevDuplicate:
		why = "message sent twice"
	case reftls.DevOmit:
		why = "mandatory message omitted"
	case reftls.DevTruncBody:
		d.N = c.Choose(1<<16, simkit.LFault)
		why = "body truncated (length adjusted)"
	case reftls.DevTruncBodyKeepLen:
		d.N = c.Choose(1<<16, simkit.LFault)
		why = "body truncated, stream ended"
	case reftls.DevSetByte:
		d.N = c.Choose(1<<16, simkit.LFault)
		d.Val = []int{0, 1, 0xff, 0x7f, 0x80}[c.Choose(5, simkit.LFault)]
		why = "one body byte (length/count fields included) rewritten"
	case reftls.DevHsLen:
		d.Val = []int{0, 1, 65537, 0xffffff, 70000}[c.Choose(5, simkit.LFault)]
		why = "handshake length field rewritten"
	case reftls.DevInsertRecord:
		switch c.Choose(11, simkit.LFault) {
		case 8:
			d.Typ, d.RecBody = reftls.RecApp, []byte{}
			why = "empty application-data record during the handshake"
		case 9:
			d.Typ, d.RecBody = reftls.RecCCS, []byte{}
			why = "empty ChangeCipherSpec record"
		case 10:
			d.Typ, d.RecBody = reftls.RecAlert, []byte{}
			why = "empty alert record"
		case 6:
			d.Typ, d.RecBody = reftls.RecHandshake, reftls.Handshake(reftls.HsHelloRequest, nil)
			why = "extra HelloRequest inserted"
		case 7:
			t := []uint8{1, 2, 4, 11, 12, 13, 14, 15, 16, 20, 3, 22, 67, 21, 23, 24, 5, 254}[c.Choose(18, simkit.LFault)]
			d.RecBody = reftls.Handshake(t, drawData(c, c.Range(0, 12, simkit.LFault)))
			d.Typ = reftls.RecHandshake
			why = fmt.Sprintf("extra handshake message of type %d inserted", t)
			if c.Bool(1, 2, simkit.LFault) {
				// the peer is consistent about its extra message: it hashes it too, so
				// only the endpoint's state machine can refuse it
				d.InTranscript = true
				why += " (and hashed by the peer)"
				if t == 13 {
					exp = expAny // a well-formed CertificateRequest at the right place is a legal message
				}
			}
		case 0:
			d.Typ, d.RecBody = reftls.RecApp, []byte("application data before Finished")
			why = "application data during the handshake"
		case 1:
			d.Typ, d.RecBody = reftls.RecCCS, []byte{1}
			why = "ChangeCipherSpec at the wrong moment"
		case 2:
			d.Typ, d.RecBody = reftls.RecCCS, []byte{2}
			why = "malformed ChangeCipherSpec"
		case 3:
			d.Typ, d.RecBody = 99, []byte{1, 2, 3}
			why = "unknown record type"
		case 4:
			d.Typ, d.RecBody = reftls.RecAlert, []byte{2, 40}
			why = "fatal alert"
		case 5:
			d.Typ, d.RecBody = reftls.RecAlert, []byte{1}
			why = "alert record of length 1"
		}
	case reftls.DevCloseBefore:
		why = "stream ended before the message"
	case reftls.DevCloseInside:
		d.N = c.Choose(1<<16, simkit.LFault)
		why = "stream ended inside the record"
	case reftls.DevStallBefore:
		why = "peer stalls"
		exp = expAny
	case reftls.DevFragment:
		d.N = c.Choose(1<<16, simkit.LFault)
		exp = expComplete
		why = "handshake message split over two records (legal)"
	case reftls.DevCoalesce:
		exp = expComplete
		why = "two handshake messages in one record (legal)"
	case reftls.DevReplaceBody:
		d.RecBody = drawData(c, c.Range(0, 40, simkit.LFault))
		why = "body replaced by unrelated bytes"
	case reftls.DevRecordVersion:
		d.Val = []int{0x0100, 0x0301, 0x0303, 0x0000, 0x0201}[c.Choose(5, simkit.LFault)]
		why = fmt.Sprintf("record version %04x", d.Val)
	case reftls.DevOversizeRecord:
		d.Val = 16384 + 2048 + 1 + c.Choose(2000, simkit.LFault)
		why = "oversized record"
	case reftls.DevWarnings:
		d.N = []int{1, 5, 6, 9}[c.Choose(4, simkit.LFault)]
		d.Val = []int{90, 100, 41}[c.Choose(3, simkit.LFault)]
		if d.N <= 5 {
			exp = expAny
		}
		why = fmt.Sprintf("%d warning alerts", d.N)
	case reftls.DevEmptyRecord:
		exp = expAny
		why = "empty handshake record"
	case reftls.DevLenField:
		d.N = c.Choose(64, simkit.LFault)
		d.Val = []int{1, 2, 3, -1, -2, -3, 255, -100000, 65536, 256, -256, 512, 0x100 * 3}[c.Choose(13, simkit.LFault)]
		why = fmt.Sprintf("one length/count field inside the message %+d", d.Val)
		if c.Bool(1, 2, simkit.LFault) {
			d.InTranscript = true
			why += " (hashed by the peer as sent)"
		}
	case reftls.DevExtendBody:
		d.RecBody = drawData(c, c.Range(1, 8, simkit.LFault))
		why = "bytes appended behind the message body (handshake length adjusted, hashed by the peer as sent)"
	case reftls.DevSwapNext:
		why = "message changes places with the one after it (hashed and signed in the order sent)"
	case reftls.DevPlainFinished:
		d.At = units - 2 // the ChangeCipherSpec unit
		d.Typ = []uint8{0, 0, 1, 11, 20}[c.Choose(5, simkit.LFault)]
		d.Val = c.Choose(2, simkit.LFault) // 1: send HelloRequest (type 0) in place of ChangeCipherSpec
		why = "ChangeCipherSpec omitted, Finished sent in plaintext"
	}
	return d, exp, why
}

func runScriptedPeer(c *simkit.Choice, r *simkit.Rec) {
	pki.Load()
	var sr scriptRun
	sr.EUTServer = c.Bool(3, 5, simkit.LScen)
	sr.Suite = gmSuites[c.Choose(2, simkit.LScen)]
	sr.ClientAuth = c.Bool(1, 3, simkit.LScen)
	if sr.EUTServer {
		sr.SMode = c.Weighted([]int{4, 3, 1}, simkit.LScen)
	}
	sr.TLS = c.Bool(1, 3, simkit.LScen)
	if sr.TLS {
		sr.Suite = tlsRefSuites[c.Choose(len(tlsRefSuites), simkit.LScen)]
		if sr.EUTServer {
			sr.SMode = c.Weighted([]int{1, 6, 6}, simkit.LScen)
		}
	}
	// a GM-only server never completes with a TLS client, nor a TLS-only server with a GM client
	if sr.EUTServer {
		sr.EUTGetConfig = c.Bool(1, 3, simkit.LScen)
		if c.Bool(1, 8, simkit.LScen) {
			// version bounds on the server under test (whatever they make of an honest
			// script: an error or a completion, never a crash or a hang)
			sr.EUTMaxVers = []uint16{gmtls.VersionGMSSL, gmtls.VersionTLS10, gmtls.VersionTLS11, gmtls.VersionTLS12, gmtls.VersionSSL30}[c.Choose(5, simkit.LScen)]
			if c.Bool(1, 3, simkit.LScen) {
				sr.EUTMinVers = []uint16{gmtls.VersionGMSSL, gmtls.VersionTLS11, gmtls.VersionTLS12}[c.Choose(3, simkit.LScen)]
			}
		}
	}
	if !sr.EUTServer {
		// a client that would accept a renegotiation later must be just as strict
		// about the order of the first handshake
		sr.EUTReneg = c.Weighted([]int{3, 1, 1}, simkit.LScen)
	}
	mismatch := sr.EUTServer && ((sr.SMode == modeTLS && !sr.TLS) || (sr.SMode == modeGM && sr.TLS))
	sr.Expect = expComplete
	sr.Why = "honest"
	ecdhe := sr.TLS && reftls.Suite(sr.Suite).ECDHE
	var curves []uint16
	if sr.TLS {
		curves = [][]uint16{{23}, {24}, {25}, {23, 24, 25}, {25, 24, 23}, {24, 23}, {29}, {29, 23}, {23, 29}}[c.Choose(9, simkit.LScen)]
	}
	units := honestUnits(sr.EUTServer, sr.ClientAuth, sr.TLS && !ecdhe)
	if sr.EUTServer && c.Bool(1, 4, simkit.LScen) {
		sr.NPN = true
		units++ // CH | [Cert] CKX [CV] CCS NextProtocol Fin
	}
	ccsAt := units - 2
	if sr.NPN {
		ccsAt = units - 3
	}
	class := c.Weighted([]int{2, 10, 3, 2, 2, 1}, simkit.LScen) // honest, wire deviations, hello/selection content, deadline, unnegotiated optional message, Finished across the key change
	if class == 5 && !sr.EUTServer {
		class = 1
	}
	crafted := false
	malformedExt := false
	if mismatch && class != 2 {
		class = 2 // the server only ever sees the ClientHello of a client of the other protocol family
	}
	if class == 2 && !mismatch && c.Bool(1, 8, simkit.LScen) {
		class = 6
	}
	switch class {
	case 6:
		// a well-formed, honestly hashed message that is larger than one record may
		// be, sent in a single unprotected record of 16 385 .. 18 432 bytes instead of
		// being fragmented: record_overflow, whatever the content
		sr.Expect = expFail
		if sr.EUTServer {
			n := c.Range(16400, 18000, simkit.LFault)
			sr.ExtraExts = []reftls.Ext{{Type: 0xfabd, Data: make([]byte, n)}}
			sr.Why = "ClientHello of more than 2^14 bytes (large unknown extension) sent in one plaintext record"
		} else {
			var list [][]byte
			if sr.TLS {
				list = append([][]byte{pki.DER("tlsrsa")}, bigExtras(false, 16300)...)
			} else {
				list = append([][]byte{pki.DER("srv-sign"), pki.DER("srv-enc")}, bigExtras(true, 15600)...)
			}
			sr.SrvCertList = list
			sr.Why = "Certificate message of more than 2^14 bytes sent in one plaintext record"
		}
	case 1:
		nd := 1 + c.Weighted([]int{6, 2, 1}, simkit.LFault)
		sr.Expect = expComplete
		for i := 0; i < nd; i++ {
			d, exp, why := drawDev(c, units)
			if d.Kind == reftls.DevPlainFinished {
				d.At = ccsAt
			}
			if d.Kind == reftls.DevCoalesce {
				// only where the next unit is a handshake message of the same flight
				var ok []int
				switch {
				case !sr.EUTServer && sr.TLS && !ecdhe && sr.ClientAuth:
					ok = []int{0, 1, 2} // SH Cert CR | SHD
				case !sr.EUTServer && sr.TLS && !ecdhe:
					ok = []int{0, 1} // SH Cert | SHD
				case !sr.EUTServer && sr.ClientAuth:
					ok = []int{0, 1, 2, 3} // SH Cert SKX CR | SHD
				case !sr.EUTServer:
					ok = []int{0, 1, 2} // SH Cert SKX | SHD
				case sr.ClientAuth:
					ok = []int{1, 2} // Cert CKX | CV
				}
				if len(ok) == 0 {
					d.Kind = reftls.DevFragment
					d.N = c.Choose(1<<16, simkit.LFault)
					why = "handshake message split over two records (legal)"
				} else {
					d.At = ok[c.Choose(len(ok), simkit.LFault)]
				}
			}
			dupAt := false
			for _, o := range sr.Devs {
				if o.At == d.At {
					dupAt = true
				}
			}
			if dupAt {
				continue
			}
			sr.Devs = append(sr.Devs, d)
			if i == 0 {
				sr.Why = why
			} else {
				sr.Why += " + " + why
			}
			switch {
			case exp == expFail:
				sr.Expect = expFail
			case exp == expAny && sr.Expect != expFail:
				sr.Expect = expAny
			}
		}
	case 2:
		if sr.EUTServer {
			nsub := 6
			if sr.ClientAuth {
				nsub = 7
			}
			sub2 := c.Choose(nsub, simkit.LFault)
			if sr.NPN && c.Bool(1, 3, simkit.LFault) {
				sub2 = 7
			}
			if ecdhe && c.Bool(1, 4, simkit.LFault) {
				sub2 = 8
			}
			switch sub2 {
			case 8:
				// the client's ECDHE share carries extra bytes behind the genuine point
				// (covered by its length byte, hashed as sent, secret computed from the
				// genuine part): a share of the wrong size, whatever the curve
				sr.ShareSuffix = drawData(c, 1+c.Choose(3, simkit.LFault))
				sr.Expect = expFail
				sr.Why = "ECDHE key share with trailing bytes (consistent transcript)"
			case 7:
				// NPN was negotiated but the client goes straight from ChangeCipherSpec to
				// Finished, hashing accordingly
				sr.NPNSkip = true
				sr.Expect = expFail
				sr.Why = "negotiated NextProtocol message omitted altogether (consistent transcript)"
			case 6:
				// the client acts as if no certificate had been requested: no Certificate
				// message at all (not even an empty one), consistent transcript
				sr.IgnoreCertReq = true
				sr.Expect = expFail
				sr.Why = "requested client Certificate message omitted altogether (consistent transcript)"
			case 5:
				// well-known extensions with malformed or unusual bodies
				types := []uint16{0, 10, 11, 13, 16, 35, 5, 18, 0xff01, 23, 15}
				n := 1 + c.Choose(3, simkit.LFault)
				for i := 0; i < n; i++ {
					t := types[c.Choose(len(types), simkit.LFault)]
					var body []byte
					switch c.Choose(4, simkit.LFault) {
					case 0:
						body = nil
					case 1:
						body = drawData(c, c.Range(1, 9, simkit.LFault))
					case 2:
						body = []byte{0xff, 0xff, 0x00}
					case 3:
						body = append([]byte{0x00, 0x40}, drawData(c, 6)...)
					}
					dup := false
					for _, e := range sr.ExtraExts {
						if e.Type == t {
							dup = true
						}
					}
					if !dup && t != 0 && t != 35 {
						sr.ExtraExts = append(sr.ExtraExts, reftls.Ext{Type: t, Data: body})
					}
				}
				sr.Expect = expAny
				sr.Why = fmt.Sprintf("ClientHello with %d malformed well-known extensions", len(sr.ExtraExts))
				malformedExt = true
			case 4:
				if ecdhe {
					// ClientKeyExchange whose ECDHE point is malformed or not on the curve
					size := map[uint16]int{23: 32, 24: 48, 25: 66, 29: 16}[curves[0]]
					kind := c.Choose(8, simkit.LFault)
					var pt []byte
					switch kind {
					case 0:
						pt = nil
					case 1:
						pt = []byte{0} // point at infinity
					case 2:
						pt = append([]byte{4}, drawData(c, 2*size)...) // right size, not on the curve
						pt[1] &= 0
					case 3:
						pt = append([]byte{4}, drawData(c, 2*size-1)...)
					case 4:
						pt = append([]byte{4}, make([]byte, 2*size)...)
					case 5:
						pt = append([]byte{4}, bytes.Repeat([]byte{0xff}, 2*size)...) // coordinates >= p
					case 6:
						pt = append([]byte{2}, drawData(c, size)...) // compressed form
					case 7:
						pt = append([]byte{4}, drawData(c, 2*size+c.Range(1, 30, simkit.LFault))...)
					}
					body := reftls.Vec8Body(pt)
					at := 1
					if sr.ClientAuth {
						at = 2
					}
					sr.Devs = []*reftls.Dev{{At: at, Kind: reftls.DevReplaceBody, RecBody: body}}
					sr.Expect = expFail
					sr.Why = fmt.Sprintf("ClientKeyExchange with a malformed ECDHE point (kind %d, curve %d)", kind, curves[0])
					crafted = true
					break
				}
				if sr.TLS {
					// ClientKeyExchange whose RSA ciphertext is malformed or decrypts to something
					// that is not a pre-master secret (RFC 5246 §7.4.7.1: continue with a random
					// secret, so the failure shows at Finished)
					kind := c.Choose(6, simkit.LFault)
					var ct []byte
					switch kind {
					case 0:
						ct = nil
					case 1:
						ct = drawData(c, c.Range(1, 255, simkit.LFault))
					case 2:
						ct = drawData(c, 256)
						ct[0] &= 0x7f
					case 3:
						ct = bytes.Repeat([]byte{0xff}, 256) // >= modulus
					case 4:
						ct = drawData(c, 257+c.Choose(40, simkit.LFault))
					case 5:
						ct = make([]byte, 256) // zero
					}
					body := reftls.Vec16Body(ct)
					if kind == 1 && c.Bool(1, 2, simkit.LFault) {
						body = ct // no length prefix at all
					}
					at := 1
					if sr.ClientAuth {
						at = 2
					}
					sr.Devs = []*reftls.Dev{{At: at, Kind: reftls.DevReplaceBody, RecBody: body}}
					sr.Expect = expFail
					sr.Why = fmt.Sprintf("ClientKeyExchange with a malformed RSA ciphertext (kind %d)", kind)
					crafted = true
					break
				}
				// ClientKeyExchange carrying a malformed GM/T 0009 SM2Cipher structure
				var x, y *big.Int = big.NewInt(1), big.NewInt(2)
				hash := drawData(c, 32)
				ct := drawData(c, 48)
				kind := c.Choose(8, simkit.LFault)
				switch kind {
				case 0:
					hash = hash[:c.Choose(32, simkit.LFault)]
				case 1:
					ct = nil
				case 2:
					hash = append(hash, drawData(c, 1+c.Choose(40, simkit.LFault))...)
				case 3:
					x = new(big.Int).Lsh(big.NewInt(1), 300)
				case 4:
					x, y = big.NewInt(0), big.NewInt(0)
				case 5:
					y = new(big.Int).Lsh(big.NewInt(3), 520)
				case 6:
					hash, ct = nil, nil
				}
				body := reftls.Vec16Body(refsm2.MarshalCiphertextASN1(x, y, hash, ct))
				if kind == 7 {
					body = reftls.Vec16Body(drawData(c, c.Range(1, 120, simkit.LFault)))
				}
				at := 1
				if sr.ClientAuth {
					at = 2
				}
				sr.Devs = []*reftls.Dev{{At: at, Kind: reftls.DevReplaceBody, RecBody: body}}
				sr.Expect = expFail
				sr.Why = fmt.Sprintf("ClientKeyExchange with a malformed SM2 ciphertext structure (kind %d)", kind)
				crafted = true
			case 0:
				// version sweep 0x0000..0x0400, dense around the real versions
				if c.Bool(1, 2, simkit.LFault) {
					sr.Vers = []uint16{0x0000, 0x0100, 0x0102, 0x0200, 0x02ff, 0x0300, 0x0301, 0x0302, 0x0303, 0x0304, 0x0400, 0x0101}[c.Choose(12, simkit.LFault)]
				} else {
					sr.Vers = uint16(c.Choose(0x0401, simkit.LFault))
				}
				sr.VersSet = true
				sr.Expect = expAny
				if sr.Vers == 0x0101 && sr.SMode != modeTLS {
					sr.Expect = expComplete
				}
				if sr.Vers < 0x0101 {
					sr.Expect = expFail
				}
				sr.Why = fmt.Sprintf("ClientHello version %04x", sr.Vers)
				if sr.TLS {
					// TLS 1.2 is the only TLS version the scripted client can carry on with: a
					// lower selection makes it end the stream after the ServerHello
					sr.Why = fmt.Sprintf("TLS ClientHello version %04x", sr.Vers)
					switch {
					case sr.Vers == 0x0303:
						sr.Expect = expComplete
					case sr.Vers > 0x0303:
						sr.Expect = expAny // RFC 5246 appendix E: answer with the highest supported version
					default:
						sr.Expect = expFail
					}
					break
				}
				if sr.SMode != modeGM && c.Bool(2, 3, simkit.LFault) {
					// offer RSA key-exchange TLS suites too, so that a TLS-capable server
					// gets past suite selection with this version number
					sr.Suites = []uint16{0x002f, 0x0035, 0x009c, sr.Suite}
					sr.Why += " with TLS suites"
					if sr.Vers == 0x0101 {
						sr.Expect = expAny
					}
					if sr.Vers >= 0x0303 {
						// a TLS-capable server may select TLS 1.2 with an RSA suite, which the
						// scripted client then carries through
						mismatch = false
						sr.Expect = expAny
					}
				}
			case 1:
				switch c.Choose(5, simkit.LFault) {
				case 0:
					sr.Suites = []uint16{}
					sr.Expect = expFail
					sr.Why = "empty suite list"
				case 1:
					sr.Suites = []uint16{0x1234, 0xfffe, 0x0005}
					sr.Expect = expFail
					sr.Why = "only unknown suites"
				case 2:
					sr.Suites = []uint16{0xe011, 0xe051}
					sr.Expect = expFail
					sr.Why = "only ECDHE-SM2 suites"
					if sr.TLS {
						sr.Suites = []uint16{0xc013, 0xc02b, 0xc02f}
						sr.Expect = expComplete
						sr.Why = "ECDHE suites only, the usable one last (legal)"
					}
				case 3:
					sr.Suites = []uint16{0x1234, sr.Suite, 0x00ff, 0xfffe}
					sr.Expect = expComplete
					sr.Why = "known suite among unknown ones (legal)"
				case 4:
					sr.Suites = []uint16{0xe011, sr.Suite}
					sr.Expect = expAny // client prefers the unimplemented ECDHE suite
					sr.Why = "ECDHE first, then implemented suite"
					if sr.TLS {
						sr.Suites = []uint16{0xe013, 0xe053, sr.Suite}
						sr.Why = "GM suites offered in a TLS 1.2 hello, then an RSA suite"
					}
				}
			case 2:
				if c.Bool(1, 2, simkit.LFault) {
					sr.Compress = []byte{1}
					sr.Expect = expFail
					sr.Why = "compression list without null"
				} else {
					sr.Compress = []byte{1, 0}
					sr.Expect = expComplete
					sr.Why = "compression list containing null among others (legal)"
				}
			case 3:
				sr.ExtraExt = true
				sr.Expect = expComplete
				sr.Why = "unknown extension (legal)"
			}
			if mismatch {
				sr.Expect = expFail
			}
		} else {
			sub := c.Choose(5, simkit.LFault)
			if ecdhe && c.Bool(1, 2, simkit.LFault) {
				sub = 5
			}
			if !sr.TLS && c.Bool(1, 6, simkit.LFault) {
				sub = 6
			}
			switch {
			case sub == 6:
				// the server picks an ECDHE-SM2 suite (the GMSSL client offers them by default)
				// and sends ECDHE parameters it has signed with its SM2 key: a genuine SM2
				// point under a curve name of its choosing, or a malformed point
				sr.SrvChoose = []uint16{0xe011, 0xe051}[c.Choose(2, simkit.LFault)]
				sr.EUTDefaultSuites = true
				sr.GMECDHECurve = []uint16{0x9999, 23, 24, 29, 0, 0xffff, 249}[c.Choose(7, simkit.LFault)]
				sr.GMECDHEBadPoint = c.Choose(4, simkit.LFault) // 0: genuine point
				sr.Why = fmt.Sprintf("ECDHE-SM2 suite %04x selected, signed parameters naming curve %d (point kind %d)", sr.SrvChoose, sr.GMECDHECurve, sr.GMECDHEBadPoint)
			case sub == 5:
				// ECDHE ServerKeyExchange with bad parameters (signed consistently, so only
				// the parameter checks can refuse them) or a bad signature
				size := 32
				kind := c.Choose(9, simkit.LFault)
				sr.SrvECDHECurve = 23
				switch kind {
				case 0:
					sr.SrvECDHEPoint = []byte{}
				case 1:
					sr.SrvECDHEPoint = []byte{0}
				case 2:
					sr.SrvECDHEPoint = append([]byte{4}, drawData(c, 2*size)...)
				case 3:
					sr.SrvECDHEPoint = append([]byte{4}, make([]byte, 2*size)...)
				case 4:
					sr.SrvECDHEPoint = append([]byte{4}, drawData(c, 2*size-1)...)
				case 5:
					sr.SrvECDHEWireCurve = []uint16{22, 0x9999, 0xffff, 24, 1}[c.Choose(5, simkit.LFault)] // a P-256 point under another curve's name
					if c.Bool(1, 2, simkit.LFault) {
						// ... or genuine parameters under a signature algorithm the client did not
						// offer, does not implement, or that does not fit the certificate
						sr.SrvECDHEWireCurve = 0
						sr.SrvSKXSigAlg = []uint16{0x0204, 0x0001, 0xffff, 0x0101, 0x0603, 0x0804, 0x0402, 0x0708, 0x0203, 0x0303}[c.Choose(10, simkit.LFault)]
					}
				case 6:
					sr.SrvSKXWrongKey = true
				case 7:
					sr.SrvSKXStale = true
				case 8:
					sr.SrvECDHEPoint = append([]byte{2}, drawData(c, size)...)
				}
				sr.Why = fmt.Sprintf("ECDHE ServerKeyExchange with bad parameters or signature (kind %d)", kind)
				if sr.SrvSKXSigAlg != 0 {
					sr.Why = fmt.Sprintf("ECDHE ServerKeyExchange naming signature algorithm %04x", sr.SrvSKXSigAlg)
				}
			case sub == 4:
				// ServerHello carrying extensions the client did not ask for, or with
				// malformed bodies. Whether each must be refused is not stated by the
				// property: no crash, no hang, no one-sided completion.
				types := []uint16{13172, 16, 5, 35, 0xff01, 0, 10, 11, 23, 18, 0xfabc, 13, 15, 16, 16, 13172, 0}
				n := 1 + c.Choose(3, simkit.LFault)
				for i := 0; i < n; i++ {
					t := types[c.Choose(len(types), simkit.LFault)]
					var body []byte
					switch c.Weighted([]int{1, 2, 1, 1, 1, 4, 2}, simkit.LFault) {
					case 0:
						body = nil
					case 1:
						body = drawData(c, c.Range(1, 9, simkit.LFault))
					case 2:
						body = []byte{0xff, 0xff, 0x00}
					case 3:
						body = append([]byte{0x00, 0x06}, drawData(c, 6)...)
					case 4:
						body = []byte{0}
					case 5:
						// well-framed but empty inner structures: an empty list, a list of one
						// empty string, a list of two entries where one is announced
						body = [][]byte{{0, 0}, {0, 1, 0}, {0, 2, 1, 'h'}, {0, 3, 1, 'h', 0}, {0, 0, 0}, {1, 0}}[c.Choose(6, simkit.LFault)]
					case 6:
						body = [][]byte{{0, 2, 0, 0}, {0, 4, 0, 0, 0, 0}, {0, 1}, {0}}[c.Choose(4, simkit.LFault)]
					}
					dup := false
					for _, e := range sr.ExtraExts {
						if e.Type == t {
							dup = true
						}
					}
					if !dup {
						sr.ExtraExts = append(sr.ExtraExts, reftls.Ext{Type: t, Data: body})
					}
				}
				sr.Why = fmt.Sprintf("ServerHello with %d unsolicited or malformed extensions", len(sr.ExtraExts))
				malformedExt = true
			case sub == 0 && sr.TLS:
				// (a lower TLS version is a legal selection, but the scripted server goes on
				// with TLS 1.2 key derivation, so the Finished values cannot agree)
				sr.SrvVers = []uint16{0x0101, 0x0301, 0x0302, 0x0304, 0x0300, 0x0001, 0x0403}[c.Choose(7, simkit.LFault)]
				sr.Why = fmt.Sprintf("TLS ServerHello version %04x", sr.SrvVers)
			case sub == 1 && sr.TLS:
				sr.SrvChoose = []uint16{0xc02f, 0x1234, 0xe013, 0}[c.Choose(4, simkit.LFault)]
				if sr.SrvChoose == 0 || sr.SrvChoose == sr.Suite {
					sr.SrvChoose = tlsRefSuites[0]
					if sr.Suite == sr.SrvChoose {
						sr.SrvChoose = tlsRefSuites[1]
					}
				}
				sr.Why = fmt.Sprintf("TLS ServerHello selects suite %04x which was not offered", sr.SrvChoose)
			case sub == 3 && sr.TLS:
				switch c.Choose(4, simkit.LFault) {
				case 0:
					sr.SrvCertList = [][]byte{pki.DER("tlsp256"), pki.DER("rsaCA")}
					sr.Why = "RSA key exchange with an ECDSA certificate"
				case 1:
					sr.SrvCertList = [][]byte{pki.DER("srv-sign"), pki.DER("srv-enc")}
					sr.Why = "RSA key exchange with SM2 certificates"
				case 2:
					sr.SrvCertList = [][]byte{}
					sr.Why = "empty certificate list"
				case 3:
					sr.SrvCertList = [][]byte{pki.DER("tlsrsa")[:200]}
					sr.Why = "truncated certificate"
				}
			case sub == 0:
				sr.SrvVers = []uint16{0x0100, 0x0301, 0x0303, 0x0102, 0x0001}[c.Choose(5, simkit.LFault)]
				sr.Why = fmt.Sprintf("ServerHello version %04x", sr.SrvVers)
			case sub == 1:
				sr.SrvChoose = []uint16{0xe011, 0x1234, 0}[c.Choose(3, simkit.LFault)]
				if sr.SrvChoose == 0 {
					// the other implemented suite, which the client did not offer
					sr.SrvChoose = gmSuites[0] + gmSuites[1] - sr.Suite
				}
				sr.Why = fmt.Sprintf("ServerHello selects suite %04x which was not offered", sr.SrvChoose)
			case sub == 2:
				sr.SrvCompress = 1
				sr.Why = "ServerHello selects compression 1"
			case sub == 3:
				switch c.Choose(4, simkit.LFault) {
				case 0:
					sr.SrvCertList = [][]byte{pki.DER("srv-sign")}
					sr.Why = "only one certificate"
				case 1:
					sr.SrvCertList = [][]byte{pki.DER("srvrsa"), pki.DER("srv-enc")}
					sr.Why = "signing certificate with an RSA key"
				case 2:
					sr.SrvCertList = [][]byte{pki.DER("srv-sign"), pki.DER("srvrsa")}
					sr.Why = "encryption certificate with an RSA key"
					if c.Bool(1, 2, simkit.LFault) {
						// the key-exchange signature covers that certificate, as a consistent server's would
						sr.SrvSKXOverList = true
						sr.Why += " (key-exchange signature over it)"
					}
					if c.Bool(1, 2, simkit.LFault) {
						sr.EUTNoVerify = true // the client leaves chain verification to its caller (InsecureSkipVerify)
					}
				case 3:
					sr.SrvCertList = [][]byte{}
					sr.Why = "empty certificate list"
				}
			}
			sr.Expect = expFail
			if sub == 4 {
				sr.Expect = expAny
			}
		}
	case 5:
		// the head of the client's Finished travels in the clear, in the record of the
		// last message before ChangeCipherSpec (handshake messages must not span a key change)
		sr.Devs = []*reftls.Dev{{At: ccsAt - 1, Kind: reftls.DevFinishedEarly, N: c.Choose(16, simkit.LFault)}}
		sr.Expect = expFail
		sr.Why = "head of Finished sent in the clear before ChangeCipherSpec, in the record of the preceding message"
	case 4:
		// A well-formed optional message that was not negotiated (or not asked for),
		// which the peer also hashes: only the endpoint's state machine can refuse it.
		d := &reftls.Dev{Kind: reftls.DevInsertRecord, Typ: reftls.RecHandshake, InTranscript: true}
		if sr.EUTServer {
			switch k := c.Choose(3, simkit.LFault); {
			case k == 0 && !sr.NPN:
				sr.NPNOfferOnly = c.Bool(1, 2, simkit.LFault)
				var w bytes.Buffer
				proto := []string{"h2", "http/1.1", "not-offered", ""}[c.Choose(4, simkit.LFault)]
				w.WriteByte(byte(len(proto)))
				w.WriteString(proto)
				pad := 32 - (len(proto)+2)%32
				w.WriteByte(byte(pad))
				w.Write(make([]byte, pad))
				d.At, d.RecBody = units-1, reftls.Handshake(reftls.HsNextProtocol, w.Bytes())
				sr.Why = "NextProtocol message although NPN was not negotiated"
			case k == 1 && !sr.ClientAuth:
				d.At, d.RecBody = 1, reftls.Handshake(reftls.HsCertificate, reftls.MarshalCertificate(nil))
				if c.Bool(1, 2, simkit.LFault) {
					name := "cli"
					if sr.TLS {
						name = "tlsclirsa"
					}
					d.RecBody = reftls.Handshake(reftls.HsCertificate, reftls.MarshalCertificate([][]byte{pki.DER(name)}))
				}
				sr.Why = "client Certificate message although none was requested"
			default:
				body := reftls.Vec16Body(drawData(c, 70))
				if sr.TLS {
					body = reftls.CertVerify12Body(reftls.SigRSAPKCS1SHA256, drawData(c, 256))
				}
				d.At, d.RecBody = ccsAt, reftls.Handshake(reftls.HsCertificateVerify, body)
				if sr.ClientAuth {
					sr.Why = "second CertificateVerify message"
				} else {
					sr.Why = "CertificateVerify message without a client certificate"
				}
			}
		} else {
			switch c.Choose(3, simkit.LFault) {
			case 0:
				resp := drawData(c, c.Range(4, 40, simkit.LFault))
				body := append([]byte{1, 0, byte(len(resp) >> 8), byte(len(resp))}, resp...)
				d.At, d.RecBody = 2, reftls.Handshake(reftls.HsCertificateStatus, body)
				sr.Why = "CertificateStatus message although status_request was not negotiated"
			case 1:
				nst := &reftls.NewSessionTicket{Lifetime: 3600, Ticket: drawData(c, c.Range(0, 64, simkit.LFault))}
				d.At, d.RecBody = ccsAt, reftls.Handshake(reftls.HsNewSessionTicket, nst.Marshal())
				sr.Why = "NewSessionTicket message although the ServerHello did not announce one"
			case 2:
				d.At, d.RecBody = units-3, reftls.Handshake(reftls.HsServerHelloDone, nil)
				sr.Why = "second ServerHelloDone"
			}
		}
		sr.Devs = []*reftls.Dev{d}
		sr.Expect = expFail
	case 3:
		d := &reftls.Dev{At: c.Choose(units, simkit.LFault), Kind: reftls.DevStallBefore}
		sr.Devs = []*reftls.Dev{d}
		sr.Deadline = []int64{1e6, 5e9, 30e9}[c.Choose(3, simkit.LFault)]
		sr.Expect = expFail
		sr.Why = "peer stalls; endpoint has a read deadline"
	}
	net1, net2 := simkit.DrawNetCfg(c), simkit.DrawNetCfg(c)
	pol := simkit.Policy{StarveNode: -1, MeanGap: []int{0, 7}[c.Choose(2, simkit.LScen)]}
	entE := simkit.NewStream(uint64(c.Choose(1<<31, simkit.LEntropy)) + 31)
	entP := simkit.NewStream(uint64(c.Choose(1<<31, simkit.LEntropy)) + 37)

	s := simkit.NewSim(c, pol, 2000000)
	eutRaw, peerRaw := s.NewConnPair("eut", "peer", net1, net2)
	var eut endRes
	var eutApp []byte
	eutFinished := false
	var eutRetAt int64 = -1 // virtual time at which the endpoint's Handshake returned
	var again, postReadErr, postWriteErr error
	postN := 0
	var peerRes *reftls.Result
	var peerErr error
	var pc *reftls.Conn
	never := &simkit.Flag{Name: "never"}

	// --- endpoint under test
	s.Spawn("eut", 0, func() {
		var conn *gmtls.Conn
		if sr.EUTServer {
			cfg := &gmtls.Config{Rand: entE, Time: simTime(s, 0), SessionTicketsDisabled: true}
			switch sr.SMode {
			case modeGM:
				cfg.GMSupport = gmtls.NewGMSupport()
				cfg.Certificates = gmServerCerts("srv-sign", "srv-enc")
			case modeAuto:
				sg, en, st := pki.GM("srv-sign"), pki.GM("srv-enc"), pki.GMStd("tlsrsa")
				acfg, _ := gmtls.NewBasicAutoSwitchConfig(&sg, &en, &st)
				acfg.Rand, acfg.Time, acfg.SessionTicketsDisabled = entE, simTime(s, 0), true
				cfg = acfg
			case modeTLS:
				cfg.Certificates = []gmtls.Certificate{pki.GMStd("tlsrsa")}
			}
			if sr.ClientAuth {
				cfg.ClientAuth = gmtls.RequireAndVerifyClientCert
				cfg.ClientCAs = pki.Pool("caA")
				if sr.TLS {
					cfg.ClientCAs = pki.Pool("rsaCA")
				}
			}
			if sr.NPN {
				cfg.NextProtos = []string{"h2", "http/1.1"}
			}

			if sr.TLS && sr.Suite == reftls.SuiteRSAAES128CBC2 {
				// off by default in the Go lineage: list it
				cfg.CipherSuites = append([]uint16{sr.Suite}, tlsRefSuites...)
			}
			cfg.MaxVersion, cfg.MinVersion = sr.EUTMaxVers, sr.EUTMinVers
			if sr.EUTGetConfig {
				// the listener's configuration answers through GetConfigForClient
				inner := cfg
				cfg = inner.Clone()
				cfg.GetConfigForClient = func(*gmtls.ClientHelloInfo) (*gmtls.Config, error) { return inner, nil }
			}
			conn = gmtls.Server(eutRaw, cfg)
		} else if sr.TLS {
			cfg := &gmtls.Config{Rand: entE, Time: simTime(s, 0), RootCAs: pki.Pool("rsaCA"), ServerName: "server.sim", CipherSuites: []uint16{sr.Suite}, Renegotiation: gmtls.RenegotiationSupport(sr.EUTReneg)}
			if sr.ClientAuth {
				cfg.Certificates = []gmtls.Certificate{pki.GMStd("tlsclirsa")}
			}
			conn = gmtls.Client(eutRaw, cfg)
		} else {
			cfg := &gmtls.Config{GMSupport: gmtls.NewGMSupport(), Rand: entE, Time: simTime(s, 0), RootCAs: pki.Pool("caA"), ServerName: "server.sim", CipherSuites: []uint16{sr.Suite}, InsecureSkipVerify: sr.EUTNoVerify, Renegotiation: gmtls.RenegotiationSupport(sr.EUTReneg)}
			if sr.EUTDefaultSuites {
				cfg.CipherSuites = nil
			}
			if sr.ClientAuth {
				cfg.Certificates = []gmtls.Certificate{pki.GM("cli")}
			}
			conn = gmtls.Client(eutRaw, cfg)
		}
		if sr.Deadline > 0 {
			eutRaw.SetReadDeadlineNS(s.Now + sr.Deadline)
		}
		eut.HsErr = conn.Handshake()
		eutRetAt = s.Now
		collectState(conn, &eut)
		if eut.HsErr != nil {
			// the failure must be sticky and must leave no lock behind: a second
			// Handshake, a Read, a Write and Close all have to return (with errors),
			// also when the application lifts the deadline that had expired
			if sr.Deadline > 0 {
				eutRaw.SetReadDeadlineNS(0)
			}
			again = conn.Handshake()
			var b1 [8]byte
			postN, postReadErr = conn.Read(b1[:])
			_, postWriteErr = conn.Write([]byte("x"))
			conn.Close()
			eutRaw.Close()
			eutFinished = true
			return
		}
		buf := make([]byte, 256)
		for {
			n, err := conn.Read(buf)
			eutApp = append(eutApp, buf[:n]...)
			if err != nil {
				if err != io.EOF {
					eut.ReadErr = err
				}
				break
			}
			if bytes.HasSuffix(eutApp, []byte("\n")) {
				conn.Write([]byte("pong\n"))
			}
		}
		conn.Close()
		eutFinished = true
	})
	// --- scripted peer
	s.Spawn("peer", 1, func() {
		pc = reftls.NewConn(peerRaw)
		pc.Devs = sr.Devs
		pc.NoFragment = class == 6
		// the peer gives up (and ends its stream) after 60 virtual seconds of silence
		peerRaw.SetReadDeadlineNS(s.Now + 60e9)
		if sr.EUTServer {
			cfg := &reftls.ClientCfg{Rand: entP, Suites: []uint16{sr.Suite}, ServerName: "server.sim", Vers: sr.Vers, VersSet: sr.VersSet, Compress: sr.Compress}
			if sr.Suites != nil {
				cfg.Suites = sr.Suites
			}
			if sr.ExtraExt {
				cfg.ExtraExts = []reftls.Ext{{Type: 0xfabc, Data: []byte{1, 2, 3, 4}}}
			}
			cfg.ExtraExts = append(cfg.ExtraExts, sr.ExtraExts...)
			cfg.IgnoreCertRequest = sr.IgnoreCertReq
			cfg.NPN, cfg.NPNProto, cfg.NPNSkip = sr.NPN || sr.NPNOfferOnly, "http/1.1", sr.NPNSkip
			if sr.ClientAuth {
				cfg.Cert = &reftls.Identity{Chain: [][]byte{pki.DER("cli")}, Key: pki.D("cli")}
			}
			if sr.TLS {
				if !sr.VersSet {
					cfg.Vers, cfg.VersSet = reftls.VersionTLS12, true
				}
				cfg.Curves = curves
				cfg.ShareSuffix = sr.ShareSuffix
				if sr.ClientAuth {
					cfg.Cert = &reftls.Identity{Chain: [][]byte{pki.DER("tlsclirsa")}, RSA: refRSA("tlsclirsa")}
				}
			}
			peerRes, peerErr = reftls.ClientHandshake(pc, cfg)
		} else if sr.TLS {
			cfg := &reftls.ServerCfg{Rand: entP, Suites: []uint16{sr.Suite}, TLS12: true,
				Sign:        &reftls.Identity{Chain: [][]byte{pki.DER("tlsrsa")}, RSA: refRSA("tlsrsa")},
				RequestCert: sr.ClientAuth, VerifyClient: true, Vers: sr.SrvVers, ChooseSuite: sr.SrvChoose, Compression: sr.SrvCompress, CertList: sr.SrvCertList, HelloExts: sr.ExtraExts}
			if sr.ClientAuth {
				cfg.CAs = [][]byte{reftls.SubjectFromCert(pki.DER("rsaCA"))}
			}
			cfg.ECDHECurve, cfg.ECDHEWireCurve, cfg.ECDHEPoint = sr.SrvECDHECurve, sr.SrvECDHEWireCurve, sr.SrvECDHEPoint
			cfg.SKXSigAlg = sr.SrvSKXSigAlg
			if sr.SrvSKXWrongKey {
				cfg.SKXRSA = refRSA("tlsrsa2")
			}
			if sr.SrvSKXStale {
				cfg.SKXRandoms = [2][]byte{drawDataStream(entP, 32), drawDataStream(entP, 32)}
			}
			peerRes, peerErr = reftls.ServerHandshake(pc, cfg)
		} else {
			cfg := &reftls.ServerCfg{Rand: entP, Suites: []uint16{sr.Suite},
				Sign:        &reftls.Identity{Chain: [][]byte{pki.DER("srv-sign")}, Key: pki.D("srv-sign")},
				Enc:         &reftls.Identity{Chain: [][]byte{pki.DER("srv-enc")}, Key: pki.D("srv-enc")},
				RequestCert: sr.ClientAuth, VerifyClient: true, Vers: sr.SrvVers, ChooseSuite: sr.SrvChoose, Compression: sr.SrvCompress, CertList: sr.SrvCertList, HelloExts: sr.ExtraExts}
			if sr.ClientAuth {
				cfg.CAs = [][]byte{reftls.SubjectFromCert(pki.DER("caA"))}
			}
			if sr.SrvSKXOverList && len(sr.SrvCertList) > 1 {
				cfg.SKXOverCert = sr.SrvCertList[1]
			}
			if sr.EUTDefaultSuites {
				cfg.SKXBody = func(cr, srnd []byte) []byte {
					// ServerECDHParams || signature over SHA-1(client_random || server_random || params)
					// made with the SM2 signing key (the form gmtls' client verifies for this suite family)
					k, _ := reftls.ECDHEKey(reftls.CurveP256, entP) // any 32-byte scalar source
					pt := reftls.SM2BasePointMult(k.Bytes())
					switch sr.GMECDHEBadPoint {
					case 1:
						pt = pt[:len(pt)-1]
					case 2:
						pt = append([]byte{4}, make([]byte, 64)...)
					case 3:
						pt = []byte{}
					}
					params := reftls.ECDHEParamBytes(sr.GMECDHECurve, pt)
					h := sha1.Sum(append(append(append([]byte(nil), cr...), srnd...), params...))
					sig := reftls.SM2SignDefault(pki.D("srv-sign"), h[:], entP)
					return append(params, reftls.Vec16Body(sig)...)
				}
			}
			peerRes, peerErr = reftls.ServerHandshake(pc, cfg)
		}
		if peerErr == reftls.ErrStalled {
			s.WaitFlag(never)
			return
		}
		if peerErr == nil && peerRes.Complete {
			pc.WriteRecord(reftls.RecApp, []byte("ping\n"))
			pc.ReadApp()
			pc.CloseNotify()
		}
		peerRaw.Close()
	})
	s.Run()
	r.FromSim(s)
	r.Nontrivial = sr.Why != "honest"

	role := "client"
	if sr.TLS {
		r.Reach(idx(scriptReach, "scripted-tls12-peer"))
	}
	if sr.EUTServer {
		role = []string{"server-gm", "server-auto", "server-tls"}[sr.SMode]
		r.Reach(idx(scriptReach, []string{"eut-server-gm", "eut-server-auto", "eut-server-tls"}[sr.SMode]))
	} else {
		r.Reach(idx(scriptReach, "eut-client"))
	}
	if sr.ClientAuth {
		r.Reach(idx(scriptReach, "client-auth-path"))
	}
	if sr.EUTMaxVers != 0 || sr.EUTMinVers != 0 {
		r.Reach(idx(scriptReach, "server-version-bounds"))
	}
	if sr.EUTGetConfig {
		r.Reach(idx(scriptReach, "server-getconfigforclient"))
	}
	fired := 0
	var devDesc []string
	for _, d := range sr.Devs {
		if d.Fired {
			fired++
			r.Fault(d.Kind - 1)
			r.Sig(uint64(d.Kind)<<8 | uint64(d.At))
			if d.At >= units-2 {
				r.Reach(idx(scriptReach, "dev-after-ccs"))
			} else if sr.EUTServer {
				r.Reach(idx(scriptReach, "dev-in-client-flight"))
			} else {
				r.Reach(idx(scriptReach, "dev-in-server-flight"))
			}
		}
		devDesc = append(devDesc, fmt.Sprintf("unit %d kind %d n=%d val=%d fired=%v", d.At, d.Kind, d.N, d.Val, d.Fired))
	}
	switch {
	case sr.VersSet:
		r.Fault(idx(scriptFaults, "hello-version"))
		r.SigStr(sr.Why)
		r.Sig(uint64(sr.Vers))
	case sr.Suites != nil:
		r.Fault(idx(scriptFaults, "hello-suites"))
	case sr.Compress != nil:
		r.Fault(idx(scriptFaults, "hello-compression"))
	case sr.SrvECDHEPoint != nil || sr.SrvECDHEWireCurve != 0 || sr.SrvSKXWrongKey || sr.SrvSKXStale || sr.SrvSKXSigAlg != 0:
		r.Fault(idx(scriptFaults, "ecdhe-server-params"))
	case sr.SrvVers != 0 || sr.SrvChoose != 0 || sr.SrvCompress != 0:
		r.Fault(idx(scriptFaults, "server-bad-selection"))
	case sr.SrvCertList != nil:
		r.Fault(idx(scriptFaults, "server-cert-list"))
	}
	if sr.Deadline > 0 {
		r.Fault(idx(scriptFaults, "deadline"))
	}
	if crafted {
		r.Fault(idx(scriptFaults, "crafted-key-exchange"))
	}
	if malformedExt {
		r.Fault(idx(scriptFaults, "malformed-extensions"))
	}
	if sr.IgnoreCertReq {
		r.Fault(idx(scriptFaults, "cert-message-omitted"))
	}
	var sent []string
	if pc != nil {
		sent = pc.SentUnits
	}
	if sr.TLS {
		role += "/tls12peer"
	}
	if sr.EUTReneg != 0 {
		role += "/reneg-enabled"
	}
	r.Config = role + "/" + fmt.Sprintf("%04x", sr.Suite)
	r.SigStr(role + sr.Why)
	r.Detail = map[string]interface{}{"eut": role, "suite": fmt.Sprintf("%04x", sr.Suite), "client_auth": sr.ClientAuth, "script": sr.Why, "deviations": devDesc, "peer_sent": sent,
		"expect": []string{"any", "complete", "fail"}[sr.Expect], "eut_err": errStr(eut.HsErr), "eut_complete": eut.HsDone, "peer_err": errStr(peerErr), "eut_finished": eutFinished}

	s.TaskPanics(r)
	if r.Violation() != nil || r.HarnessErr != "" {
		return
	}
	// site: role + the first deviation that fired and changed bytes (stable across
	// the random companions a script may have)
	site := role + "/" + sr.Why
	for _, d := range sr.Devs {
		if d.Fired && (d.Changed || d.Kind == reftls.DevPlainFinished) && d.Kind-1 < len(scriptFaults) {
			site = role + "/" + scriptFaults[d.Kind-1]
			break
		}
	}
	if len(site) > 90 {
		site = site[:90]
	}
	if s.Reason == simkit.StopBudget {
		r.Violate("no-progress", site, fmt.Sprintf("step budget exhausted (endpoint spins?): %v", s.Blocked))
		return
	}
	// Expectation from what actually happened on the wire: a deviation that never
	// fired, or that left the bytes as they were (truncating an empty body,
	// rewriting a byte with its own value, a message-level deviation aimed at the
	// ChangeCipherSpec), leaves an honest run. A duplicate of the peer's very
	// last message arrives after the handshake is over. Any record version is
	// tolerated on the first record of a connection (RFC 5246 appendix E).
	expect := sr.Expect
	if len(sr.Devs) > 0 && sr.Deadline == 0 {
		expect = expComplete
		for _, d := range sr.Devs {
			if !d.Fired {
				continue
			}
			switch {
			case d.Kind == reftls.DevStallBefore, d.Kind == reftls.DevEmptyRecord, d.Kind == reftls.DevWarnings && d.N <= 5:
				if expect != expFail {
					expect = expAny
				}
			case d.Kind == reftls.DevDuplicate && d.At == units-1, d.Kind == reftls.DevRecordVersion,
				d.Kind == reftls.DevTruncBodyKeepLen && d.At == units-1 && d.N%13 == 12:
				// (the whole 12-byte Finished was sent before the stream ended)
				// record-layer version of an unprotected record: not part of the
				// transcript; whether it must be rejected is not stated by the property
				if expect != expFail {
					expect = expAny
				}
			case d.Changed:
				expect = expFail
			}
		}
		if mismatch {
			expect = expFail // a GMSSL client can never complete with a TLS-only server, nor a TLS client with a GMSSL-only one
		}
	}
	// a set-byte that rewrote a byte with its own value, or deviations only after
	// the peer already failed, are honest runs too; detect "nothing changed" by
	// the peer completing with verified Finished
	if (sr.EUTMaxVers != 0 || sr.EUTMinVers != 0) && expect == expComplete {
		expect = expAny
	}
	stalled := peerErr == reftls.ErrStalled
	if !eutFinished {
		// endpoint still waiting
		if stalled && sr.Deadline == 0 {
			r.Reach(idx(scriptReach, "legit-wait"))
			if eut.HsDone {
				r.Violate("completed-with-misbehaving-peer", site, "endpoint reports a complete handshake while the peer stalled mid-handshake")
				return
			}
			r.Outcome = "waiting-on-open-silent-peer"
			return
		}
		r.Violate("keeps-waiting", site, fmt.Sprintf("endpoint did not return although the peer's stream has ended or its read deadline passed; blocked: %v", s.Blocked))
		return
	}
	if sr.Deadline > 0 && stalled {
		if eut.HsErr == nil {
			r.Violate("completed-with-misbehaving-peer", site, "handshake reported complete although the peer stalled")
			return
		}
		if again == nil {
			r.Violate("error-not-sticky", site, fmt.Sprintf("Handshake failed (%v) but a second call, made after the deadline was lifted, returned nil", eut.HsErr))
			return
		}
		if !isTimeout(eut.HsErr) {
			r.Violate("wrong-error", site, fmt.Sprintf("peer stalled and the read deadline expired, but Handshake returned %v instead of a timeout error", eut.HsErr))
			return
		}
		if s.Now < sr.Deadline {
			r.Violate("wrong-error", site, "timeout reported before the deadline")
			return
		}
		r.Reach(idx(scriptReach, "timeout-at-deadline"))
		r.Outcome = "timeout-at-deadline"
		return
	}
	// a handshake header that announces more than the 64 KiB a message may have
	// is decisive on its own: the endpoint must refuse it when it sees it, not
	// wait for (and buffer) a body until the peer gives up 60 virtual seconds later
	for _, d := range sr.Devs {
		if d.Kind == reftls.DevHsLen && d.Fired && d.Changed && d.Val > 65536 && eut.HsErr != nil && eutRetAt >= 60e9 && sr.Deadline == 0 {
			r.Violate("keeps-waiting", site, fmt.Sprintf("peer announced a handshake message of %d bytes; the endpoint kept reading until the peer gave up (returned %v at t=%.1fs)", d.Val, eut.HsErr, float64(eutRetAt)/1e9))
			return
		}
	}
	if eut.HsErr != nil {
		if again == nil {
			r.Violate("error-not-sticky", site, fmt.Sprintf("Handshake failed (%v) but a second call returned nil", eut.HsErr))
			return
		}
		if postN > 0 || postReadErr == nil || postWriteErr == nil {
			r.Violate("error-not-sticky", site, fmt.Sprintf("after a failed handshake (%v): Read returned (%d, %v), Write returned %v", eut.HsErr, postN, postReadErr, postWriteErr))
			return
		}
	}
	switch expect {
	case expFail:
		if eut.HsErr == nil || eut.HsDone {
			r.Violate("completed-with-misbehaving-peer", site, fmt.Sprintf("Handshake returned %v, HandshakeComplete=%v although the peer %s (deviations: %v)", eut.HsErr, eut.HsDone, sr.Why, devDesc))
			return
		}
		if len(eutApp) > 0 {
			r.Violate("data-after-failed-handshake", site, "application data delivered")
			return
		}
		r.Reach(idx(scriptReach, "must-fail-failed"))
		if class == 4 {
			r.Reach(idx(scriptReach, "unnegotiated-optional-message-refused"))
		}
		r.Outcome = "rejected"
	case expComplete:
		if eut.HsErr != nil || peerErr != nil {
			r.Violate("honest-peer-rejected", site, fmt.Sprintf("legal peer behaviour (%s) but the handshake failed: endpoint=%v reference peer=%v", sr.Why, eut.HsErr, peerErr))
			return
		}
		if string(eutApp) != "ping\n" {
			r.Violate("data-mismatch", site, fmt.Sprintf("endpoint received %q from the reference peer, want \"ping\\n\"", eutApp))
			return
		}
		r.Reach(idx(scriptReach, "must-complete-completed"))
		if ecdhe && sr.Why == "honest" {
			r.Reach(idx(scriptReach, "honest-ecdhe-completed"))
		}
		if peerRes != nil && peerRes.NPN {
			r.Reach(idx(scriptReach, "npn-negotiated"))
		}
		if sr.Why == "honest" {
			if sr.TLS && sr.EUTServer {
				r.Reach(idx(scriptReach, []string{"honest-tls12-client-vs-auto-server", "honest-tls12-client-vs-auto-server", "honest-tls12-client-vs-tls-server"}[sr.SMode]))
			} else if sr.TLS {
				r.Reach(idx(scriptReach, "honest-tls12-server-vs-tls-client"))
			} else if sr.EUTServer {
				r.Reach(idx(scriptReach, []string{"honest-client-vs-gm-server", "honest-client-vs-auto-server", "honest-client-vs-gm-server"}[sr.SMode]))
			} else {
				r.Reach(idx(scriptReach, "honest-server-vs-gm-client"))
			}
		}
		r.Outcome = "completed"
	default:
		// unspecified: consistency only — completion on one side only is a violation
		if (eut.HsErr == nil) != (peerErr == nil && peerRes != nil && peerRes.Complete) {
			// the peer stopped by script (close/stall) after having sent everything the
			// endpoint needed: completion is then legitimate
			byScript := peerErr == reftls.ErrClosedByScript || peerErr == reftls.ErrStalled
			if eut.HsErr == nil && !byScript {
				r.Violate("completed-with-misbehaving-peer", site, fmt.Sprintf("endpoint completed but the reference peer did not (%v)", peerErr))
				return
			}
		}
		r.Reach(idx(scriptReach, "unspecified-ok"))
		r.Outcome = "unspecified"
	}
	if pc != nil {
		for _, al := range pc.AlertsIn {
			if al[0] == reftls.AlertFatal {
				r.Reach(idx(scriptReach, "alert-from-eut"))
			}
		}
	}
}

var tlsRefSuites = []uint16{reftls.SuiteRSAAES128CBC, reftls.SuiteRSAAES128GCM, reftls.SuiteRSAAES256CBC, reftls.SuiteRSAAES256GCM, reftls.SuiteRSAAES128CBC2, 0xc02f, 0xc030, 0xc014}

func drawDataStream(r io.Reader, n int) []byte {
	b := make([]byte, n)
	io.ReadFull(r, b)
	return b
}

// refRSA returns a fixture RSA key in the reference's form.
func refRSA(name string) *reftls.RSAKey {
	k, ok := pki.StdKey(name).(*rsa.PrivateKey)
	if !ok {
		panic("fixture " + name + " is not an RSA key")
	}
	return reftls.RSAFromStd(k)
}

// isTimeout reports whether err, or anything it wraps, is a timeout error.
func isTimeout(err error) bool {
	for i := 0; err != nil && i < 10; i++ {
		if ne, ok := err.(interface{ Timeout() bool }); ok && ne.Timeout() {
			return true
		}
		u, ok := err.(interface{ Unwrap() error })
		if !ok {
			return false
		}
		err = u.Unwrap()
	}
	return false
}
