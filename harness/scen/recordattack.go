package scen

import (
	"bytes"
	"fmt"
	"io"
	"net"

	"github.com/tjfoc/gmsm/gmtls"
	"github.com/tjfoc/gmsm/verifsim/pki"
	"github.com/tjfoc/gmsm/verifsim/ref/reftls"
	"github.com/tjfoc/gmsm/verifsim/simkit"
)

// C07: established sessions with an in-path attacker acting on protected
// records. Two families: sampled attacks on sessions with payloads up to
// 16 KiB, and an enumerated sweep (every bit, truncation, extension, swap,
// duplicate, drop of every record of a small seed-chosen session).

const (
	rfNone = iota
	rfBitFlip
	rfTruncClose // cut the record to N bytes (header untouched) and end the stream
	rfTruncFix   // cut the body by N bytes and fix the length field
	rfExtend     // append N bytes and fix the length field
	rfLenPlus    // length field + N without extra bytes
	rfDrop
	rfDup
	rfSwap
	rfReplayOld    // insert a copy of protected record J (< idx) before record idx
	rfCrossInject  // insert the latest protected record of the other direction
	rfHdrType      // change the type byte
	rfHdrVers      // change the version field
	rfFinBefore    // end the stream right before record idx (drop the tail)
	rfFinMidHeader // end the stream inside the 5-byte header of record idx
	rfInjectPlain  // insert an unprotected record (ChangeCipherSpec, alert, handshake or application data) before record idx
	rfCrossConn    // insert a protected record captured from an earlier connection (same suite, different keys)
	rfCount
)

var rfNames = []string{"none", "bitflip", "truncate+close", "truncate+fix-length", "extend", "length-field+n", "drop", "duplicate", "swap-adjacent", "replay-earlier", "cross-direction-inject", "header-type", "header-version", "fin-before-record", "fin-mid-header", "inject-cleartext-record", "cross-connection-inject"}

var attackFaults = rfNames[1:]
var attackReach = []string{"fault-on-finished", "fault-on-appdata", "fault-on-close-notify", "fatal-alert-seen", "eof-style-end", "exact-prefix-checked", "sticky-error-checked", "gm-cbc", "gm-gcm", "tls-path", "no-fault-fired", "nonce-audit", "header-bit", "iv-or-nonce-bit", "body-bit", "mac-or-tag-bit", "sweep-run", "long-session", "replay-at-distance>=255", "duplex-endpoints", "duplex-fault-while-writer-active", "write-deadline-expired-at-the-victim"}

func init() {
	register(Family{Name: "tls-record-attack", Prop: "C07", ID: 701, Weight: 2, FaultNames: attackFaults, ReachNames: attackReach, Run: runRecordAttack})
	register(Family{Name: "tls-record-sweep", Prop: "C07", ID: 702, Weight: 3, FaultNames: attackFaults, ReachNames: attackReach, Run: runRecordSweep, Enum: sweepEnum})
}

type recFault struct {
	Kind  int
	Dir   int // 0 = client->server, 1 = server->client
	Rec   int // index among the protected records of that direction (0 = Finished)
	Bit   int
	N     int
	J     int
	JDist int // replay-earlier: distance back from the target record (0 = use J)
	Val   int
	// Exact: positions beyond the record are no-ops (enumerated sweep) instead
	// of being reduced modulo the record size (sampled attacks).
	Exact bool
}

type attackSession struct {
	Suite    uint16 // GM suites; 0 = TLS path
	TLSVers  uint16
	TLSSuite uint16
	Writes   [2][]int // application write sizes per direction
	Payload  [2][]byte
	Duplex   bool             // endpoints write from a task of their own while reading
	WDead    bool             // each endpoint lets its write deadline expire once its own writes are done: the alert a bad record calls for cannot be written
	NetA     [2]simkit.NetCfg // client<->attacker (c2s, s2c)
	NetB     [2]simkit.NetCfg // attacker<->server
	Pol      simkit.Policy
	EntC     uint64
	EntS     uint64
	DynOn    bool // dynamic record sizing left enabled (many small records per Write)
	ShortRnd bool // Config.Rand returns short reads (legal for an io.Reader)
	Long     bool // several hundred small records in one direction (sequence numbers beyond one byte)
}

func drawAttackSession(c *simkit.Choice, small bool) attackSession {
	var a attackSession
	switch c.Weighted([]int{4, 4, 1}, simkit.LScen) {
	case 0:
		a.Suite = gmtls.GMTLS_ECC_SM4_CBC_SM3
	case 1:
		a.Suite = gmtls.GMTLS_ECC_SM4_GCM_SM3
	default:
		a.TLSVers = []uint16{gmtls.VersionTLS12, gmtls.VersionTLS12, gmtls.VersionTLS11, gmtls.VersionTLS10}[c.Choose(4, simkit.LScen)]
		if a.TLSVers == gmtls.VersionTLS12 {
			a.TLSSuite = []uint16{0xc02f, 0x009c, 0x002f, 0xcca8}[c.Choose(4, simkit.LScen)]
		} else {
			a.TLSSuite = []uint16{0x002f, 0xc014}[c.Choose(2, simkit.LScen)]
		}
	}
	if small {
		if a.Suite == 0 {
			a.Suite = gmtls.GMTLS_ECC_SM4_CBC_SM3
			a.TLSVers, a.TLSSuite = 0, 0
		}
	}
	longDir := -1
	if !small && c.Bool(1, 10, simkit.LScen) {
		a.Long = true
		longDir = c.Choose(2, simkit.LScen)
	}
	for d := 0; d < 2; d++ {
		nw := c.Range(1, 4, simkit.LScen)
		if small {
			nw = c.Range(1, 2, simkit.LScen)
		}
		if d == longDir {
			nw = c.Range(130, 700, simkit.LScen)
		}
		total := 0
		for i := 0; i < nw; i++ {
			var n int
			if d == longDir {
				n = c.Range(1, 3, simkit.LScen)
			} else if small {
				n = c.Range(1, 40, simkit.LScen) // records stay <= 128 bytes
			} else {
				switch c.Weighted([]int{3, 3, 1, 1}, simkit.LScen) {
				case 0:
					n = c.Range(1, 200, simkit.LScen)
				case 1:
					n = c.Range(1, 5000, simkit.LScen)
				case 2:
					n = []int{16384, 16383, 1, 2, 16385, 40000}[c.Choose(6, simkit.LScen)]
				default:
					n = c.Range(0, 16384, simkit.LScen)
				}
			}
			a.Writes[d] = append(a.Writes[d], n)
			total += n
		}
		a.Payload[d] = drawData(c, total)
	}
	if !small {
		a.ShortRnd = c.Bool(1, 4, simkit.LScen)
		a.DynOn = c.Bool(1, 3, simkit.LScen)
		a.Duplex = c.Bool(1, 3, simkit.LScen)
		a.WDead = !a.Duplex && c.Bool(1, 5, simkit.LScen)
		for i := 0; i < 2; i++ {
			a.NetA[i] = simkit.DrawNetCfg(c)
			a.NetB[i] = simkit.DrawNetCfg(c)
		}
		a.Pol = simkit.Policy{StarveNode: -1, MeanGap: []int{0, 5, 50}[c.Choose(3, simkit.LScen)]}
	} else {
		a.Pol = simkit.Policy{StarveNode: -1}
	}
	a.EntC = uint64(c.Choose(1<<31, simkit.LEntropy)) + 5
	a.EntS = uint64(c.Choose(1<<31, simkit.LEntropy)) + 9
	return a
}

func drawRecFault(c *simkit.Choice, a *attackSession) recFault {
	var f recFault
	f.Kind = 1 + c.Choose(rfCount-2, simkit.LFault) // rfCrossConn handled by a dedicated draw
	if c.Bool(1, 14, simkit.LFault) {
		f.Kind = rfCrossConn
	}
	f.Dir = c.Choose(2, simkit.LFault)
	// records: Finished, then >= one per write, then close_notify
	maxRec := len(a.Writes[f.Dir]) + 2
	for _, w := range a.Writes[f.Dir] {
		if a.DynOn {
			maxRec += w / 1200
		} else {
			maxRec += w / 16384
		}
	}
	if maxRec > 40 && !a.Long {
		maxRec = 40
	}
	if a.Suite == gmtls.GMTLS_ECC_SM4_CBC_SM3 || (a.TLSVers != 0 && a.TLSVers <= gmtls.VersionTLS10) {
		maxRec += len(a.Writes[f.Dir]) // 1/n-1 split
	}
	f.Rec = c.Choose(maxRec+1, simkit.LFault)
	if c.Bool(1, 2, simkit.LFault) && f.Rec == 0 {
		f.Rec = 1 + c.Choose(maxRec, simkit.LFault) // bias toward the application phase
	}
	f.Bit = c.Choose(1<<20, simkit.LFault)
	f.N = 1 + c.Choose(64, simkit.LFault)
	f.J = c.Choose(8, simkit.LFault)
	if a.Long {
		// any earlier record, with some weight on distances around the byte
		// boundaries of the sequence counter
		f.J = c.Choose(1<<11, simkit.LFault)
		if c.Bool(1, 2, simkit.LFault) {
			f.JDist = []int{1, 2, 127, 128, 255, 256, 257, 510, 511, 512}[c.Choose(10, simkit.LFault)]
		}
	}
	f.Val = c.Choose(256, simkit.LFault)
	return f
}

// relay is one direction of the attacker.
type relay struct {
	s        *simkit.Sim
	dir      int
	src, dst *simkit.Conn
	f        *recFault
	other    *relay
	// state
	protected  bool
	nprot      int
	prot       [][]byte // protected records seen (copies)
	ReplayDist int      // replay-earlier: how many records back the replayed one was
	last       []byte
	held       []byte
	// what happened
	Fired      bool
	FiredOn    int // protected index of the first affected record as the receiver will count it
	FiredType  uint8
	FiredLen   int
	EOFStyle   bool // the fault ends the stream rather than corrupting a record
	InclTarget bool // the target record itself is delivered intact before the affected one (duplicate)
	BitClass   string
	foreign    []byte // record from another connection (rfCrossConn)
}

func readFull(c *simkit.Conn, b []byte) (int, error) {
	n := 0
	for n < len(b) {
		m, err := c.Read(b[n:])
		n += m
		if err != nil && n < len(b) {
			return n, err
		}
	}
	return n, nil
}

func (rl *relay) run() {
	hdr := make([]byte, 5)
	for {
		n, err := readFull(rl.src, hdr)
		if err != nil {
			if n > 0 {
				rl.dst.Write(hdr[:n])
			}
			if rl.held != nil {
				rl.dst.Write(rl.held)
				rl.held = nil
			}
			rl.dst.CloseWrite()
			return
		}
		ln := int(hdr[3])<<8 | int(hdr[4])
		rec := make([]byte, 5+ln)
		copy(rec, hdr)
		n, err = readFull(rl.src, rec[5:])
		if err != nil {
			rl.dst.Write(rec[:5+n])
			rl.dst.CloseWrite()
			return
		}
		idx := -1
		if rl.protected {
			idx = rl.nprot
			rl.nprot++
			rl.prot = append(rl.prot, rec)
			rl.last = rec
		}
		if rec[0] == reftls.RecCCS {
			rl.protected = true
		}
		if rl.held != nil {
			// swap: the later record goes first
			rl.dst.Write(rec)
			rl.dst.Write(rl.held)
			rl.held = nil
			continue
		}
		if idx >= 0 && rl.f != nil && rl.f.Dir == rl.dir && rl.f.Rec == idx && !rl.Fired {
			if rl.apply(rec, idx) {
				return
			}
			continue
		}
		rl.dst.Write(rec)
	}
}

// apply performs the fault on protected record idx; returns true if the
// relay must stop (stream ended by the attacker).
func (rl *relay) apply(rec []byte, idx int) bool {
	f := rl.f
	fire := func(on int) {
		rl.Fired = true
		rl.FiredOn = on
		rl.FiredType = rec[0]
		rl.FiredLen = len(rec)
		rl.s.Event(int64(f.Kind), int64(idx))
	}
	switch f.Kind {
	case rfBitFlip:
		if f.Exact && f.Bit >= 8*len(rec) {
			rl.dst.Write(rec)
			return false
		}
		bit := f.Bit % (8 * len(rec))
		m := append([]byte(nil), rec...)
		m[bit/8] ^= 1 << uint(bit%8)
		switch {
		case bit/8 < 5:
			rl.BitClass = "header-bit"
		case bit/8 < 5+8:
			rl.BitClass = "iv-or-nonce-bit"
		case bit/8 >= len(rec)-16:
			rl.BitClass = "mac-or-tag-bit"
		default:
			rl.BitClass = "body-bit"
		}
		fire(idx)
		if bit/8 == 3 || bit/8 == 4 {
			// length field changed: forward what we have; the receiver either
			// rejects a shorter record or waits for bytes that follow
			rl.dst.Write(m)
			return false
		}
		rl.dst.Write(m)
	case rfTruncClose:
		if f.Exact && f.N >= len(rec) {
			rl.dst.Write(rec)
			return false
		}
		n := f.N % len(rec)
		fire(idx)
		rl.EOFStyle = true
		rl.dst.Write(rec[:n])
		rl.dst.CloseWrite()
		return true
	case rfTruncFix:
		body := len(rec) - 5
		if body == 0 {
			rl.dst.Write(rec)
			return false
		}
		cut := 1 + (f.N-1)%body
		m := append([]byte(nil), rec[:len(rec)-cut]...)
		m[3], m[4] = byte((body-cut)>>8), byte(body-cut)
		fire(idx)
		rl.dst.Write(m)
	case rfExtend:
		body := len(rec) - 5
		m := append([]byte(nil), rec...)
		for i := 0; i < f.N; i++ {
			m = append(m, byte(f.Val+i))
		}
		m[3], m[4] = byte((body+f.N)>>8), byte(body+f.N)
		fire(idx)
		rl.dst.Write(m)
	case rfLenPlus:
		body := len(rec) - 5
		m := append([]byte(nil), rec...)
		m[3], m[4] = byte((body+f.N)>>8), byte(body+f.N)
		fire(idx)
		rl.dst.Write(m)
	case rfDrop:
		fire(idx)
		// if nothing follows, the receiver only sees an early end of stream
		rl.EOFStyle = true // refined by the oracle: a following record arrives with the wrong sequence number
	case rfDup:
		fire(idx + 1)
		rl.InclTarget = true
		rl.dst.Write(rec)
		rl.dst.Write(rec)
	case rfSwap:
		rl.held = rec
		fire(idx)
		rl.EOFStyle = true // if no further record arrives the held one is delivered in order: no fault
	case rfReplayOld:
		if idx == 0 {
			rl.dst.Write(rec)
			return false
		}
		old := rl.prot[f.J%idx]
		rl.ReplayDist = idx - f.J%idx
		if f.JDist > 0 && f.JDist <= idx {
			old = rl.prot[idx-f.JDist]
			rl.ReplayDist = f.JDist
		}
		fire(idx)
		rl.dst.Write(old)
		rl.dst.Write(rec)
	case rfCrossInject:
		if rl.other == nil || rl.other.last == nil {
			rl.dst.Write(rec)
			return false
		}
		fire(idx)
		rl.dst.Write(rl.other.last)
		rl.dst.Write(rec)
	case rfInjectPlain:
		var m []byte
		switch f.Val % 9 {
		case 0:
			m = []byte{20, rec[1], rec[2], 0, 1, 1} // ChangeCipherSpec
		case 1:
			m = []byte{21, rec[1], rec[2], 0, 2, 1, 0} // warning close_notify
		case 2:
			m = []byte{21, rec[1], rec[2], 0, 2, 1, byte(f.N)} // some warning
		case 3:
			m = []byte{21, rec[1], rec[2], 0, 2, 2, 40} // fatal handshake_failure
		case 4:
			m = []byte{22, rec[1], rec[2], 0, 4, 0, 0, 0, 0} // HelloRequest
		case 5:
			m = []byte{23, rec[1], rec[2], 0, 1, 'x'} // application data
		case 6:
			m = []byte{20, rec[1], rec[2], 0, 0} // empty ChangeCipherSpec
		case 7:
			m = []byte{23, rec[1], rec[2], 0, 0} // empty application data
		case 8:
			m = []byte{21, rec[1], rec[2], 0, 1, 1} // one-byte alert
		}
		fire(idx)
		rl.dst.Write(m)
		rl.dst.Write(rec)
	case rfCrossConn:
		if rl.foreign == nil {
			rl.dst.Write(rec)
			return false
		}
		fire(idx)
		rl.dst.Write(rl.foreign)
		rl.dst.Write(rec)
	case rfHdrType:
		m := append([]byte(nil), rec...)
		nt := []byte{20, 21, 22, 23, 24, 0}[f.Val%6]
		if nt == m[0] {
			nt = 24
		}
		m[0] = nt
		fire(idx)
		rl.dst.Write(m)
	case rfHdrVers:
		m := append([]byte(nil), rec...)
		if f.Val%2 == 0 {
			m[1] ^= 0x02
		} else {
			m[2] ^= byte(1 + f.Val%255)
		}
		fire(idx)
		rl.dst.Write(m)
	case rfFinBefore:
		fire(idx)
		rl.EOFStyle = true
		rl.dst.CloseWrite()
		return true
	case rfFinMidHeader:
		fire(idx)
		rl.EOFStyle = true
		rl.dst.Write(rec[:1+f.N%4])
		rl.dst.CloseWrite()
		return true
	default:
		rl.dst.Write(rec)
	}
	return false
}

// attackEnd is what an endpoint of an attacked session observed.
type attackEnd struct {
	HsErr      error
	HsDone     bool // Handshake returned nil
	Read       []byte
	ReadErr    error // nil = clean EOF
	ReadDone   bool  // the read loop ended (EOF or error)
	AfterN     int   // bytes returned by the extra Read after the error
	AfterErr   error
	WriteErr   error
	AfterWN    int // result of a Write issued after a Read had returned a non-EOF error
	AfterWErr  error
	AfterW     bool
	WriterBusy bool // duplex: the writer task had not finished when the Read failed
	KeyLog     bytes.Buffer
	PrefixBad  int // first offset at which a Read delivered a byte the peer did not send there (-1 = none)
}

func attackCfg(a *attackSession, s *simkit.Sim, server bool, end *attackEnd) *gmtls.Config {
	ent := a.EntC
	if server {
		ent = a.EntS
	}
	rnd := simkit.NewStream(ent)
	rnd.Short = a.ShortRnd
	cfg := &gmtls.Config{Rand: rnd, Time: simTime(s, 0), KeyLogWriter: &end.KeyLog, DynamicRecordSizingDisabled: !a.DynOn, SessionTicketsDisabled: true}
	if a.Suite != 0 {
		cfg.GMSupport = gmtls.NewGMSupport()
		cfg.CipherSuites = []uint16{a.Suite}
		if server {
			cfg.Certificates = gmServerCerts("srv-sign", "srv-enc")
		} else {
			cfg.RootCAs = pki.Pool("caA")
			cfg.ServerName = "server.sim"
		}
	} else {
		cfg.CipherSuites = []uint16{a.TLSSuite}
		cfg.MinVersion, cfg.MaxVersion = a.TLSVers, a.TLSVers
		if server {
			cfg.Certificates = []gmtls.Certificate{pki.GMStd("tlsrsa")}
		} else {
			cfg.RootCAs = pki.Pool("rsaCA")
			cfg.ServerName = "server.sim"
		}
	}
	return cfg
}

// endpointTask: handshake, write own payload, close-write, read to the end.
// duplex: the writes run in a task of their own, concurrently with the reads
// (an application with a reader and a writer goroutine).
func attackEndpoint(s *simkit.Sim, conn *gmtls.Conn, raw *simkit.Conn, writes []int, payload, expectFromPeer []byte, end *attackEnd, duplex bool, wdead ...bool) {
	end.PrefixBad = -1
	end.HsErr = conn.Handshake()
	if end.HsErr != nil {
		raw.Close()
		return
	}
	end.HsDone = true
	wr := func() {
		off := 0
		for _, k := range writes {
			if _, err := conn.Write(payload[off : off+k]); err != nil {
				end.WriteErr = err
				break
			}
			off += k
		}
		if end.WriteErr == nil {
			end.WriteErr = conn.CloseWrite()
		}
	}
	var wt *simkit.Task
	if duplex {
		cur := s.CurTask()
		wt = s.Spawn(cur.Name+"-w", cur.Node, wr)
	} else {
		wr()
		if len(wdead) > 0 && wdead[0] {
			conn.SetWriteDeadline(simkit.TimeAt(s.Now)) // nothing more to send: the write side times out from now on
		}
	}
	buf := make([]byte, 20000)
	for {
		n, err := conn.Read(buf)
		if n > 0 {
			// invariant checked after every Read: what was delivered is a prefix of what was sent
			base := len(end.Read)
			for i := 0; i < n && end.PrefixBad < 0; i++ {
				if base+i >= len(expectFromPeer) || buf[i] != expectFromPeer[base+i] {
					end.PrefixBad = base + i
				}
			}
			end.Read = append(end.Read, buf[:n]...)
		}
		if err == io.EOF {
			end.ReadDone = true
			break
		}
		if err != nil {
			end.ReadErr = err
			end.ReadDone = true
			end.WriterBusy = wt != nil && !wt.Done()
			end.AfterN, end.AfterErr = conn.Read(buf)
			// a record rejected locally is fatal for the connection, not for one
			// caller: a Write that starts now must fail as well (an end of the
			// transport stream is different: the write side may live on)
			if oe, ok := err.(*net.OpError); ok && oe.Op == "local error" {
				end.AfterW = true
				end.AfterWN, end.AfterWErr = conn.Write([]byte("written after the fatal error"))
			}
			break
		}
	}
	if wt != nil {
		s.Join(wt)
	}
	conn.Close()
}

// foreignRecord produces a protected application record of another
// connection (same suite, fresh keys) using the reference sender.
func foreignRecord(suite uint16, seed uint64) []byte {
	if suite != reftls.SuiteCBC && suite != reftls.SuiteGCM {
		return nil
	}
	st := simkit.NewStream(seed)
	key := make([]byte, 16)
	mac := make([]byte, 32)
	iv := make([]byte, 4)
	st.Read(key)
	st.Read(mac)
	st.Read(iv)
	h, err := reftls.NewHalf(suite, key, mac, iv)
	if err != nil {
		return nil
	}
	h.Seq = 1
	body := h.Protect(reftls.RecApp, reftls.VersionGM, []byte("record of another connection"), nil)
	return reftls.Record{Type: reftls.RecApp, Vers: reftls.VersionGM, Body: body}.Bytes()
}

func runAttack(c *simkit.Choice, r *simkit.Rec, a *attackSession, f *recFault, sweep bool) (relC2S, relS2C *relay) {
	pki.Load()
	s := simkit.NewSim(c, a.Pol, 3000000)
	na0, na1, nb0, nb1 := a.NetA[0], a.NetA[1], a.NetB[0], a.NetB[1]
	na0.Capture, nb1.Capture = true, true // what each endpoint really sent
	cliRaw, atkC := s.NewConnPair("cli", "atk-c", na0, na1)
	atkS, srvRaw := s.NewConnPair("atk-s", "srv", nb0, nb1)
	var ce, se attackEnd
	c2s := &relay{s: s, dir: 0, src: atkC, dst: atkS, f: f}
	s2c := &relay{s: s, dir: 1, src: atkS, dst: atkC, f: f}
	c2s.other, s2c.other = s2c, c2s
	relC2S, relS2C = c2s, s2c
	if f.Kind == rfCrossConn {
		fr := foreignRecord(a.Suite, a.EntC^0xabcdef)
		c2s.foreign, s2c.foreign = fr, fr
	}
	s.Spawn("cli", 0, func() {
		attackEndpoint(s, gmtls.Client(cliRaw, attackCfg(a, s, false, &ce)), cliRaw, a.Writes[0], a.Payload[0], a.Payload[1], &ce, a.Duplex, a.WDead)
	})
	s.Spawn("srv", 1, func() {
		attackEndpoint(s, gmtls.Server(srvRaw, attackCfg(a, s, true, &se)), srvRaw, a.Writes[1], a.Payload[1], a.Payload[0], &se, a.Duplex, a.WDead)
	})
	s.Spawn("atk-c2s", 2, c2s.run)
	s.Spawn("atk-s2c", 2, s2c.run)
	s.Run()
	r.FromSim(s)

	rl := c2s
	vict, sender := &se, &ce
	if f.Dir == 1 {
		rl = s2c
		vict, sender = &ce, &se
	}
	if a.WDead {
		r.Reach(idx(attackReach, "write-deadline-expired-at-the-victim"))
	}
	if a.Duplex {
		r.Reach(idx(attackReach, "duplex-endpoints"))
		if vict.WriterBusy {
			r.Reach(idx(attackReach, "duplex-fault-while-writer-active"))
		}
	}
	sent := a.Payload[f.Dir]
	suiteName := fmt.Sprintf("%04x", a.Suite)
	if a.Suite == 0 {
		suiteName = fmt.Sprintf("tls%04x-%04x", a.TLSVers, a.TLSSuite)
		r.Reach(idx(attackReach, "tls-path"))
	} else if a.Suite == gmtls.GMTLS_ECC_SM4_CBC_SM3 {
		r.Reach(idx(attackReach, "gm-cbc"))
	} else {
		r.Reach(idx(attackReach, "gm-gcm"))
	}
	r.Config = suiteName
	site := suiteName + "/" + rfNames[f.Kind]
	r.Detail = map[string]interface{}{"suite": suiteName, "fault": rfNames[f.Kind], "dir": f.Dir, "record": f.Rec, "bit": f.Bit, "n": f.N,
		"fired": rl.Fired, "fired_on": rl.FiredOn, "record_type": rl.FiredType, "record_len": rl.FiredLen, "writes": a.Writes,
		"victim_read": len(vict.Read), "victim_err": errStr(vict.ReadErr), "victim_hs_err": errStr(vict.HsErr), "sender_hs_err": errStr(sender.HsErr)}
	r.Sig(uint64(a.Suite)<<32 | uint64(a.TLSSuite)<<16 | uint64(f.Kind)<<8 | uint64(f.Dir))

	s.TaskPanics(r)
	if r.Violation() != nil || r.HarnessErr != "" {
		return
	}
	if s.Reason == simkit.StopBudget {
		r.Violate("no-progress", site, fmt.Sprintf("step budget exhausted; blocked %v", s.Blocked))
		return
	}
	for _, e := range []*attackEnd{&ce, &se} {
		if e.AfterW && e.AfterWErr == nil {
			r.Violate("write-after-fatal-error", site, fmt.Sprintf("a Read failed (%v) and a Write started afterwards succeeded (%d bytes): the failure was not fatal for the connection", e.ReadErr, e.AfterWN))
			return
		}
	}
	// prefix invariant: both directions, always
	for _, e := range []*attackEnd{&ce, &se} {
		if e.PrefixBad >= 0 {
			who := "server"
			if e == &ce {
				who = "client"
			}
			r.Violate("delivered-not-prefix", site, fmt.Sprintf("%s was handed a byte at offset %d that its peer did not send at that position (fault %s on %s record %d, fired=%v)", who, e.PrefixBad, rfNames[f.Kind], []string{"c2s", "s2c"}[f.Dir], f.Rec, rl.Fired))
			return
		}
	}
	if !rl.Fired {
		// no fault reached a record: the session must behave as a benign one
		r.Reach(idx(attackReach, "no-fault-fired"))
		if s.Reason == simkit.StopDeadlock {
			r.Violate("deadlock", site, fmt.Sprintf("no fault fired, yet the run deadlocked: %v", s.Blocked))
			return
		}
		if ce.HsErr != nil || se.HsErr != nil || ce.ReadErr != nil || se.ReadErr != nil || !bytes.Equal(ce.Read, a.Payload[1]) || !bytes.Equal(se.Read, a.Payload[0]) {
			r.Violate("benign-failed", site, fmt.Sprintf("no fault fired but the session did not deliver everything: hs %v/%v read %v/%v lens %d/%d of %d/%d", ce.HsErr, se.HsErr, ce.ReadErr, se.ReadErr, len(ce.Read), len(se.Read), len(a.Payload[1]), len(a.Payload[0])))
			return
		}
		r.Outcome = "no-fault"
		return
	}
	r.Fault(f.Kind - 1)
	r.Nontrivial = true
	r.Sig(uint64(rl.FiredOn)<<8 | uint64(rl.FiredType))
	if rl.BitClass != "" {
		r.Reach(idx(attackReach, rl.BitClass))
		r.SigStr(rl.BitClass)
	}
	if sweep {
		r.Reach(idx(attackReach, "sweep-run"))
		r.Sig(uint64(f.Bit) | uint64(f.N)<<24)
	}

	// ---- fault on the Finished record: the handshake must not complete on the victim
	if rl.FiredOn == 0 && !rl.InclTarget {
		r.Reach(idx(attackReach, "fault-on-finished"))
		if !vict.HsDone && vict.HsErr == nil {
			// the victim is still waiting for bytes of the enlarged / withheld record:
			// waiting on an open stream is legitimate, nothing was accepted
			r.Outcome = "handshake-waiting"
			return
		}
		if vict.HsErr == nil {
			// swap/drop at index 0 may legitimately turn into nothing if no further record existed
			if (f.Kind == rfSwap || f.Kind == rfDrop) && len(vict.Read) == 0 {
				r.Outcome = "finished-reordered-nothing-delivered"
				return
			}
			r.Violate("tampered-finished-accepted", site, fmt.Sprintf("victim completed the handshake although its peer's Finished record was attacked (%s)", rfNames[f.Kind]))
			return
		}
		if len(vict.Read) != 0 {
			r.Violate("data-after-failed-handshake", site, "application data delivered after a failed handshake")
			return
		}
		r.Outcome = "handshake-rejected"
		return
	}
	if !vict.HsDone || !sender.HsDone {
		if vict.HsErr == nil && sender.HsErr == nil {
			r.Violate("deadlock", site, fmt.Sprintf("handshake never returned although the fault was placed on application-phase record %d: %v", rl.FiredOn, s.Blocked))
			return
		}
	}
	if vict.HsErr != nil || sender.HsErr != nil {
		// fault index beyond the handshake but handshake failed: only possible if
		// the attacker touched something; with Rec >= 1 it did not.
		r.Violate("benign-failed", site, fmt.Sprintf("handshake failed (%v / %v) although the fault was placed on application-phase record %d", vict.HsErr, sender.HsErr, rl.FiredOn))
		return
	}

	// ---- expected delivery: plaintext of the records before the first affected one
	expect := -1
	closeNotifyHit := false
	if a.Suite != 0 {
		kl := reftls.ParseKeyLog(append(append([]byte(nil), ce.KeyLog.Bytes()...), se.KeyLog.Bytes()...))
		sess, err := reftls.Decode(cliRaw.WrPipe().Captured(), srvRaw.WrPipe().Captured(), reftls.DecodeOpts{KeyLog: kl, EncD: pki.D("srv-enc"), Tolerant: true})
		if err != nil || !sess.Complete {
			r.Violate("wire", suiteName, fmt.Sprintf("independent decode of what the endpoints sent failed: %v", err))
			return
		}
		for d := 0; d < 2; d++ {
			if err := sess.AuditNonces(d); err != nil {
				r.Violate("nonce-audit", suiteName, err.Error())
				return
			}
			// the capture is taken at the sender, before the attacker: every record an
			// endpoint wrote must authenticate under the independently derived keys and
			// the independently counted sequence number
			if sess.Stopped[d] != "" {
				r.Violate("wire", suiteName, fmt.Sprintf("direction %d as sent by the endpoint: %s under the independently derived keys and sequence numbers (%d records decoded)", d, sess.Stopped[d], len(sess.Recs[d])))
				return
			}
		}
		if a.Long {
			r.Reach(idx(attackReach, "long-session"))
		}
		if rl.Fired && f.Kind == rfReplayOld && rl.ReplayDist >= 255 {
			r.Reach(idx(attackReach, "replay-at-distance>=255"))
		}
		r.Reach(idx(attackReach, "nonce-audit"))
		pi := 0
		sum := 0
		nprot := 0
		cnIdx := 1 << 30 // protected index of the sender's close_notify
		for _, ri := range sess.Recs[f.Dir] {
			if !ri.Protected {
				continue
			}
			if ri.Type == reftls.RecAlert && cnIdx == 1<<30 {
				cnIdx = nprot
			}
			nprot++
			if pi < rl.FiredOn && ri.Type == reftls.RecApp {
				sum += ri.PlainLen
			}
			if pi == rl.FiredOn || (rl.InclTarget && pi == rl.FiredOn-1) {
				if ri.Type == reftls.RecAlert {
					closeNotifyHit = true
				}
			}
			pi++
		}
		expect = sum
		// fatal alert from the victim (it travels in the other direction)
		fatal := false
		for _, al := range sess.Alerts[1-f.Dir] {
			if al[0] == reftls.AlertFatal {
				fatal = true
			}
		}
		if fatal {
			r.Reach(idx(attackReach, "fatal-alert-seen"))
		}
		if rl.FiredOn > cnIdx {
			// the affected record follows the sender's close_notify: the receiver has
			// legitimately stopped reading before it
			if vict.ReadErr == nil && bytes.Equal(vict.Read, sent) {
				r.Reach(idx(attackReach, "fault-on-close-notify"))
				r.Outcome = "after-close-notify"
				return
			}
		}
		lenField := f.Kind == rfLenPlus || (f.Kind == rfBitFlip && rl.BitClass == "header-bit" && (f.Bit%(8*rl.FiredLen))/8 >= 3)
		// the swap/drop of the last record degenerates into an early end of stream
		lastRec := rl.FiredOn >= nprot-1
		eofStyle := rl.EOFStyle
		if (f.Kind == rfDrop || f.Kind == rfSwap) && !lastRec {
			eofStyle = false
		}
		if f.Kind == rfSwap && lastRec {
			// nothing followed: the held record was delivered in order
			if vict.ReadErr == nil && bytes.Equal(vict.Read, sent) {
				r.Outcome = "swap-without-successor"
				return
			}
		}
		if lenField && (vict.ReadErr == io.ErrUnexpectedEOF || (vict.ReadErr == nil && !vict.ReadDone)) {
			// enlarged length field: the receiver waits for the missing bytes and then
			// sees the stream end inside the record (or is still waiting)
			eofStyle = true
		}
		if closeNotifyHit {
			r.Reach(idx(attackReach, "fault-on-close-notify"))
		} else {
			r.Reach(idx(attackReach, "fault-on-appdata"))
		}
		if len(vict.Read) != expect {
			r.Violate("wrong-delivery", site, fmt.Sprintf("victim was handed %d bytes; the records before the first affected one (protected record %d of %s) carry %d bytes (sent %d) [fault %s bit %d n %d]", len(vict.Read), rl.FiredOn, []string{"c2s", "s2c"}[f.Dir], expect, len(sent), rfNames[f.Kind], f.Bit, f.N))
			return
		}
		r.Reach(idx(attackReach, "exact-prefix-checked"))
		if eofStyle {
			r.Reach(idx(attackReach, "eof-style-end"))
			// end of stream injected by the attacker: EOF / ErrUnexpectedEOF / error all accepted;
			// nothing may be delivered afterwards (checked by exact length above)
			if vict.ReadErr != nil && vict.AfterN != 0 {
				r.Violate("data-after-error", site, fmt.Sprintf("Read after the error returned %d bytes", vict.AfterN))
				return
			}
			if f.Kind == rfTruncClose && vict.ReadDone && vict.ReadErr == nil && rl.FiredLen > 5 && f.N%rl.FiredLen >= 5 {
				// the stream ended inside the body of a record: a truncated record must
				// not look like a clean end of stream
				r.Violate("truncation-undetected", site, fmt.Sprintf("the stream was cut %d bytes into a %d-byte record and the victim read a clean EOF", f.N%rl.FiredLen, rl.FiredLen))
				return
			}
			r.Outcome = "early-end-prefix-only"
			return
		}
		if !vict.ReadDone {
			// still waiting for input on an open stream (e.g. the attacker withheld bytes):
			// legitimate; the exact-prefix clause above already held
			r.Outcome = "waiting-legit"
			return
		}
		if vict.ReadErr == nil {
			r.Violate("tampering-undetected", site, fmt.Sprintf("victim read a clean EOF after %d bytes although protected record %d was attacked (%s, type %d, %d bytes on the wire)", len(vict.Read), rl.FiredOn, rfNames[f.Kind], rl.FiredType, rl.FiredLen))
			return
		}
		if vict.AfterN != 0 || vict.AfterErr == nil {
			r.Violate("error-not-sticky", site, fmt.Sprintf("Read after the fatal error returned (%d, %v)", vict.AfterN, vict.AfterErr))
			return
		}
		r.Reach(idx(attackReach, "sticky-error-checked"))
		if !fatal && !a.WDead {
			// (with an expired write deadline the alert cannot reach the wire; the
			// failure must be just as final for the reader)
			r.Violate("no-fatal-alert", site, fmt.Sprintf("victim rejected the record (%v) but sent no fatal alert", vict.ReadErr))
			return
		}
		r.Outcome = "rejected-with-alert"
		return
	}
	// ---- TLS path (no reference decoder): prefix + detection
	if rl.EOFStyle || f.Kind == rfLenPlus {
		r.Outcome = "tls-early-end-prefix-only"
		return
	}
	if vict.ReadErr == nil && bytes.Equal(vict.Read, sent) && f.Kind != rfSwap && f.Kind != rfDup {
		r.Violate("tampering-undetected", site, fmt.Sprintf("TLS path: victim read the complete stream and a clean EOF although record %d was attacked (%s)", rl.FiredOn, rfNames[f.Kind]))
		return
	}
	if rl.FiredType == reftls.RecAlert && (f.Kind == rfDup || f.Kind == rfSwap || f.Kind == rfDrop) {
		r.Outcome = "tls-close-notify-touched"
		return
	}
	if !vict.ReadDone {
		r.Outcome = "tls-waiting-legit"
		return
	}
	if vict.ReadErr == nil && f.Kind == rfDup {
		r.Violate("tampering-undetected", site, "TLS path: duplicated record accepted")
		return
	}
	if vict.ReadErr != nil && (vict.AfterN != 0 || vict.AfterErr == nil) {
		r.Violate("error-not-sticky", site, fmt.Sprintf("Read after the fatal error returned (%d, %v)", vict.AfterN, vict.AfterErr))
		return
	}
	r.Outcome = "tls-rejected"
	return
}

func runRecordAttack(c *simkit.Choice, r *simkit.Rec) {
	a := drawAttackSession(c, false)
	f := drawRecFault(c, &a)
	runAttack(c, r, &a, &f, false)
}

// ---- enumerated sweep -----------------------------------------------------
//
// Choice prefix of a sweep run: [session seed, position]. The session (suite,
// tiny payloads so that every record is <= 128 bytes) is a pure function of the
// session seed; the position enumerates every bit of every protected record of
// both directions, every truncation and extension length, drop, duplicate and
// adjacent swap.

const (
	sweepRecs    = 5    // protected records per direction swept (Finished, <=3 data, close_notify)
	sweepBits    = 1064 // 133 bytes * 8: records up to 128 bytes + 5 header bytes
	sweepTrunc   = 133
	sweepExt     = 32
	sweepPerRec  = sweepBits + sweepTrunc + sweepExt + 4
	sweepPerSess = 2 * sweepRecs * sweepPerRec
)

// sweepEnum returns the choice prefix for enumerated run k.
func sweepEnum(seed uint64, k uint64) []uint32 {
	sess := k / sweepPerSess
	pos := k % sweepPerSess
	ss := uint32(simkit.Mix(seed, 702, sess) % (1 << 30))
	return []uint32{ss, uint32(pos)}
}

func runRecordSweep(c *simkit.Choice, r *simkit.Rec) {
	ss := c.Choose(1<<30, simkit.LScen)
	pos := c.Choose(sweepPerSess, simkit.LFault)
	inner := simkit.NewChoice(uint64(ss)*2654435761 + 17)
	a := drawAttackSession(inner, true)
	var f recFault
	f.Dir = pos / (sweepRecs * sweepPerRec)
	p := pos % (sweepRecs * sweepPerRec)
	f.Rec = p / sweepPerRec
	q := p % sweepPerRec
	switch {
	case q < sweepBits:
		f.Kind = rfBitFlip
		f.Bit = q
	case q < sweepBits+sweepTrunc:
		f.Kind = rfTruncClose
		f.N = q - sweepBits
	case q < sweepBits+sweepTrunc+sweepExt:
		f.Kind = rfExtend
		f.N = 1 + q - sweepBits - sweepTrunc
		f.Val = 0x55
	default:
		f.Kind = []int{rfDrop, rfDup, rfSwap, rfLenPlus}[q-sweepBits-sweepTrunc-sweepExt]
		f.N = 1
	}
	f.Exact = true
	// record sizes of this session (from a cached fault-free dry run): positions
	// beyond a record are skipped without simulating
	sz := sweepSessionSizes(ss, &a)
	valid := f.Rec < len(sz[f.Dir])
	if valid {
		n := sz[f.Dir][f.Rec]
		switch f.Kind {
		case rfBitFlip:
			valid = f.Bit < 8*n
		case rfTruncClose:
			valid = f.N < n
		}
	}
	total := 0
	for d := 0; d < 2; d++ {
		for i, n := range sz[d] {
			if i < sweepRecs {
				total += 8*n + n + sweepExt + 4
			}
		}
	}
	r.Extra = map[string]map[string]int64{fmt.Sprintf("sweep-session-%d", ss): {"expected_positions": int64(total), "records_c2s": int64(len(sz[0])), "records_s2c": int64(len(sz[1]))}}
	if !valid {
		r.Outcome = "position-outside-record-skipped"
		r.Config = "sweep-skip"
		return
	}
	r.Extra[fmt.Sprintf("sweep-session-%d", ss)]["positions_run"] = 1
	runAttack(c, r, &a, &f, true)
	if r.Detail != nil {
		r.Detail["session_seed"] = ss
		r.Detail["position"] = pos
	}
}

var sweepSizeCache = map[int][2][]int{}

// sweepSessionSizes runs the session once without any fault and returns the
// wire sizes of the protected records of both directions.
func sweepSessionSizes(ss int, a *attackSession) [2][]int {
	if v, ok := sweepSizeCache[ss]; ok {
		return v
	}
	c := simkit.NewReplay(nil)
	r := simkit.NewRec(attackFaults, attackReach)
	f := recFault{Kind: rfNone, Rec: -1}
	c2s, s2c := runAttack(c, r, a, &f, false)
	var out [2][]int
	for _, rec := range c2s.prot {
		out[0] = append(out[0], len(rec))
	}
	for _, rec := range s2c.prot {
		out[1] = append(out[1], len(rec))
	}
	if len(sweepSizeCache) > 64 {
		sweepSizeCache = map[int][2][]int{}
	}
	sweepSizeCache[ss] = out
	return out
}

// ---- CBC padding with the reference as sender ---------------------------
//
// The reference client sends protected records whose CBC padding length is
// chosen freely (every legal value 0..255 is reachable) or whose padding / MAC
// is corrupted in exactly one byte; the gmtls server is the receiver.
// Enumerated: run k -> (mode, padding length, corrupted position).

var padAttackReach = []string{"pad-valid-delivered", "pad>=128-accepted", "pad-255-accepted", "bad-padding-byte-rejected", "bad-mac-rejected", "protected-unexpected-type-ends-the-connection"}

func init() {
	register(Family{Name: "tls-record-padding", Prop: "C07", ID: 703, Weight: 1, FaultNames: []string{"padding-length", "bad-padding-byte", "bad-mac", "protected-unexpected-record-type"}, ReachNames: padAttackReach, Run: runRecordPadding, Enum: padEnum})
}

func padEnum(seed uint64, k uint64) []uint32 {
	// [session seed, mode (0 valid,1 bad pad byte,2 bad mac,3 protected record of an unexpected type), pad length, position]
	return []uint32{uint32(simkit.Mix(seed, 703, k/2048) % (1 << 30)), uint32((k / 256) % 4), uint32(k % 256), uint32((k / 1024) % 256)}
}

func runRecordPadding(c *simkit.Choice, r *simkit.Rec) {
	pki.Load()
	ss := c.Choose(1<<30, simkit.LScen)
	mode := c.Choose(4, simkit.LFault)
	padLen := c.Choose(256, simkit.LFault)
	pos := c.Choose(256, simkit.LFault)
	inner := simkit.NewChoice(uint64(ss)*40503 + 3)
	n := inner.Range(1, 300, simkit.LScen)
	payload := drawData(inner, n+15)
	// the content length is adjusted so that the requested padding length is a
	// legal one for this record (content + 32-byte MAC + padding + length byte fill
	// whole blocks): every length 0..255 is exercised exactly, not rounded
	n += (16 - (n+33+padLen)%16) % 16
	payload = payload[:n]
	pre := drawData(inner, inner.Range(1, 100, simkit.LScen))
	entS := simkit.NewStream(uint64(inner.Choose(1<<31, simkit.LEntropy)) + 71)
	entC := simkit.NewStream(uint64(inner.Choose(1<<31, simkit.LEntropy)) + 73)
	s := simkit.NewSim(c, simkit.Policy{StarveNode: -1}, 2000000)
	a, b := s.NewConnPair("ref", "srv", simkit.NetCfg{}, simkit.NetCfg{})
	var got []byte
	var rerr, hsErr error
	afterN := -1
	done := false
	s.Spawn("srv", 1, func() {
		cfg := &gmtls.Config{GMSupport: gmtls.NewGMSupport(), Rand: entS, Time: simTime(s, 0), Certificates: gmServerCerts("srv-sign", "srv-enc"), CipherSuites: []uint16{gmtls.GMTLS_ECC_SM4_CBC_SM3}, SessionTicketsDisabled: true}
		conn := gmtls.Server(b, cfg)
		if hsErr = conn.Handshake(); hsErr != nil {
			b.Close()
			done = true
			return
		}
		buf := make([]byte, 4096)
		for {
			m, err := conn.Read(buf)
			got = append(got, buf[:m]...)
			if err == io.EOF {
				break
			}
			if err != nil {
				rerr = err
				afterN, _ = conn.Read(buf)
				break
			}
		}
		conn.Close()
		done = true
	})
	var refErr error
	var alerts [][2]byte
	s.Spawn("ref", 0, func() {
		pc := reftls.NewConn(a)
		a.SetReadDeadlineNS(s.Now + 60e9)
		res, err := reftls.ClientHandshake(pc, &reftls.ClientCfg{Rand: entC, Suites: []uint16{reftls.SuiteCBC}, ServerName: "server.sim"})
		if err != nil || !res.Complete {
			refErr = fmt.Errorf("reference handshake: %v", err)
			a.Close()
			return
		}
		pc.WriteRecord(reftls.RecApp, pre) // an ordinary record first
		o := &reftls.ProtectOpts{PadLen: padLen, BadPadAt: -1}
		switch mode {
		case 1:
			o.BadPadAt = pos
		case 2:
			o.BadMAC = true
		}
		if mode == 3 {
			// a correctly protected record that has no business in the middle of
			// application data (only a key holder can produce it): a renegotiation
			// attempt or a stray ChangeCipherSpec. The connection must end there.
			switch pos % 4 {
			case 0:
				pc.WriteRecordOpts(reftls.RecHandshake, reftls.Handshake(reftls.HsHelloRequest, nil), o)
			case 1:
				pc.WriteRecordOpts(reftls.RecHandshake, reftls.Handshake(reftls.HsClientHello, res.CH.Marshal()), o)
			case 2:
				pc.WriteRecordOpts(reftls.RecHandshake, reftls.Handshake(reftls.HsFinished, payload[:12%len(payload)+1]), o)
			case 3:
				pc.WriteRecordOpts(reftls.RecCCS, []byte{1}, o)
			}
		} else {
			pc.WriteRecordOpts(reftls.RecApp, payload, o)
		}
		pc.WriteRecord(reftls.RecApp, []byte("tail"))
		pc.CloseNotify()
		for {
			if _, err := pc.ReadApp(); err != nil {
				break
			}
		}
		alerts = pc.AlertsIn
		a.Close()
	})
	s.Run()
	r.FromSim(s)
	r.Nontrivial = true
	r.Config = fmt.Sprintf("padding/mode%d", mode)
	r.Sig(uint64(mode)<<16 | uint64(padLen)<<8 | uint64(pos))
	r.Detail = map[string]interface{}{"session_seed": ss, "mode": []string{"valid-padding", "one-padding-byte-corrupted", "mac-corrupted", "protected-record-of-unexpected-type"}[mode], "requested_pad_len": padLen, "position": pos, "payload": n, "server_read": len(got), "server_err": errStr(rerr)}
	s.TaskPanics(r)
	if r.Violation() != nil || r.HarnessErr != "" {
		return
	}
	site := "e013/padding"
	if refErr != nil || hsErr != nil {
		r.Violate("honest-peer-rejected", site, fmt.Sprintf("handshake with the reference client failed: %v / %v", refErr, hsErr))
		return
	}
	if !done {
		r.Violate("keeps-waiting", site, fmt.Sprintf("server did not finish: %v", s.Blocked))
		return
	}
	// effective padding length: smallest legal value >= requested (mod 16 class), <= 255
	fatal := false
	for _, al := range alerts {
		if al[0] == reftls.AlertFatal {
			fatal = true
		}
	}
	switch mode {
	case 0:
		r.Fault(0)
		want := append(append(append([]byte(nil), pre...), payload...), []byte("tail")...)
		if rerr != nil || !bytes.Equal(got, want) {
			r.Violate("valid-padding-rejected", site, fmt.Sprintf("record with legal CBC padding (requested length %d) was not delivered intact: err=%v, %d of %d bytes", padLen, rerr, len(got), len(want)))
			return
		}
		r.Reach(idx(padAttackReach, "pad-valid-delivered"))
		if padLen >= 128 {
			r.Reach(idx(padAttackReach, "pad>=128-accepted"))
		}
		if padLen >= 240 {
			r.Reach(idx(padAttackReach, "pad-255-accepted"))
		}
		r.Outcome = "delivered"
	default:
		r.Fault(mode)
		// a padding byte can only be corrupted if there is padding besides the length byte
		if mode == 1 && bytes.Equal(got, append(append(append([]byte(nil), pre...), payload...), []byte("tail")...)) && rerr == nil {
			// effective padding length 0: nothing to corrupt — the sender left the record valid
			min := 15 - (n+32)%16
			eff := padLen
			if eff < min {
				eff = min
			}
			if min == 0 && padLen == 0 {
				r.Outcome = "no-padding-byte-to-corrupt"
				return
			}
			r.Violate("tampering-undetected", site, fmt.Sprintf("record with a corrupted CBC padding byte (pad length >= %d, position %d) was accepted", eff, pos))
			return
		}
		if !bytes.Equal(got, pre) {
			r.Violate("wrong-delivery", site, fmt.Sprintf("server was handed %d bytes; only the %d bytes of the record before the corrupted one may be delivered", len(got), len(pre)))
			return
		}
		if rerr == nil {
			r.Violate("tampering-undetected", site, "server read a clean EOF after a corrupted record")
			return
		}
		if afterN > 0 {
			r.Violate("error-not-sticky", site, "data delivered after the fatal error")
			return
		}
		if !fatal && mode != 3 {
			r.Violate("no-fatal-alert", site, fmt.Sprintf("record rejected (%v) without a fatal alert", rerr))
			return
		}
		if mode == 1 || mode == 2 {
			// a record that fails to decrypt is refused the same way whatever part of it
			// was wrong - padding or MAC -: bad_record_mac. A distinguishable answer is a
			// padding oracle.
			for _, al := range alerts {
				if al[0] == reftls.AlertFatal && al[1] != 20 {
					r.Violate("distinguishable-decryption-failure", site, fmt.Sprintf("a record with %s was answered with alert %d (%v); every decryption failure must look like bad_record_mac (20)", map[int]string{1: "a corrupted padding byte", 2: "a corrupted MAC"}[mode], al[1], rerr))
					return
				}
			}
		}
		switch mode {
		case 1:
			r.Reach(idx(padAttackReach, "bad-padding-byte-rejected"))
		case 2:
			r.Reach(idx(padAttackReach, "bad-mac-rejected"))
		default:
			r.Reach(idx(padAttackReach, "protected-unexpected-type-ends-the-connection"))
		}
		r.Outcome = "rejected-with-alert"
	}
}
