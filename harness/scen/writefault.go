package scen

import (
	"bytes"
	"encoding/hex"
	"fmt"
	"io"

	"github.com/tjfoc/gmsm/gmtls"
	"github.com/tjfoc/gmsm/verifsim/pki"
	"github.com/tjfoc/gmsm/verifsim/ref/reftls"
	"github.com/tjfoc/gmsm/verifsim/simkit"
)

// C07, write side: the sender's transport fails once in the middle of a
// protected record (a write deadline that expires half-way); the application
// then closes the connection, which makes gmtls send a close_notify. Whatever
// follows the damaged record on the wire must be protected under a sequence
// number / nonce that no earlier record - the partly written one included -
// has used, and the receiver must still deliver a prefix only.

var wfFaults = []string{"transport-write-fails-mid-record", "transport-write-fails-at-record-start"}
var wfReach = []string{"gm-cbc", "gm-gcm", "record-after-failed-write-seen", "sequence-after-failed-write-checked", "receiver-prefix-checked"}

func init() {
	register(Family{Name: "tls-record-writefault", Prop: "C07", ID: 704, Weight: 1, FaultNames: wfFaults, ReachNames: wfReach, Run: runRecordWriteFault})
}

func runRecordWriteFault(c *simkit.Choice, r *simkit.Rec) {
	pki.Load()
	suite := gmSuites[c.Choose(2, simkit.LScen)]
	senderIsServer := c.Bool(1, 2, simkit.LScen)
	nw := c.Range(1, 6, simkit.LScen)
	var writes []int
	total := 0
	for i := 0; i < nw; i++ {
		n := []int{1, 3, 16, 40, 200, 1000, 5000}[c.Choose(7, simkit.LScen)]
		writes = append(writes, n)
		total += n
	}
	payload := drawData(c, total)
	failOff := c.Range(0, total+40*nw+30, simkit.LFault) // offset into the sender's application-phase byte stream
	entC := simkit.NewStream(uint64(c.Choose(1<<31, simkit.LEntropy)) + 81)
	entS := simkit.NewStream(uint64(c.Choose(1<<31, simkit.LEntropy)) + 83)
	pol := simkit.Policy{StarveNode: -1, MeanGap: []int{0, 7}[c.Choose(2, simkit.LScen)]}
	s := simkit.NewSim(c, pol, 4000000)
	capt := simkit.NetCfg{Capture: true}
	a, b := s.NewConnPair("cli", "srv", capt, capt)
	suiteName := fmt.Sprintf("%04x", suite)
	r.Config = "writefault/" + suiteName
	r.Sig(uint64(suite)<<32 | uint64(failOff)<<8 | uint64(nw))
	r.Nontrivial = true
	if suite == gmtls.GMTLS_ECC_SM4_CBC_SM3 {
		r.Reach(idx(wfReach, "gm-cbc"))
	} else {
		r.Reach(idx(wfReach, "gm-gcm"))
	}
	var klC, klS bytes.Buffer
	ccfg := &gmtls.Config{GMSupport: gmtls.NewGMSupport(), Rand: entC, Time: simTime(s, 0), RootCAs: pki.Pool("caA"), ServerName: "server.sim", CipherSuites: []uint16{suite}, KeyLogWriter: &klC}
	scfg := &gmtls.Config{GMSupport: gmtls.NewGMSupport(), Rand: entS, Time: simTime(s, 0), Certificates: gmServerCerts("srv-sign", "srv-enc"), CipherSuites: []uint16{suite}, SessionTicketsDisabled: true, KeyLogWriter: &klS}
	var hsErr [2]error
	var got []byte
	var readErr, writeErr error
	var appStart int64 = -1
	readDone := false
	sender := func(conn *gmtls.Conn, raw *simkit.Conn, side int) {
		if hsErr[side] = conn.Handshake(); hsErr[side] != nil {
			raw.Close()
			return
		}
		wp := raw.WrPipe()
		appStart = wp.BytesW
		wp.FailErr = simkit.ErrWriteTimeout
		wp.FailAt = wp.BytesW + int64(failOff)
		off := 0
		for _, n := range writes {
			if _, err := conn.Write(payload[off : off+n]); err != nil {
				writeErr = err
				break
			}
			off += n
		}
		conn.Close()
	}
	receiver := func(conn *gmtls.Conn, raw *simkit.Conn, side int) {
		if hsErr[side] = conn.Handshake(); hsErr[side] != nil {
			raw.Close()
			return
		}
		buf := make([]byte, 700)
		for {
			n, err := conn.Read(buf)
			got = append(got, buf[:n]...)
			if err != nil {
				if err != io.EOF {
					readErr = err
				}
				break
			}
		}
		readDone = true
		conn.Close()
	}
	cconn, sconn := gmtls.Client(a, ccfg), gmtls.Server(b, scfg)
	if senderIsServer {
		s.Spawn("srv", 1, func() { sender(sconn, b, 1) })
		s.Spawn("cli", 0, func() { receiver(cconn, a, 0) })
	} else {
		s.Spawn("cli", 0, func() { sender(cconn, a, 0) })
		s.Spawn("srv", 1, func() { receiver(sconn, b, 1) })
	}
	s.Run()
	r.FromSim(s)
	sendRaw, dir := a, 0
	if senderIsServer {
		sendRaw, dir = b, 1
	}
	wire := sendRaw.WrPipe().Captured()
	failed := sendRaw.WrPipe().Failed
	r.Detail = map[string]interface{}{"suite": suiteName, "sender": map[bool]string{true: "server", false: "client"}[senderIsServer], "writes": writes, "fail_offset": failOff, "failed": failed, "write_err": errStr(writeErr), "read_err": errStr(readErr), "delivered": len(got)}
	s.TaskPanics(r)
	if r.Violation() != nil || r.HarnessErr != "" {
		return
	}
	site := suiteName + "/write-fault"
	if s.Reason != simkit.StopDone {
		r.Violate("deadlock", site, fmt.Sprintf("did not wind down after the failed write (%d): %v", s.Reason, s.Blocked))
		return
	}
	if hsErr[0] != nil || hsErr[1] != nil {
		r.Violate("benign-failed", site, fmt.Sprintf("handshake failed without any fault: %v / %v", hsErr[0], hsErr[1]))
		return
	}
	// receiver: a prefix of what was sent, never a clean end after a damaged record
	if !bytes.HasPrefix(payload, got) {
		r.Violate("delivered-not-prefix", site, fmt.Sprintf("receiver got %d bytes that are not a prefix of the %d bytes written (first difference at %d)", len(got), len(payload), firstDiff(got, payload)))
		return
	}
	r.Reach(idx(wfReach, "receiver-prefix-checked"))
	if !failed {
		if !readDone || readErr != nil || len(got) != len(payload) {
			r.Violate("benign-failed", site, fmt.Sprintf("no fault fired but the receiver ended with %v after %d of %d bytes", readErr, len(got), len(payload)))
		}
		r.Outcome = "no-fault"
		return
	}
	// locate the damaged record in the sender's byte stream
	cut := int(appStart) + failOff // first byte that never reached the wire
	recs, _ := reftls.ParseRecords(wire[:cut])
	recStart := 0
	nprot := 0 // protected records completely written before the damaged one
	seenCCS := false
	for _, rc := range recs {
		recStart += 5 + len(rc.Body)
		if seenCCS {
			nprot++
		}
		if rc.Type == reftls.RecCCS {
			seenCCS = true
		}
	}
	partial := cut - recStart // bytes of the damaged record that did reach the wire
	if partial == 0 {
		r.Fault(idx(wfFaults, "transport-write-fails-at-record-start"))
	} else {
		r.Fault(idx(wfFaults, "transport-write-fails-mid-record"))
	}
	after, _ := reftls.ParseRecords(wire[cut:])
	if len(after) == 0 {
		r.Outcome = "nothing-sent-after-the-failed-write"
		return
	}
	r.Reach(idx(wfReach, "record-after-failed-write-seen"))
	// keys of the sender's direction from the key log
	kl := reftls.ParseKeyLog(append(append([]byte(nil), klC.Bytes()...), klS.Bytes()...))
	sess, err := reftls.Decode(a.WrPipe().Captured(), b.WrPipe().Captured(), reftls.DecodeOpts{KeyLog: kl, Tolerant: true})
	if err != nil || sess.CH == nil || sess.SH == nil {
		r.Violate("wire", site, fmt.Sprintf("independent decode of the handshake failed: %v", err))
		return
	}
	master := kl[hex.EncodeToString(sess.CH.Random)]
	keys, err := reftls.KeyBlock(master, sess.CH.Random, sess.SH.Random, suite)
	if err != nil || master == nil {
		r.HarnessErr = "no master secret / key block for the write-fault audit"
		return
	}
	mk := func() *reftls.Half {
		var h *reftls.Half
		if dir == 0 {
			h, _ = reftls.NewHalf(suite, keys.CKey, keys.CMac, keys.CIV)
		} else {
			h, _ = reftls.NewHalf(suite, keys.SKey, keys.SMac, keys.SIV)
		}
		return h
	}
	// the damaged record took sequence number nprot (if any of it was produced at
	// all); the next record on the wire must not use it again when ciphertext of
	// the damaged record has already left
	minCipher := 5 + 16 + 1
	if suite == gmtls.GMTLS_ECC_SM4_GCM_SM3 {
		minCipher = 5 + 8 + 1
	}
	first := after[0]
	try := func(seq uint64) bool {
		h := mk()
		h.Seq = seq
		_, _, err := h.Unprotect(first.Type, first.Vers, first.Body)
		return err == nil
	}
	next, same := try(uint64(nprot)+1), try(uint64(nprot))
	r.Reach(idx(wfReach, "sequence-after-failed-write-checked"))
	switch {
	case same && partial >= minCipher:
		r.Violate("nonce-reuse", site, fmt.Sprintf("the record sent after the failed write (type %d) is protected under sequence number %d, the number of the record of which %d bytes (ciphertext included) had already been written: the same key and nonce/sequence protect two different records", first.Type, nprot, partial))
	case !next && !same:
		r.Violate("wire", site, fmt.Sprintf("the record sent after the failed write authenticates neither under sequence number %d nor %d", nprot, nprot+1))
	default:
		r.Outcome = "sequence-advanced"
	}
}
