package scen

import (
	"bytes"
	"fmt"
	"io"

	"github.com/tjfoc/gmsm/gmtls"
	"github.com/tjfoc/gmsm/verifsim/pki"
	"github.com/tjfoc/gmsm/verifsim/ref/reftls"
	"github.com/tjfoc/gmsm/verifsim/simkit"
)

// C16, client side: the gmtls client with a session cache against the
// reference server, which issues a ticket in the first connection and, in the
// second, resumes honestly, declines, or "resumes" something else than the
// session the client holds. When both ends resume they must hold the original
// master secret, version, suite and peer identity; anything else must make the
// client abort.

var resCliFaults = []string{"resume-honest", "decline", "resume-other-offered-suite", "resume-unoffered-suite", "resume-other-version", "resume-wrong-master", "resume-session-not-offered"}
var resCliReach = []string{"client-resumed-with-reference-server", "client-fell-back", "client-refused-altered-session", "gm-mode", "tls-mode", "ticket-offered"}

func init() {
	register(Family{Name: "tls-resumption-client", Prop: "C16", ID: 1602, Weight: 1, FaultNames: resCliFaults, ReachNames: resCliReach, Run: runResumptionClient})
}

func runResumptionClient(c *simkit.Choice, r *simkit.Rec) {
	pki.Load()
	gm := !c.Bool(1, 2, simkit.LScen)
	var suites []uint16
	if gm {
		suites = []uint16{gmSuites[0], gmSuites[1]}
	} else {
		suites = [][]uint16{{0x009c, 0x002f}, {0x002f, 0x009c}, {0xc02f, 0x009c}, {0x009d, 0xc030}}[c.Choose(4, simkit.LScen)]
	}
	if c.Bool(1, 2, simkit.LScen) {
		suites[0], suites[1] = suites[1], suites[0]
	}
	kind := c.Choose(len(resCliFaults), simkit.LFault)
	clientAuth := c.Bool(1, 3, simkit.LScen)
	seed := uint64(c.Choose(1<<31, simkit.LEntropy)) + 91
	ticket := drawData(c, c.Range(32, 220, simkit.LScen))
	pol := simkit.Policy{StarveNode: -1, MeanGap: []int{0, 9}[c.Choose(2, simkit.LScen)]}
	s := simkit.NewSim(c, pol, 4000000)
	mode := map[bool]string{true: "gmssl", false: "tls"}[gm]
	r.Config = fmt.Sprintf("rescli/%s/%s", mode, resCliFaults[kind])
	r.SigStr(r.Config)
	r.Sig(uint64(suites[0])<<16 | uint64(suites[1]))
	r.Fault(kind)
	r.Nontrivial = true
	if gm {
		r.Reach(idx(resCliReach, "gm-mode"))
	} else {
		r.Reach(idx(resCliReach, "tls-mode"))
	}

	cache := gmtls.NewLRUClientSessionCache(2)
	entC := simkit.NewStream(seed + 1)
	mkClient := func() *gmtls.Config {
		cc := &gmtls.Config{Rand: entC, Time: simTime(s, 0), ServerName: "server.sim", ClientSessionCache: cache, CipherSuites: suites}
		if gm {
			cc.GMSupport = gmtls.NewGMSupport()
			cc.RootCAs = pki.Pool("caA")
			if clientAuth {
				cc.Certificates = []gmtls.Certificate{pki.GM("cli")}
			}
		} else {
			cc.RootCAs = pki.Pool("rsaCA")
			if clientAuth {
				cc.Certificates = []gmtls.Certificate{pki.GMStd("tlsclirsa")}
			}
		}
		return cc
	}
	mkServer := func(n int) *reftls.ServerCfg {
		sc := &reftls.ServerCfg{Rand: simkit.NewStream(seed + 10 + uint64(n)), Suites: []uint16{suites[0], suites[1]}, RequestCert: clientAuth, VerifyClient: true}
		if gm {
			sc.Sign, sc.Enc = ident("srv-sign", true), ident("srv-enc", true)
			sc.CAs = [][]byte{reftls.SubjectFromCert(pki.DER("caA"))}
		} else {
			sc.TLS12 = true
			sc.Sign = &reftls.Identity{Chain: [][]byte{pki.DER("tlsrsa")}, RSA: refRSA("tlsrsa")}
			sc.CAs = [][]byte{reftls.SubjectFromCert(pki.DER("rsaCA"))}
		}
		return sc
	}
	type out struct {
		cerr    error
		st      gmtls.ConnectionState
		done    bool
		got     []byte
		res     *reftls.Result
		serr    error
		offered []byte
	}
	connect := func(tag string, sc *reftls.ServerCfg, o *out) {
		a, b := s.NewConnPair("c"+tag, "s"+tag, simkit.NetCfg{}, simkit.NetCfg{})
		cd, sd := &simkit.Flag{Name: "c"}, &simkit.Flag{Name: "s"}
		s.Spawn("cli"+tag, 0, func() {
			defer cd.Set()
			conn := gmtls.Client(a, mkClient())
			if o.cerr = conn.Handshake(); o.cerr != nil {
				a.Close()
				return
			}
			o.st = conn.ConnectionState()
			o.done = true
			conn.Write([]byte("ping"))
			buf := make([]byte, 16)
			n, _ := io.ReadFull(conn, buf[:4])
			o.got = append([]byte(nil), buf[:n]...)
			conn.Close()
		})
		s.Spawn("ref"+tag, 1, func() {
			defer sd.Set()
			pc := reftls.NewConn(b)
			b.SetReadDeadlineNS(s.Now + 60e9)
			o.res, o.serr = reftls.ServerHandshake(pc, sc)
			if o.res != nil && o.res.CH != nil {
				o.offered, _ = reftls.FindExt(o.res.CH.Exts, reftls.ExtSessionTicket)
			}
			if o.serr == nil && o.res.Complete {
				if d, err := pc.ReadApp(); err == nil && string(d) == "ping" || len(d) > 0 {
					pc.WriteRecord(reftls.RecApp, []byte("pong"))
				}
				pc.CloseNotify()
			}
			b.Close()
		})
		s.WaitFlag(cd)
		s.WaitFlag(sd)
	}
	var o1, o2 out
	s.Spawn("driver", 5, func() {
		sc1 := mkServer(1)
		sc1.IssueTicket = ticket
		connect("1", sc1, &o1)
		if o1.cerr != nil || o1.serr != nil || o1.res == nil {
			return
		}
		sc2 := mkServer(2)
		rs := &reftls.ResumeState{Ticket: ticket, Master: o1.res.Master, Suite: o1.res.Suite, Vers: o1.res.SH.Vers}
		other := suites[0] + suites[1] - o1.res.Suite
		switch resCliFaults[kind] {
		case "resume-honest":
		case "decline":
			rs = nil
		case "resume-other-offered-suite":
			rs.Suite = other
		case "resume-unoffered-suite":
			if gm {
				rs.Suite = 0xe011
			} else {
				rs.Suite = map[uint16]uint16{0x009c: 0x003c, 0x002f: 0x0035, 0xc02f: 0xc030, 0x009d: 0x009c, 0xc030: 0xc02f}[o1.res.Suite]
			}
		case "resume-other-version":
			if gm {
				rs.Vers = 0x0303
			} else {
				rs.Vers = []uint16{0x0302, 0x0301, 0x0101}[c.Choose(3, simkit.LFault)]
			}
		case "resume-wrong-master":
			rs.Master = drawData(c, 48)
		case "resume-session-not-offered":
			// the server "resumes" whatever ticket the client sends, with a secret of its own
			rs.Master = drawData(c, 48)
			rs.Ticket = nil
		}
		if rs != nil && rs.Ticket == nil {
			sc2.ResumeAny = true
			rs.Ticket = []byte{}
		}
		sc2.Resume = rs
		connect("2", sc2, &o2)
	})
	s.Run()
	r.FromSim(s)
	r.Detail = map[string]interface{}{"mode": mode, "kind": resCliFaults[kind], "suites": fmt.Sprintf("%04x", suites), "client_auth": clientAuth, "conn1_client_err": errStr(o1.cerr), "conn1_ref_err": errStr(o1.serr), "conn2_client_err": errStr(o2.cerr), "conn2_ref_err": errStr(o2.serr), "conn2_offered_ticket": len(o2.offered)}
	s.TaskPanics(r)
	if r.Violation() != nil || r.HarnessErr != "" {
		return
	}
	site := mode + "/" + resCliFaults[kind]
	if s.Reason != simkit.StopDone {
		r.Violate("deadlock", site, fmt.Sprintf("did not run to completion (%d): %v", s.Reason, s.Blocked))
		return
	}
	if o1.cerr != nil || o1.serr != nil || !o1.done {
		r.Violate("honest-peer-rejected", site, fmt.Sprintf("first (full) handshake with the reference server failed: client=%v reference=%v", o1.cerr, o1.serr))
		return
	}
	if o2.res == nil {
		r.HarnessErr = "second connection did not take place"
		return
	}
	offered := bytes.Equal(o2.offered, ticket)
	if !offered {
		// the client did not offer the ticket it was given: nothing to resume; the
		// reference server then performs a full handshake, which must work
		if o2.cerr != nil || o2.serr != nil || o2.st.DidResume {
			r.Violate("connection-failed", site, fmt.Sprintf("client offered no ticket, full handshake expected: client=%v reference=%v resumed=%v", o2.cerr, o2.serr, o2.st.DidResume))
		}
		r.Outcome = "not-offered"
		return
	}
	r.Reach(idx(resCliReach, "ticket-offered"))
	switch resCliFaults[kind] {
	case "resume-honest", "decline":
		if o2.cerr != nil || o2.serr != nil || !o2.done {
			r.Violate("connection-failed", site, fmt.Sprintf("second connection failed: client=%v reference=%v", o2.cerr, o2.serr))
			return
		}
		wantResume := resCliFaults[kind] == "resume-honest"
		if o2.st.DidResume != wantResume || o2.res.Resumed != wantResume {
			r.Violate("resume-disagree", site, fmt.Sprintf("reference server resumed=%v, client reports DidResume=%v", o2.res.Resumed, o2.st.DidResume))
			return
		}
		if string(o2.got) != "pong" {
			r.Violate("data-mismatch", site, fmt.Sprintf("client received %q after the handshake, want \"pong\"", o2.got))
			return
		}
		if wantResume {
			if o2.st.CipherSuite != o1.st.CipherSuite || o2.st.Version != o1.st.Version {
				r.Violate("session-changed", site, fmt.Sprintf("resumed session reports suite %04x version %04x, original had %04x %04x", o2.st.CipherSuite, o2.st.Version, o1.st.CipherSuite, o1.st.Version))
				return
			}
			if len(o2.st.PeerCertificates) != len(o1.st.PeerCertificates) || len(o2.st.PeerCertificates) == 0 || !bytes.Equal(o2.st.PeerCertificates[0].Raw, o1.st.PeerCertificates[0].Raw) {
				r.Violate("session-changed", site, "resumed session reports different peer certificates than the original")
				return
			}
			r.Reach(idx(resCliReach, "client-resumed-with-reference-server"))
		} else {
			r.Reach(idx(resCliReach, "client-fell-back"))
		}
		r.Outcome = "ok"
	default:
		// the server resumed something that is not the session the client holds
		if o2.cerr == nil || o2.done {
			r.Violate("altered-session-accepted", site, fmt.Sprintf("the server answered the ticket with an abbreviated handshake for suite %04x version %04x (original session: %04x %04x; kind %s) and the client completed (DidResume=%v)", o2.res.Suite, o2.res.SH.Vers, o1.st.CipherSuite, o1.st.Version, resCliFaults[kind], o2.st.DidResume))
			return
		}
		r.Reach(idx(resCliReach, "client-refused-altered-session"))
		r.Outcome = "refused"
	}
}
