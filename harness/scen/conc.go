package scen

import (
	"bytes"
	"crypto/cipher"
	"crypto/x509/pkix"
	"fmt"
	"io"
	"math/big"
	"os"
	"path/filepath"
	"runtime"
	"sort"
	"strings"
	"sync/atomic"
	"time"

	"github.com/anishathalye/porcupine"
	"github.com/tjfoc/gmsm/gmtls"
	"github.com/tjfoc/gmsm/pkcs12"
	"github.com/tjfoc/gmsm/sm2"
	"github.com/tjfoc/gmsm/sm3"
	"github.com/tjfoc/gmsm/sm4"
	"github.com/tjfoc/gmsm/verifsim/pki"
	"github.com/tjfoc/gmsm/verifsim/ref/reftls"
	"github.com/tjfoc/gmsm/verifsim/simkit"
	"github.com/tjfoc/gmsm/x509"
)

// C20: seeded cooperative scheduling of real code with preemption at
// statement / lock / atomic granularity. Oracles: every concurrent result
// equals the result of the same code run alone; linearizability (porcupine);
// the Go race detector evaluated on the simulated interleaving (race build).

var concFaults = []string{"preempt", "lock-contended", "curve-first-use", "close-during-write", "rotation-during-handshake", "pct-schedule", "dense-preemption", "transport-write-blocks", "peer-transport-abort"}
var concReach = []string{"block-shared", "pkg-sign", "pkg-encrypt", "pkg-hash", "pkg-sm4", "pkg-parse", "pkg-pkcs7-ber", "pkg-verify-chain", "pkg-sm4-modes", "pkg-key-codec", "pkg-create-cert", "pkg-pkcs12", "pkg-key-exchange", "pkg-system-pool", "pkg-deep-ber", "cache-linearizable", "cache-eviction", "pool-verify", "pool-verify-rejecting", "conn-linearizable", "conn-close-raced", "write-after-close-failed", "config-handshakes", "config-rotated", "config-resumed", "config-followup-resumption-owed", "config-rotation-inside-ticket-code", "config-client-shared", "config-vhost-handshakes", "config-shared-by-dials", "conn-multi-record-writes", "conn-write-inside-last-flight", "conn-quiet-peer", "conn-concurrent-ekm", "conn-hello-request", "conn-renegotiation-started", "conn-deadline-interrupt", "tasks>=8", "tasks>=16", "porcupine-unknown"}

func init() {
	for i, p := range []struct {
		name string
		w    int
		run  func(*simkit.Choice, *simkit.Rec)
	}{
		{"conc-block", 3, runConcBlock},
		{"conc-pkg", 3, runConcPkg},
		{"conc-cache", 2, runConcCache},
		{"conc-pool", 1, runConcPool},
		{"conc-conn", 3, runConcConn},
		{"conc-config", 2, runConcConfig},
	} {
		register(Family{Name: p.name, Prop: "C20", ID: uint64(2001 + i), Weight: p.w, PlainBuild: true, RaceBuild: true, FaultNames: concFaults, ReachNames: concReach, Run: p.run})
	}
}

func drawConcPolicy(c *simkit.Choice, r *simkit.Rec, expectSteps int) simkit.Policy {
	pol := simkit.Policy{StarveNode: -1}
	switch c.Weighted([]int{1, 3, 3, 2, 2}, simkit.LScen) {
	case 0:
		pol.MeanGap = 0
	case 1:
		pol.MeanGap = 2
		r.Fault(idx(concFaults, "dense-preemption"))
	case 2:
		pol.MeanGap = 12
	case 3:
		pol.MeanGap = 100
	case 4:
		pol.PCTDepth = 1 + c.Choose(3, simkit.LScen)
		pol.ExpectSteps = expectSteps
		r.Fault(idx(concFaults, "pct-schedule"))
	}
	return pol
}

func drawTasks(c *simkit.Choice, max int) int {
	n := []int{2, 3, 4, 6, 8, 16, 32}[c.Weighted([]int{6, 4, 4, 2, 2, 1, 1}, simkit.LScen)]
	if n > max {
		n = max
	}
	return n
}

func concFinish(s *simkit.Sim, r *simkit.Rec, site string) bool {
	r.FromSim(s)
	r.Nontrivial = s.Preempts > 0 || s.Switches > int64(len(s.Tasks()))
	r.Sig(s.TraceHash()[0]) // the interleaving itself is part of the run's identity
	if s.Preempts > 0 {
		r.FaultN(idx(concFaults, "preempt"), int(s.Preempts))
	}
	if s.LockWaits > 0 {
		r.FaultN(idx(concFaults, "lock-contended"), int(s.LockWaits))
	}
	nt := len(s.Tasks())
	if nt >= 8 {
		r.Reach(idx(concReach, "tasks>=8"))
	}
	if nt >= 16 {
		r.Reach(idx(concReach, "tasks>=16"))
	}
	s.TaskPanics(r)
	if r.Violation() != nil || r.HarnessErr != "" {
		return false
	}
	if s.Reason == simkit.StopDeadlock {
		r.Violate("deadlock", site, fmt.Sprintf("no task can run: %v", s.Blocked))
		return false
	}
	if s.Reason == simkit.StopBudget {
		r.Violate("no-progress", site, fmt.Sprintf("step budget exhausted: %v", s.Blocked))
		return false
	}
	return true
}

// ---- conc-block: one cipher.Block shared by many goroutines -------------

type blockOp struct {
	dec     bool
	in      [16]byte
	inplace bool
}

func runConcBlock(c *simkit.Choice, r *simkit.Rec) {
	key := drawData(c, 16)
	nt := drawTasks(c, 32)
	ops := make([][]blockOp, nt)
	for i := range ops {
		n := c.Range(1, 4, simkit.LOp)
		for j := 0; j < n; j++ {
			var op blockOp
			op.dec = c.Bool(1, 2, simkit.LOp)
			copy(op.in[:], drawData(c, 16))
			op.inplace = c.Bool(1, 3, simkit.LOp)
			ops[i] = append(ops[i], op)
		}
	}
	pol := drawConcPolicy(c, r, 40*nt)
	r.Config = "block"
	r.Sig(uint64(nt) | 1<<20)
	var blk cipher.Block
	var err error
	simkit.Guard(r, func() { blk, err = sm4.NewCipher(key) })
	if r.Violation() != nil || err != nil {
		return
	}
	// sequential results of the same code on the same object, before the concurrent phase
	want := make([][][16]byte, nt)
	for i := range ops {
		for _, op := range ops[i] {
			var out [16]byte
			if op.dec {
				blk.Decrypt(out[:], op.in[:])
			} else {
				blk.Encrypt(out[:], op.in[:])
			}
			want[i] = append(want[i], out)
		}
	}
	got := make([][][16]byte, nt)
	s := simkit.NewSim(c, pol, 2000000)
	for i := 0; i < nt; i++ {
		i := i
		got[i] = make([][16]byte, len(ops[i]))
		s.Spawn(fmt.Sprintf("t%d", i), i, func() {
			for j, op := range ops[i] {
				buf := op.in
				if op.inplace {
					if op.dec {
						blk.Decrypt(buf[:], buf[:])
					} else {
						blk.Encrypt(buf[:], buf[:])
					}
					got[i][j] = buf
				} else {
					var out [16]byte
					if op.dec {
						blk.Decrypt(out[:], buf[:])
					} else {
						blk.Encrypt(out[:], buf[:])
					}
					got[i][j] = out
				}
			}
		})
	}
	s.Run()
	r.Reach(idx(concReach, "block-shared"))
	r.Detail = map[string]interface{}{"program": "conc-block", "tasks": nt, "policy": fmt.Sprintf("%+v", pol), "preempts": s.Preempts, "switches": s.Switches}
	if !concFinish(s, r, "sm4.Block") {
		return
	}
	for i := range ops {
		for j := range ops[i] {
			if got[i][j] != want[i][j] {
				r.Violate("result-differs", "sm4.(*Sm4Cipher).Encrypt/Decrypt", fmt.Sprintf("task %d op %d (decrypt=%v): concurrent result %x, sequential result %x (%d tasks, %d preemptions)", i, j, ops[i][j].dec, got[i][j], want[i][j], nt, s.Preempts))
				return
			}
		}
	}
	r.Outcome = "ok"
}

// ---- conc-pkg: package-level operations on separate data ---------------

type pkgOp struct {
	kind int
	seed uint64
	n    int
}

const (
	pkSign = iota
	pkEncrypt
	pkHash
	pkSM4
	pkParse
	pkP7
	pkChain
	pkSM4Modes
	pkKeyCodec
	pkCreateCert
	pkP12
	pkKeyExchange
	pkSysPool
	pkDeepBER
	pkCount
)

var p7Fixture []byte

func loadP7() []byte {
	if p7Fixture == nil {
		b, err := os.ReadFile(filepath.Join(pki.Dir(), "p7signed.der"))
		if err != nil {
			panic(err)
		}
		p7Fixture = b
	}
	return p7Fixture
}

// doPkgOp runs one package-level operation; the result is a byte string that
// depends only on (kind, seed, n).
func doPkgOp(op pkgOp) []byte {
	st := simkit.NewStream(op.seed)
	data := make([]byte, 2+op.n)
	st.Read(data)
	switch op.kind {
	case pkSign:
		priv, err := sm2.GenerateKey(st)
		if err != nil {
			return []byte("keygen-err:" + err.Error())
		}
		sig, err := priv.Sign(st, data, nil)
		if err != nil {
			return []byte("sign-err:" + err.Error())
		}
		ok := priv.PublicKey.Verify(data, sig)
		data[0] ^= 1
		bad := priv.PublicKey.Verify(data, sig)
		data[0] ^= 1
		out := append(sig, boolByte(ok), boolByte(bad))
		// the same with caller-chosen user ids: an ordinary one, and (in one call of
		// four) one that is too long and must be refused - error paths run
		// concurrently with everybody else's good paths
		uid := []byte(fmt.Sprintf("user-%d@verifsim", op.n))
		r1, s1, err := sm2.Sm2Sign(priv, data, uid, st)
		if err != nil {
			return append(out, []byte("uidsign-err:"+err.Error())...)
		}
		out = append(out, boolByte(sm2.Sm2Verify(&priv.PublicKey, data, uid, r1, s1)), boolByte(sm2.Sm2Verify(&priv.PublicKey, data, []byte("someone else"), r1, s1)))
		if op.n%4 == 0 {
			long := make([]byte, 8192+op.n)
			_, _, e1 := sm2.Sm2Sign(priv, data, long, st)
			v := sm2.Sm2Verify(&priv.PublicKey, data, long, r1, s1)
			out = append(out, boolByte(e1 != nil), boolByte(v))
			r2, s2, err := sm2.Sm2Sign(priv, data, uid, st) // and straight afterwards a good call again
			out = append(out, boolByte(err == nil && sm2.Sm2Verify(&priv.PublicKey, data, uid, r2, s2)))
		}
		return out
	case pkEncrypt:
		priv, err := sm2.GenerateKey(st)
		if err != nil {
			return []byte("keygen-err:" + err.Error())
		}
		ct, err := sm2.Encrypt(&priv.PublicKey, data, st, 0)
		if err != nil {
			return []byte("enc-err:" + err.Error())
		}
		pt, err := sm2.Decrypt(priv, ct, 0)
		if err != nil {
			return append(ct, []byte("dec-err:"+err.Error())...)
		}
		return append(ct, pt...)
	case pkHash:
		h := sm3.New()
		h.Write(data[:len(data)/2])
		mid := h.Sum(nil)
		h.Write(data[len(data)/2:])
		return append(append(mid, h.Sum(nil)...), sm3.Sm3Sum(data)...)
	case pkSM4:
		key := make([]byte, 16)
		st.Read(key)
		e, err := sm4.Sm4Ecb(key, data, true)
		if err != nil {
			return []byte("ecb-err:" + err.Error())
		}
		d, _ := sm4.Sm4Ecb(key, e, false)
		cb, err := sm4.Sm4Cbc(key, data, true)
		if err != nil {
			return []byte("cbc-err:" + err.Error())
		}
		return append(append(e, d...), cb...)
	case pkParse:
		name := []string{"srv-sign", "srv-enc", "cli", "caAint", "srvrsa"}[op.n%5]
		cert, err := x509.ParseCertificate(pki.DER(name))
		if err != nil {
			return []byte("parse-err:" + err.Error())
		}
		parent := "caA"
		e := cert.CheckSignatureFrom(pki.Cert(parent))
		return []byte(fmt.Sprintf("%s|%x|%v|%v", cert.Subject.CommonName, cert.SerialNumber, cert.KeyUsage, e))
	case pkP7:
		p7, err := x509.ParsePKCS7(loadP7())
		if err != nil {
			return []byte("p7-err:" + err.Error())
		}
		e := p7.Verify()
		return []byte(fmt.Sprintf("%d|%x|%v", len(p7.Certificates), sm3.Sm3Sum(p7.Content), e))
	case pkSM4Modes:
		key := make([]byte, 16)
		st.Read(key)
		iv := make([]byte, 12)
		st.Read(iv)
		cf, err := sm4.Sm4CFB(key, data, true)
		if err != nil {
			return []byte("cfb-err:" + err.Error())
		}
		cfd, _ := sm4.Sm4CFB(key, cf, false)
		of, err := sm4.Sm4OFB(key, data, true)
		if err != nil {
			return []byte("ofb-err:" + err.Error())
		}
		// (whole blocks only: the decrypt helper indexes past a partial last block of
		// its input - a matter of C12, a pure function outside this technique)
		gin := make([]byte, (len(data)+15)/16*16)
		copy(gin, data)
		ct, tag, err := sm4.Sm4GCM(key, iv, gin, []byte("aad"), true)
		if err != nil {
			return []byte("gcm-err:" + err.Error())
		}
		pt, tag2, _ := sm4.Sm4GCM(key, iv, ct, []byte("aad"), false)
		return bytes.Join([][]byte{cf, cfd, of, ct, tag, pt, tag2}, []byte{'|'})
	case pkKeyCodec:
		priv, err := sm2.GenerateKey(st)
		if err != nil {
			return []byte("keygen-err:" + err.Error())
		}
		var pwd []byte
		if op.n%2 == 1 {
			pwd = []byte("pass-" + fmt.Sprint(op.n))
		}
		pemKey, err := x509.WritePrivateKeyToPem(priv, pwd) // (encrypted form: salt and IV from the library's random source)
		if err != nil {
			return []byte("writepem-err:" + err.Error())
		}
		back, err := x509.ReadPrivateKeyFromPem(pemKey, pwd)
		if err != nil {
			return []byte("readpem-err:" + err.Error())
		}
		pubPem, err := x509.WritePublicKeyToPem(&priv.PublicKey)
		if err != nil {
			return []byte("writepub-err:" + err.Error())
		}
		pub, err := x509.ReadPublicKeyFromPem(pubPem)
		if err != nil {
			return []byte("readpub-err:" + err.Error())
		}
		hx := x509.WritePrivateKeyToHex(priv)
		fromHex, err := x509.ReadPrivateKeyFromHex(hx)
		if err != nil {
			return []byte("hex-err:" + err.Error())
		}
		return []byte(fmt.Sprintf("%x|%v|%v|%v|%s|%x", priv.D, back.D.Cmp(priv.D) == 0 && back.X.Cmp(priv.X) == 0, pub.X.Cmp(priv.X) == 0 && pub.Y.Cmp(priv.Y) == 0, fromHex.D.Cmp(priv.D) == 0, pubPem, sm2.Compress(&priv.PublicKey)))
	case pkCreateCert:
		priv, err := sm2.GenerateKey(st)
		if err != nil {
			return []byte("keygen-err:" + err.Error())
		}
		tmpl := &x509.Certificate{SerialNumber: new(big.Int).SetUint64(op.seed), Subject: pkix.Name{CommonName: fmt.Sprintf("conc-%d", op.n), Organization: []string{"verifsim"}},
			NotBefore: simkit.TimeAt(-3600e9), NotAfter: simkit.TimeAt(3600e9), KeyUsage: x509.KeyUsageDigitalSignature | x509.KeyUsageCertSign, BasicConstraintsValid: true, IsCA: true,
			SignatureAlgorithm: x509.SM2WithSM3, DNSNames: []string{fmt.Sprintf("h%d.sim", op.n)}}
		der, err := x509.CreateCertificate(tmpl, tmpl, &priv.PublicKey, priv)
		if err != nil {
			return []byte("create-err:" + err.Error())
		}
		cert, err := x509.ParseCertificate(der)
		if err != nil {
			return []byte("parse-err:" + err.Error())
		}
		e1 := cert.CheckSignatureFrom(cert)
		other := pki.Cert("caA")
		e2 := cert.CheckSignatureFrom(other)
		pool := x509.NewCertPool()
		pool.AddCert(cert)
		_, e3 := cert.Verify(x509.VerifyOptions{Roots: pool, CurrentTime: simkit.TimeAt(0), DNSName: fmt.Sprintf("h%d.sim", op.n)})
		return []byte(fmt.Sprintf("%s|%x|%v|%v|%v|%v", cert.Subject.CommonName, cert.SerialNumber, cert.DNSNames, e1, e2 != nil, e3))
	case pkP12:
		name := []string{"srv-sign", "cli", "srv-enc"}[op.n%3]
		pwd := fmt.Sprintf("p12-%d", op.n)
		pfx, err := pkcs12.Encode(pki.SM2Key(name), pki.Cert(name), nil, pwd)
		if err != nil {
			return []byte("p12enc-err:" + err.Error())
		}
		k, cert, err := pkcs12.Decode(pfx, pwd)
		if err != nil {
			return []byte("p12dec-err:" + err.Error())
		}
		_, _, e2 := pkcs12.Decode(pfx, pwd+"x")
		kk, _ := k.(*sm2.PrivateKey)
		return []byte(fmt.Sprintf("%v|%x|%v", kk != nil && kk.D.Cmp(pki.SM2Key(name).D) == 0, cert.SerialNumber, e2 != nil))
	case pkKeyExchange:
		a, err := sm2.GenerateKey(st)
		if err != nil {
			return []byte("keygen-err:" + err.Error())
		}
		b, _ := sm2.GenerateKey(st)
		ra, _ := sm2.GenerateKey(st)
		rb, _ := sm2.GenerateKey(st)
		ida, idb := []byte("alice"), data
		k1, s1, s2, err := sm2.KeyExchangeB(16+op.n%17, ida, idb, b, &a.PublicKey, rb, &ra.PublicKey)
		if err != nil {
			return []byte("kxb-err:" + err.Error())
		}
		k2, t1, t2, err := sm2.KeyExchangeA(16+op.n%17, ida, idb, a, &b.PublicKey, ra, &rb.PublicKey)
		if err != nil {
			return []byte("kxa-err:" + err.Error())
		}
		return bytes.Join([][]byte{k1, k2, s1, s2, t1, t2}, []byte{'|'})
	case pkSysPool:
		// two pools obtained from SystemCertPool are independent objects: what one
		// caller adds to its pool is nobody else's trust anchor
		mine, err := x509.SystemCertPool()
		if err != nil || mine == nil {
			mine = x509.NewCertPool()
		}
		ca := []string{"caA", "caB"}[op.n%2]
		leaf := map[string]string{"caA": "srv-sign", "caB": "srvB-sign"}[ca]
		other := map[string]string{"caA": "srvB-sign", "caB": "srv-sign"}[ca]
		mine.AddCert(pki.Cert(ca))
		opts := x509.VerifyOptions{Roots: mine, CurrentTime: simkit.TimeAt(0), KeyUsages: []x509.ExtKeyUsage{x509.ExtKeyUsageAny}}
		_, e1 := pki.Cert(leaf).Verify(opts)
		_, e2 := pki.Cert(other).Verify(opts) // issued by the CA this caller never added
		fresh, err := x509.SystemCertPool()
		if err != nil || fresh == nil {
			fresh = x509.NewCertPool()
		}
		_, e3 := pki.Cert(leaf).Verify(x509.VerifyOptions{Roots: fresh, CurrentTime: simkit.TimeAt(0), KeyUsages: []x509.ExtKeyUsage{x509.ExtKeyUsageAny}})
		return []byte(fmt.Sprintf("own=%v|other-ca-rejected=%v|fresh-pool-rejects=%v", e1 == nil, e2 != nil, e3 != nil))
	case pkDeepBER:
		// a deeply nested (legal) structure through the BER transcoder in front of ParsePKCS7
		depth := 60 + op.n*2
		var b []byte = []byte{0x05, 0x00}
		for i := 0; i < depth; i++ {
			hdr := []byte{0x30}
			if len(b) < 128 {
				hdr = append(hdr, byte(len(b)))
			} else {
				hdr = append(hdr, 0x82, byte(len(b)>>8), byte(len(b)))
			}
			b = append(hdr, b...)
		}
		_, err := x509.ParsePKCS7(b)
		return []byte(fmt.Sprintf("%d|%v", depth, err))
	case pkChain:
		name := []string{"srv-sign", "srvint-sign", "cli", "srvB-sign"}[op.n%4]
		cert, err := x509.ParseCertificate(pki.DER(name))
		if err != nil {
			return []byte("parse-err:" + err.Error())
		}
		opts := x509.VerifyOptions{Roots: pki.Pool("caA"), Intermediates: pki.Pool("caAint"), CurrentTime: simkit.TimeAt(0), KeyUsages: []x509.ExtKeyUsage{x509.ExtKeyUsageAny}}
		chains, err := cert.Verify(opts)
		return []byte(fmt.Sprintf("%d|%v", len(chains), err))
	}
	return nil
}

func boolByte(b bool) byte {
	if b {
		return 1
	}
	return 0
}

var pkgOpNames = []string{"sm2.Sign/Verify", "sm2.Encrypt/Decrypt", "sm3", "sm4.Sm4Ecb/Sm4Cbc", "x509.ParseCertificate", "x509.ParsePKCS7", "x509.(*Certificate).Verify", "sm4.Sm4CFB/Sm4OFB/Sm4GCM", "x509 key PEM/hex codecs", "x509.CreateCertificate", "pkcs12.Encode/Decode", "sm2.KeyExchangeA/B", "x509.SystemCertPool", "x509 BER transcoder (deep nesting)"}
var pkgReach = []string{"pkg-sign", "pkg-encrypt", "pkg-hash", "pkg-sm4", "pkg-parse", "pkg-pkcs7-ber", "pkg-verify-chain", "pkg-sm4-modes", "pkg-key-codec", "pkg-create-cert", "pkg-pkcs12", "pkg-key-exchange", "pkg-system-pool", "pkg-deep-ber"}

func runConcPkg(c *simkit.Choice, r *simkit.Rec) {
	pki.Load()
	loadP7()
	nt := drawTasks(c, 32)
	heavy := 0
	ops := make([][]pkgOp, nt)
	for i := range ops {
		n := c.Range(1, 2, simkit.LOp)
		for j := 0; j < n; j++ {
			k := c.Weighted([]int{2, 2, 3, 3, 2, 3, 1, 2, 1, 1, 1, 1, 1, 2}, simkit.LOp)
			isHeavy := func(k int) bool {
				return k == pkSign || k == pkEncrypt || k == pkChain || k == pkKeyCodec || k == pkCreateCert || k == pkP12 || k == pkKeyExchange
			}
			if isHeavy(k) && heavy >= 6 {
				k = pkHash
			}
			if isHeavy(k) {
				heavy++
			}
			ops[i] = append(ops[i], pkgOp{kind: k, seed: uint64(c.Choose(1<<31, simkit.LData)) + 3, n: c.Range(1, 90, simkit.LOp)})
		}
	}
	freshCurve := c.Bool(1, 4, simkit.LScen)
	if freshCurve {
		// a run that starts with the curve uninitialised must not touch objects
		// created before the reset (cached fixture certificates hold the old curve
		// value): restrict it to operations that create all their keys themselves
		for i := range ops {
			for j := range ops[i] {
				if k := ops[i][j].kind; k == pkParse || k == pkP7 || k == pkChain || k == pkCreateCert || k == pkP12 || k == pkSysPool {
					ops[i][j].kind = []int{pkSign, pkEncrypt, pkHash}[k%3]
				}
			}
		}
	}
	pol := drawConcPolicy(c, r, 400*nt)
	r.Config = "pkg"
	r.Sig(uint64(nt) | 2<<20)
	// sequential results first (same code, alone)
	want := make([][][]byte, nt)
	simkit.Guard(r, func() {
		for i := range ops {
			for _, op := range ops[i] {
				want[i] = append(want[i], doPkgOp(op))
			}
		}
	})
	if r.Violation() != nil || r.HarnessErr != "" {
		return
	}
	restore := func() {}
	if freshCurve {
		if reset := simkit.Resets["sm2-curve"]; reset != nil {
			reset()
			restore = simkit.Resets["sm2-curve-restore"]
			r.Fault(idx(concFaults, "curve-first-use"))
		}
	}
	got := make([][][]byte, nt)
	s := simkit.NewSim(c, pol, 6000000)
	for i := 0; i < nt; i++ {
		i := i
		got[i] = make([][]byte, len(ops[i]))
		s.Spawn(fmt.Sprintf("t%d", i), i, func() {
			for j, op := range ops[i] {
				got[i][j] = doPkgOp(op)
			}
		})
	}
	s.Run()
	restore()
	r.Detail = map[string]interface{}{"program": "conc-pkg", "tasks": nt, "fresh_curve": freshCurve, "policy": fmt.Sprintf("%+v", pol), "preempts": s.Preempts}
	if !concFinish(s, r, "package-level") {
		return
	}
	for i := range ops {
		for j, op := range ops[i] {
			r.Reach(idx(concReach, pkgReach[op.kind]))
			if op.kind == pkSysPool && string(got[i][j]) != "own=true|other-ca-rejected=true|fresh-pool-rejects=true" {
				r.Violate("result-differs", pkgOpNames[op.kind], fmt.Sprintf("task %d: pools obtained from SystemCertPool are not independent of each other: %s", i, got[i][j]))
				return
			}
			if !bytes.Equal(got[i][j], want[i][j]) {
				r.Violate("result-differs", pkgOpNames[op.kind], fmt.Sprintf("task %d op %d (%s): concurrent result differs from the sequential result of the same call (%d tasks, %d preemptions, fresh curve %v): got %.80x want %.80x", i, j, pkgOpNames[op.kind], nt, s.Preempts, freshCurve, got[i][j], want[i][j]))
				return
			}
		}
	}
	r.Outcome = "ok"
}

// ---- conc-cache: LRU client session cache, linearizability ---------------

type cacheIn struct {
	put bool
	key string
	val int // index of the session object (0 = nil)
}

type cacheOut struct {
	val int
	ok  bool
}

func lruStep(state string, capacity int, in cacheIn, out cacheOut) (bool, string) {
	// state: "k=v,k=v" front first
	var ents []string
	if state != "" {
		ents = strings.Split(state, ",")
	}
	pos := -1
	for i, e := range ents {
		if strings.HasPrefix(e, in.key+"=") {
			pos = i
		}
	}
	if in.put {
		ne := fmt.Sprintf("%s=%d", in.key, in.val)
		if pos >= 0 {
			ents = append(ents[:pos], ents[pos+1:]...)
		} else if len(ents) >= capacity {
			ents = ents[:len(ents)-1]
		}
		ents = append([]string{ne}, ents...)
		return true, strings.Join(ents, ",")
	}
	if pos < 0 {
		return !out.ok && out.val == 0, state
	}
	var v int
	fmt.Sscanf(ents[pos][len(in.key)+1:], "%d", &v)
	if !out.ok || out.val != v {
		return false, state
	}
	e := ents[pos]
	ents = append(ents[:pos], ents[pos+1:]...)
	ents = append([]string{e}, ents...)
	return true, strings.Join(ents, ",")
}

func runConcCache(c *simkit.Choice, r *simkit.Rec) {
	capacity := c.Range(1, 3, simkit.LScen)
	nt := c.Range(2, 6, simkit.LScen)
	keys := []string{"a", "b", "c", "d"}[:c.Range(2, 4, simkit.LScen)]
	cache := gmtls.NewLRUClientSessionCache(capacity)
	// session objects: identity matters, content does not
	vals := make([]*gmtls.ClientSessionState, 41)
	for i := 1; i < len(vals); i++ {
		vals[i] = &gmtls.ClientSessionState{}
	}
	valIdx := func(p *gmtls.ClientSessionState) int {
		if p == nil {
			return 0
		}
		for i := 1; i < len(vals); i++ {
			if vals[i] == p {
				return i
			}
		}
		return -1
	}
	type opRec struct {
		in        cacheIn
		out       cacheOut
		call, ret int64
	}
	plan := make([][]cacheIn, nt)
	nextVal := 1
	total := 0
	for i := range plan {
		n := c.Range(1, 6, simkit.LOp)
		for j := 0; j < n && total < 36; j++ {
			in := cacheIn{put: c.Bool(1, 2, simkit.LOp), key: keys[c.Choose(len(keys), simkit.LOp)]}
			if in.put {
				in.val = nextVal // every written value unique
				nextVal++
			}
			plan[i] = append(plan[i], in)
			total++
		}
	}
	pol := drawConcPolicy(c, r, 60*total)
	r.Config = fmt.Sprintf("cache/cap%d", capacity)
	r.Sig(uint64(nt) | uint64(capacity)<<8 | 3<<20)
	hist := make([][]opRec, nt)
	s := simkit.NewSim(c, pol, 2000000)
	for i := 0; i < nt; i++ {
		i := i
		hist[i] = make([]opRec, len(plan[i]))
		s.Spawn(fmt.Sprintf("t%d", i), i, func() {
			for j, in := range plan[i] {
				h := &hist[i][j]
				h.in = in
				h.call = int64(s.Seq())
				if in.put {
					cache.Put(in.key, vals[in.val])
				} else {
					v, ok := cache.Get(in.key)
					h.out = cacheOut{valIdx(v), ok}
				}
				h.ret = int64(s.Seq())
			}
		})
	}
	s.Run()
	r.Detail = map[string]interface{}{"program": "conc-cache", "tasks": nt, "capacity": capacity, "ops": total, "policy": fmt.Sprintf("%+v", pol), "preempts": s.Preempts}
	if !concFinish(s, r, "lruSessionCache") {
		return
	}
	var ops []porcupine.Operation
	for i := range hist {
		for _, h := range hist[i] {
			ops = append(ops, porcupine.Operation{ClientId: i, Input: h.in, Call: h.call, Output: h.out, Return: h.ret})
		}
	}
	model := porcupine.Model{
		Init: func() interface{} { return "" },
		Step: func(st, in, out interface{}) (bool, interface{}) {
			ok, ns := lruStep(st.(string), capacity, in.(cacheIn), out.(cacheOut))
			return ok, ns
		},
		Equal: func(a, b interface{}) bool { return a.(string) == b.(string) },
	}
	switch checkLin(model, ops) {
	case porcupine.Illegal:
		var sb strings.Builder
		sort.Slice(ops, func(a, b int) bool { return ops[a].Call < ops[b].Call })
		for _, o := range ops {
			in := o.Input.(cacheIn)
			out := o.Output.(cacheOut)
			if in.put {
				fmt.Fprintf(&sb, "[%d..%d] t%d Put(%s,v%d); ", o.Call, o.Return, o.ClientId, in.key, in.val)
			} else {
				fmt.Fprintf(&sb, "[%d..%d] t%d Get(%s)=(v%d,%v); ", o.Call, o.Return, o.ClientId, in.key, out.val, out.ok)
			}
		}
		r.Violate("not-linearizable", "gmtls.lruSessionCache", fmt.Sprintf("history of %d operations on a capacity-%d cache has no sequential LRU explanation: %s", len(ops), capacity, sb.String()))
		return
	case porcupine.Unknown:
		r.Reach(idx(concReach, "porcupine-unknown"))
	default:
		r.Reach(idx(concReach, "cache-linearizable"))
	}
	if nextVal-1 > capacity {
		r.Reach(idx(concReach, "cache-eviction"))
	}
	r.Outcome = "ok"
}

// ---- conc-pool: one CertPool used by concurrent verifications -----------

func runConcPool(c *simkit.Choice, r *simkit.Rec) {
	pki.Load()
	nt := drawTasks(c, 6)
	// Pool composition is drawn: genuine roots, a root that only looks like caA
	// (same subject and key identifier, own key), both, or only the look-alike.
	rootSets := [][]string{{"caA", "caB"}, {"lookCA", "caB"}, {"lookCA"}, {"lookCA", "caA", "caB"}, {"caA", "lookCA", "rsaCA"}, {"caB"}, {"lookA-sign", "caA"}}
	interSets := [][]string{{"caAint"}, {"caAint", "rsaInt"}, {}, {"lookInt", "caAint"}, {"lookInt"}}
	rootNames := rootSets[c.Choose(len(rootSets), simkit.LOp)]
	interNames := interSets[c.Weighted([]int{5, 2, 1, 3, 1}, simkit.LOp)]
	names := []string{"srv-sign", "srvint-sign", "cli", "srvB-sign", "srvexp-sign", "srvother-sign", "cliint", "caAint"}
	// cold: every certificate object of the concurrent phase is parsed for this
	// run and never touched before the tasks start (a lazily filled per-object
	// cache is then filled by the concurrent callers, not by the harness).
	// shareLeaf: all tasks verify the same leaf objects; otherwise each task
	// parses its own leaf inside the task.
	shareLeaf := c.Bool(1, 2, simkit.LOp)
	plan := make([][]int, nt)
	for i := range plan {
		n := c.Range(1, 2, simkit.LOp)
		for j := 0; j < n; j++ {
			if i > 0 && c.Range(0, 2, simkit.LOp) == 0 {
				// the same verification as the first task: same child, same candidates
				plan[i] = append(plan[i], plan[0][0])
				continue
			}
			plan[i] = append(plan[i], c.Choose(len(names), simkit.LOp))
		}
	}
	pol := drawConcPolicy(c, r, 600*nt)
	r.Config = fmt.Sprintf("pool-r%v-i%v-share%v", rootNames, interNames, shareLeaf)
	r.Sig(uint64(nt) | 4<<20)
	parse := func(n string) *x509.Certificate {
		x, err := x509.ParseCertificate(pki.DER(n))
		if err != nil {
			panic(fmt.Sprintf("conc-pool: fixture %s does not parse: %v", n, err))
		}
		return x
	}
	type world struct {
		roots, inter *x509.CertPool
		leaf         map[int]*x509.Certificate
	}
	mkWorld := func() *world {
		w := &world{roots: x509.NewCertPool(), inter: x509.NewCertPool(), leaf: map[int]*x509.Certificate{}}
		for _, n := range rootNames {
			w.roots.AddCert(parse(n))
		}
		for _, n := range interNames {
			w.inter.AddCert(parse(n))
		}
		for k, n := range names {
			w.leaf[k] = parse(n)
		}
		return w
	}
	verify := func(w *world, k int, own bool) string {
		cert := w.leaf[k]
		if own {
			cert = parse(names[k])
		}
		dns := ""
		if k%2 == 0 {
			dns = "server.sim"
		}
		chains, err := cert.Verify(x509.VerifyOptions{Roots: w.roots, Intermediates: w.inter, CurrentTime: simkit.TimeAt(0), DNSName: dns, KeyUsages: []x509.ExtKeyUsage{x509.ExtKeyUsageAny}})
		d := ""
		for _, ch := range chains {
			for _, x := range ch {
				d += fmt.Sprintf("%s#%x>", x.Subject.CommonName, x.SerialNumber)
			}
			d += ";"
		}
		return fmt.Sprintf("%s|%v", d, err)
	}
	want := make([][]string, nt)
	simkit.Guard(r, func() {
		ws := mkWorld()
		for i := range plan {
			for _, k := range plan[i] {
				want[i] = append(want[i], verify(ws, k, !shareLeaf))
			}
		}
	})
	if r.Violation() != nil || r.HarnessErr != "" {
		return
	}
	var wc *world
	simkit.Guard(r, func() { wc = mkWorld() })
	if r.HarnessErr != "" {
		return
	}
	got := make([][]string, nt)
	s := simkit.NewSim(c, pol, 6000000)
	for i := 0; i < nt; i++ {
		i := i
		got[i] = make([]string, len(plan[i]))
		s.Spawn(fmt.Sprintf("t%d", i), i, func() {
			for j, k := range plan[i] {
				got[i][j] = verify(wc, k, !shareLeaf)
			}
		})
	}
	s.Run()
	r.Reach(idx(concReach, "pool-verify"))
	rejected := false
	for i := range want {
		for _, x := range want[i] {
			if strings.HasPrefix(x, "|") {
				rejected = true
			}
		}
	}
	if rejected {
		r.Reach(idx(concReach, "pool-verify-rejecting"))
	}
	r.Detail = map[string]interface{}{"program": "conc-pool", "tasks": nt, "policy": fmt.Sprintf("%+v", pol), "preempts": s.Preempts, "roots": rootNames, "intermediates": interNames, "shareLeaf": shareLeaf}
	if !concFinish(s, r, "x509.CertPool") {
		return
	}
	for i := range plan {
		for j := range plan[i] {
			if got[i][j] != want[i][j] {
				r.Violate("result-differs", "x509.(*Certificate).Verify", fmt.Sprintf("task %d verification %d of %s (roots %v, intermediates %v): concurrent %q, sequential %q", i, j, names[plan[i][j]], rootNames, interNames, got[i][j], want[i][j]))
				return
			}
		}
	}
	r.Outcome = "ok"
}

// ---- conc-conn: one established connection, concurrent Read/Write/Close ---

type connIn struct {
	kind int // 0 write, 1 read, 2 close-write side
	data string
}

type connOut struct {
	data string
	err  bool
	eof  bool
}

type connState struct {
	q      string
	closed bool
}

type connOpRec struct {
	in        connIn
	out       connOut
	call, ret int64
	task      int
}

// pipeModel: one direction of a connection is a FIFO byte pipe; a successful
// Write appends its whole buffer atomically; a failed Write appended some
// prefix of it; a Read returns a non-empty prefix of the queue, or EOF when the
// queue is empty and the writer side has closed.
func pipeModel() porcupine.Model {
	nm := porcupine.NondeterministicModel{
		Init: func() []interface{} { return []interface{}{connState{}} },
		Step: func(st, in, out interface{}) []interface{} {
			s := st.(connState)
			i := in.(connIn)
			o := out.(connOut)
			switch i.kind {
			case 0:
				if !o.err {
					if s.closed {
						return nil
					}
					return []interface{}{connState{s.q + i.data, s.closed}}
				}
				// a failed Write delivered whole records only: nothing, the first byte
				// (1/n-1 record split of CBC suites) or everything
				res := []interface{}{s, connState{s.q + i.data, s.closed}}
				if len(i.data) > 1 {
					res = append(res, connState{s.q + i.data[:1], s.closed})
				}
				return res
			case 1:
				if o.err {
					return []interface{}{s}
				}
				if o.eof {
					if s.q == "" && s.closed {
						return []interface{}{s}
					}
					return nil
				}
				if len(o.data) == 0 || !strings.HasPrefix(s.q, o.data) {
					return nil
				}
				return []interface{}{connState{s.q[len(o.data):], s.closed}}
			case 2:
				return []interface{}{connState{s.q, true}}
			}
			return nil
		},
		Equal: func(a, b interface{}) bool { return a.(connState) == b.(connState) },
	}
	return nm.ToModel()
}

func runConcConn(c *simkit.Choice, r *simkit.Rec) {
	pki.Load()
	suite := gmSuites[c.Choose(2, simkit.LScen)]
	nw := [2]int{c.Range(1, 3, simkit.LScen), c.Range(0, 1, simkit.LScen)} // writers on client / server side
	nr := [2]int{c.Range(1, 2, simkit.LScen), c.Range(1, 2, simkit.LScen)}
	closer := c.Bool(1, 2, simkit.LScen)
	closeAfter := c.Range(0, 400, simkit.LScen)
	ncloser := 1 + c.Weighted([]int{2, 2, 1}, simkit.LScen) // concurrent Close calls on the client side
	implicitHS := c.Bool(1, 3, simkit.LScen)                // no explicit Handshake: first Read/Write calls run it, concurrently
	statePoller := c.Bool(1, 3, simkit.LScen)
	halfCloser := !closer && c.Bool(1, 3, simkit.LScen) // CloseWrite on the client while its writers may still be writing
	halfCloseAfter := c.Range(0, 300, simkit.LScen)
	corrupt := c.Bool(1, 5, simkit.LScen) // one bit of the server->client stream flipped in transit during the application phase
	corruptOff := c.Range(0, 400, simkit.LScen)
	closeAfter2 := c.Range(0, 60, simkit.LScen)
	// big: buffers larger than one record (several records per Write), at least two
	// writers on the client side, no closing/corruption (every Write succeeds, so the
	// stream must be a concatenation of whole buffers)
	big := c.Bool(1, 5, simkit.LScen)
	if big {
		closer, halfCloser, corrupt = false, false, false
		if nw[0] < 2 {
			nw[0] = 2
		}
	}
	rdBuf := 512
	if big {
		rdBuf = 20000
	}
	// abort: the server's transport goes away (reset / crash) some time after a
	// damaged record has left for the client, while the client's writers sit in
	// transport writes that block on a small window: a Read that must answer with
	// an alert and a Write whose transport write fails meet. Everything must wind
	// down with errors; nothing may hang.
	// quiet peer: the server has nothing to say and hangs up only after it has seen
	// the client's end of stream - a Close on the client must get through although a
	// Read of the same connection is parked in the transport
	quietPeer := closer && !big && c.Bool(1, 3, simkit.LScen)
	if quietPeer {
		nw[1] = 0
	}
	abortMode := !big && c.Bool(1, 6, simkit.LScen)
	abortAfter := c.Range(0, 400, simkit.LScen)
	if abortMode {
		rdBuf = 4096
		closer, halfCloser, corrupt, implicitHS = false, false, true, false
		quietPeer = false // (no closer in this mode)
		if nw[0] < 1 {
			nw[0] = 1
		}
	}
	type wplan struct{ bufs []string }
	var wp [2][]wplan
	id := 0
	for side := 0; side < 2; side++ {
		for w := 0; w < nw[side]; w++ {
			var p wplan
			n := c.Range(1, 3, simkit.LOp)
			for k := 0; k < n; k++ {
				ln := []int{1, 2, 5, 40, 300}[c.Choose(5, simkit.LOp)]
				if abortMode && side == 0 {
					ln = []int{300, 2000, 6000}[c.Choose(3, simkit.LOp)]
				}
				if big && side == 0 {
					ln = []int{16385, 17000, 33000, 40000, 300, 16384}[c.Choose(6, simkit.LOp)]
				}
				b := make([]byte, ln)
				for x := range b {
					b[x] = byte('A' + id%26)
					if x%2 == 1 {
						b[x] = byte('a' + (id/26+x/2)%26)
					}
				}
				b[0] = byte('A' + id%26)
				id++
				p.bufs = append(p.bufs, string(b))
			}
			wp[side] = append(wp[side], p)
		}
	}
	pol := drawConcPolicy(c, r, 3000)
	entC := simkit.NewStream(uint64(c.Choose(1<<31, simkit.LEntropy)) + 21)
	entS := simkit.NewStream(uint64(c.Choose(1<<31, simkit.LEntropy)) + 23)
	r.Config = fmt.Sprintf("conn/%04x/closer%v", suite, closer)
	r.Sig(uint64(suite)<<8 | uint64(nw[0])<<4 | uint64(nr[0])<<2 | uint64(boolByte(closer)) | 5<<24)

	budget := int64(4000000)
	if big {
		budget = 80000000 // several 16 KiB records through statement-instrumented record code
	}
	s := simkit.NewSim(c, pol, budget)
	// a slow peer: small finite windows make transport writes block half-way, so
	// that other tasks of the same endpoint run while a flight is being written
	var netC, netS simkit.NetCfg
	netC.Capture, netS.Capture = true, true
	// late writer: the server-side writer makes its first call only once the
	// client's ChangeCipherSpec is on the wire (plus a drawn number of yields), i.e.
	// while the server is about to send, or is sending, its last flight
	lateWriter := c.Bool(1, 2, simkit.LScen)
	lateExtra := c.Range(0, 400, simkit.LScen)
	// ... or only once the server's own ChangeCipherSpec is on the wire, and then
	// without being interrupted (the call falls inside the server's last transport write)
	lateOnOwnFlight := c.Bool(1, 2, simkit.LScen)
	var lateFired atomic.Bool
	var lateTask atomic.Value // *simkit.Task
	lateGo := &simkit.Flag{Name: "late-writer-go"}
	if c.Bool(1, 3, simkit.LScen) || abortMode {
		netC.Window = c.Range(8, 300, simkit.LScen)
		netS.Window = c.Range(8, 300, simkit.LScen)
		r.Fault(idx(concFaults, "transport-write-blocks"))
	}
	flipped := &simkit.Flag{Name: "damaged-record-left"}
	var aborted, quietReached, ekmRan atomic.Bool
	var ekmBad atomic.Int64
	ekmCallers := 0
	if !implicitHS && c.Bool(1, 3, simkit.LScen) {
		ekmCallers = 2 + c.Choose(2, simkit.LScen)
	}
	a, b := s.NewConnPair("cli", "srv", netC, netS)
	cliTransportClosed := &simkit.Flag{Name: "client-transport-closed"}
	a.OnClose = cliTransportClosed.Set
	if lateWriter {
		hasCCS := func(buf []byte) bool {
			recs, _ := reftls.ParseRecords(buf)
			for _, rc := range recs {
				if rc.Type == reftls.RecCCS {
					return true
				}
			}
			return false
		}
		trig := a.WrPipe() // the client's ChangeCipherSpec goes out
		if lateOnOwnFlight {
			trig = b.WrPipe() // the server's own last flight goes out
		}
		trig.OnWrite = func(buf []byte) {
			if lateGo.IsSet() || !hasCCS(buf) {
				return
			}
			lateGo.Set()
			if t, ok := lateTask.Load().(*simkit.Task); ok && lateOnOwnFlight {
				s.Boost(t)
			}
		}
	}
	ccfg := &gmtls.Config{GMSupport: gmtls.NewGMSupport(), Rand: entC, Time: simTime(s, 0), RootCAs: pki.Pool("caA"), ServerName: "server.sim", CipherSuites: []uint16{suite}, SessionTicketsDisabled: true}
	scfg := &gmtls.Config{GMSupport: gmtls.NewGMSupport(), Rand: entS, Time: simTime(s, 0), Certificates: gmServerCerts("srv-sign", "srv-enc"), CipherSuites: []uint16{suite}, SessionTicketsDisabled: true}
	conns := [2]*gmtls.Conn{gmtls.Client(a, ccfg), gmtls.Server(b, scfg)}
	var hsErr [2]error
	// histories: hist[d] = operations on direction d (0: client->server)
	var hist [2][]connOpRec
	nhist := [2]int{}
	maxOps := 64
	hist[0] = make([]connOpRec, maxOps)
	hist[1] = make([]connOpRec, maxOps)
	// slots are handed out in norace code so that tasks never share a slot
	slot := func(d int) *connOpRec { return concSlot(&nhist[d], hist[d]) }
	ci := &closeInfo{}
	allClosed := &simkit.Flag{Name: "all-closed"}

	// sequential reference of the same code: Close, Close, Write on a connection of its own
	var seqClose2, seqLate string
	probeDone := false
	if closer {
		pa, pb := s.NewConnPair("pcli", "psrv", simkit.NetCfg{}, simkit.NetCfg{})
		pccfg := &gmtls.Config{GMSupport: gmtls.NewGMSupport(), Rand: simkit.NewStream(77), Time: simTime(s, 0), RootCAs: pki.Pool("caA"), ServerName: "server.sim", CipherSuites: []uint16{suite}, SessionTicketsDisabled: true}
		pscfg := &gmtls.Config{GMSupport: gmtls.NewGMSupport(), Rand: simkit.NewStream(78), Time: simTime(s, 0), Certificates: gmServerCerts("srv-sign", "srv-enc"), CipherSuites: []uint16{suite}, SessionTicketsDisabled: true}
		s.Spawn("probe-srv", 9, func() {
			pc := gmtls.Server(pb, pscfg)
			if pc.Handshake() == nil {
				buf := make([]byte, 16)
				for {
					if _, err := pc.Read(buf); err != nil {
						break
					}
				}
			}
			pc.Close()
		})
		s.Spawn("probe-cli", 8, func() {
			pc := gmtls.Client(pa, pccfg)
			if pc.Handshake() != nil {
				return
			}
			pc.Close()
			seqClose2 = errStr(pc.Close())
			_, e := pc.Write([]byte("late"))
			seqLate = errStr(e)
			probeDone = true
		})
	}
	for side := 0; side < 2; side++ {
		side := side
		conn := conns[side]
		s.Spawn([]string{"cli", "srv"}[side], side, func() {
			if side == 1 {
				defer flipped.Set() // (if the damaged byte never left, the abort task is released at the end)
			}
			if !implicitHS {
				hsErr[side] = conn.Handshake()
				if hsErr[side] != nil {
					return
				}
			}
			if corrupt && side == 1 && !implicitHS {
				wp := b.WrPipe()
				wp.FlipMask = 0x10
				wp.FlipAt = wp.BytesW + int64(corruptOff)
				wp.OnFlip = flipped.Set
				if abortMode {
					s.Spawn("srv-abort", 1, func() {
						s.WaitFlag(flipped)
						for k := 0; k < abortAfter; k++ {
							simkit.Yield(-28)
						}
						b.Close() // the transport disappears under the TLS connection
						aborted.Store(true)
					})
				}
			}
			if halfCloser && side == 0 {
				s.Spawn("cli-halfcloser", 0, func() {
					for k := 0; k < halfCloseAfter; k++ {
						simkit.Yield(-25)
					}
					h := slot(0)
					if h != nil {
						h.in = connIn{kind: 2}
						h.call = int64(s.Seq())
					}
					err := conn.CloseWrite()
					if h != nil && err == nil {
						h.ret = int64(s.Seq()) // (an early CloseWrite before the handshake is a no-op and stays out of the history)
					}
				})
			}
			if ekmCallers > 0 && side == 0 {
				// exporters: the same label with different short contexts from several tasks
				// at once; every result must equal what the same call returned when it ran alone
				var want [4][]byte
				ctxs := [4][]byte{[]byte("ctx-a"), []byte("context-b-longer"), {}, []byte("c")}
				for i := 0; i < ekmCallers; i++ {
					st := conn.ConnectionState()
					want[i], _ = st.ExportKeyingMaterial("EXPORTER-conc", ctxs[i], 40)
				}
				for i := 0; i < ekmCallers; i++ {
					i := i
					s.Spawn(fmt.Sprintf("cli-ekm%d", i), 0, func() {
						for k := 0; k < 4; k++ {
							st := conn.ConnectionState()
							got, err := st.ExportKeyingMaterial("EXPORTER-conc", ctxs[i], 40)
							if err == nil && !bytes.Equal(got, want[i]) {
								ekmBad.Add(1)
							}
							ekmRan.Store(true)
						}
					})
				}
			}
			if statePoller && side == 0 {
				// ConnectionState concurrently with the (possibly implicit) handshake and the traffic
				s.Spawn("cli-state", 0, func() {
					for k := 0; k < 6; k++ {
						st := conn.ConnectionState()
						if st.HandshakeComplete && st.CipherSuite != suite {
							ci.noteBadState(st.CipherSuite)
						}
						for y := 0; y < 40; y++ {
							simkit.Yield(-24)
						}
					}
				})
			}
			wdone := make([]*simkit.Flag, 0, 4)
			for w := range wp[side] {
				w := w
				f := &simkit.Flag{Name: "wdone"}
				wdone = append(wdone, f)
				s.Spawn(fmt.Sprintf("%s-w%d", []string{"cli", "srv"}[side], w), side, func() {
					defer f.Set()
					boosted := false
					if side == 1 && lateWriter {
						// (blocks on a flag set from the transport's OnWrite hook: no spinning,
						// which would never end under a policy without preemption)
						lateTask.Store(s.CurTask())
						s.WaitFlag(lateGo)
						if lateOnOwnFlight {
							boosted = true // the hook has boosted this task
							lateFired.Store(true)
						} else {
							for k := 0; k < lateExtra; k++ {
								simkit.Yield(-27)
							}
						}
					}
					for _, buf := range wp[side][w].bufs {
						h := slot(side)
						if h == nil {
							return
						}
						h.in = connIn{0, buf}
						h.call = int64(s.Seq())
						n, err := conn.Write([]byte(buf))
						if boosted {
							s.Unboost()
							boosted = false
						}
						lateGo.Set()
						if !abortMode {
							a.LiftWindows() // the slow-peer phase ends with the first completed application call
						}
						h.out = connOut{err: err != nil}
						h.ret = int64(s.Seq())
						if err == nil && n != len(buf) {
							h.out.err = true
						}
						if err == nil && side == 0 {
							ci.noteWriteOK(h.call, buf)
						}
						if err != nil {
							return
						}
					}
				})
			}
			rdone := make([]*simkit.Flag, 0, 4)
			for rd := 0; rd < nr[side]; rd++ {
				rf := &simkit.Flag{Name: "rdone"}
				rdone = append(rdone, rf)
				s.Spawn(fmt.Sprintf("%s-r%d", []string{"cli", "srv"}[side], rd), side, func() {
					defer rf.Set()
					buf := make([]byte, rdBuf)
					for k := 0; k < 40; k++ {
						h := slot(1 - side) // reads consume the peer's direction
						if h == nil {
							return
						}
						h.in = connIn{kind: 1}
						h.call = int64(s.Seq())
						n, err := conn.Read(buf)
						lateGo.Set() // (whatever became of the handshake, nobody waits for it any longer)
						if !abortMode {
							a.LiftWindows()
						}
						h.ret = int64(s.Seq())
						switch {
						case n > 0:
							h.out = connOut{data: string(buf[:n])}
							if err != nil {
								// data together with an error/EOF: record the data; the next Read reports the end
							}
						case err == io.EOF:
							h.out = connOut{eof: true}
						case err != nil:
							h.out = connOut{err: true}
						default:
							h.out = connOut{err: true}
						}
						if n == 0 && err != nil {
							return
						}
					}
				})
			}
			if side == 0 && closer {
				for q := 0; q < ncloser; q++ {
					q := q
					s.Spawn(fmt.Sprintf("cli-closer%d", q), 0, func() {
						wait := closeAfter
						if q > 0 {
							wait = closeAfter + (q-1)*closeAfter2
						}
						for k := 0; k < wait; k++ {
							simkit.Yield(-20)
						}
						h := slot(0)
						if h != nil {
							h.in = connIn{kind: 2}
							h.call = int64(s.Seq())
						}
						err := conn.Close()
						ret := int64(s.Seq())
						ci.returned(ret)
						ci.closeResult(q, err)
						if ci.allClosed(ncloser) {
							allClosed.Set()
						}
						if h != nil {
							h.ret = ret
						}
						if q == 0 {
							// once every Close has returned, one more Write: it must fail the
							// way a Write after a sequential Close fails
							s.WaitFlag(allClosed)
							_, werr := conn.Write([]byte("late"))
							ci.lateErr = errStr(werr)
							ci.lateDone = true
						}
					})
				}
				return
			}
			// orderly shutdown: after own writers are done, close the write side
			for _, f := range wdone {
				s.WaitFlag(f)
			}
			if quietPeer && side == 1 {
				for _, f := range rdone {
					s.WaitFlag(f)
				}
				// really quiet: not even the client's close_notify makes this peer hang up,
				// only the end of the client's transport stream does
				s.WaitFlag(cliTransportClosed)
				quietReached.Store(true)
			}
			if implicitHS {
				// CloseWrite needs a completed handshake; this is one more concurrent caller of Handshake
				hsErr[side] = conn.Handshake()
			}
			h := slot(side)
			if h != nil {
				h.in = connIn{kind: 2}
				h.call = int64(s.Seq())
			}
			conn.CloseWrite()
			if h != nil {
				h.ret = int64(s.Seq())
			}
		})
	}
	s.Run()
	closeReturned, lateWriteOK := ci.done, ci.lateWrite
	r.Detail = map[string]interface{}{"half_closer": halfCloser, "corrupt_in_transit": corrupt && b.WrPipe().Flipped, "program": "conc-conn", "suite": fmt.Sprintf("%04x", suite), "writers": nw, "readers": nr, "closer": closer, "close_after_yields": closeAfter, "policy": fmt.Sprintf("%+v", pol), "preempts": s.Preempts, "ops": nhist}
	r.FromSim(s)
	r.Nontrivial = true
	r.Sig(s.TraceHash()[0])
	if s.Preempts > 0 {
		r.FaultN(idx(concFaults, "preempt"), int(s.Preempts))
	}
	s.TaskPanics(r)
	if r.Violation() != nil || r.HarnessErr != "" {
		return
	}
	site := "gmtls.Conn"
	if ci.badSuite != 0 {
		r.Violate("result-differs", site+".ConnectionState", fmt.Sprintf("ConnectionState reported HandshakeComplete with suite %04x, negotiated %04x", ci.badSuite, suite))
		return
	}
	if (hsErr[0] != nil || hsErr[1] != nil) && !(closer && implicitHS) {
		// (with an implicit handshake and a Close at a drawn instant the connection may
		// legitimately be closed before the handshake has finished)
		r.Violate("handshake-failed", site, fmt.Sprintf("benign handshake failed under the simulated schedule: %v / %v", hsErr[0], hsErr[1]))
		return
	}
	if s.Reason == simkit.StopBudget {
		r.Violate("no-progress", site, fmt.Sprintf("step budget exhausted: %v", s.Blocked))
		return
	}
	if closer {
		r.Fault(idx(concFaults, "close-during-write"))
		r.Reach(idx(concReach, "conn-close-raced"))
		if !closeReturned {
			r.Violate("close-blocked", site+".Close", fmt.Sprintf("Close did not return: %v", s.Blocked))
			return
		}
		if lateWriteOK != "" {
			r.Violate("write-after-close", site+".Write", fmt.Sprintf("a Write (%q...) invoked after Close had returned succeeded", lateWriteOK[:1]))
			return
		}
		if probeDone && ci.allClosed(ncloser) {
			// some sequential order of the Close calls: all but the first behave like a
			// second sequential Close (same code, run alone on the probe connection)
			other := 0
			for q := 0; q < ncloser; q++ {
				if ci.closeErrs[q] != seqClose2 {
					other++
				}
			}
			if other > 1 {
				r.Violate("close-not-sequential", site+".Close", fmt.Sprintf("%d concurrent Close calls returned %q; in any sequential order all but one return %q", ncloser, ci.closeErrs[:ncloser], seqClose2))
				return
			}
			if ci.lateDone && ci.lateErr != seqLate {
				r.Violate("close-not-sequential", site+".Write", fmt.Sprintf("Write after %d concurrent Close calls returned %q; after a sequential Close it returns %q", ncloser, ci.lateErr, seqLate))
				return
			}
		}
		// with an abrupt Close the server may wait forever for a close_notify that
		// will not come only if the transport stays open; Close closes it, so
		// everything must wind down
	}
	if s.Reason == simkit.StopDeadlock {
		if corrupt && b.WrPipe().Flipped && !abortMode {
			// a flipped length field makes the reader wait for bytes that never come while
			// nobody closes the transport in this program: waiting is legitimate
			r.Outcome = "waiting-after-corruption"
			return
		}
		r.Violate("deadlock", site, fmt.Sprintf("no task can run: %v", s.Blocked))
		return
	}
	// without a Close/CloseWrite racing the traffic and without corruption in
	// transit nothing can legitimately fail: every Write succeeds, every Read
	// returns data or a clean end of stream
	if !closer && !halfCloser && !aborted.Load() && !(corrupt && b.WrPipe().Flipped) && hsErr[0] == nil && hsErr[1] == nil {
		for d := 0; d < 2; d++ {
			for i := 0; i < nhist[d]; i++ {
				h := hist[d][i]
				if h.ret != 0 && h.out.err && h.in.kind != 2 {
					what := "Write"
					if h.in.kind == 1 {
						what = "Read"
					}
					r.Violate("unexplained-error", site, fmt.Sprintf("direction %d: a %s returned an error although nobody closed the connection and nothing was damaged in transit (late writer=%v, blocking transport=%v)", d, what, lateWriter, netS.Window > 0))
					return
				}
			}
		}
	}
	if lateFired.Load() {
		r.Reach(idx(concReach, "conn-write-inside-last-flight"))
	}
	if aborted.Load() {
		r.Fault(idx(concFaults, "peer-transport-abort"))
	}
	if quietReached.Load() {
		r.Reach(idx(concReach, "conn-quiet-peer"))
	}
	if ekmRan.Load() {
		r.Reach(idx(concReach, "conn-concurrent-ekm"))
	}
	if n := ekmBad.Load(); n > 0 {
		r.Violate("result-differs", site+".ExportKeyingMaterial", fmt.Sprintf("%d concurrent ExportKeyingMaterial calls returned something else than the same call had returned when it ran alone", n))
		return
	}
	model := pipeModel()
	for d := 0; d < 2; d++ {
		var ops []porcupine.Operation
		for i := 0; i < nhist[d]; i++ {
			h := hist[d][i]
			if h.ret == 0 {
				continue // never returned (torn down): not part of the history
			}
			if nhist[d] >= maxOps && h.in.kind == 1 && h.out.eof {
				continue // the history is full: the close that explains this end of stream found no slot
			}
			ops = append(ops, porcupine.Operation{ClientId: i, Input: h.in, Call: h.call, Output: h.out, Return: h.ret})
		}
		switch checkLin(model, ops) {
		case porcupine.Illegal:
			var sb strings.Builder
			sort.Slice(ops, func(x, y int) bool { return ops[x].Call < ops[y].Call })
			for _, o := range ops {
				in := o.Input.(connIn)
				out := o.Output.(connOut)
				switch in.kind {
				case 0:
					fmt.Fprintf(&sb, "[%d..%d] Write(%q x%d) err=%v; ", o.Call, o.Return, in.data[:1], len(in.data), out.err)
				case 1:
					fmt.Fprintf(&sb, "[%d..%d] Read=%q err=%v eof=%v; ", o.Call, o.Return, clip(out.data, 12), out.err, out.eof)
				case 2:
					fmt.Fprintf(&sb, "[%d..%d] Close; ", o.Call, o.Return)
				}
			}
			r.Violate("not-linearizable", site, fmt.Sprintf("direction %d: the history of Write/Read/Close has no explanation as a FIFO byte pipe with atomic writes: %s", d, sb.String()))
			return
		case porcupine.Unknown:
			r.Reach(idx(concReach, "porcupine-unknown"))
		default:
			r.Reach(idx(concReach, "conn-linearizable"))
			if big {
				r.Reach(idx(concReach, "conn-multi-record-writes"))
			}
		}
	}
	if closer {
		r.Reach(idx(concReach, "write-after-close-failed"))
	}
	r.Outcome = "ok"
}

// checkLin runs porcupine with a short timeout; after a timeout it waits for
// the checker's goroutines to stop so that they cannot slow down later runs.
func checkLin(model porcupine.Model, ops []porcupine.Operation) porcupine.CheckResult {
	n0 := runtime.NumGoroutine()
	res := porcupine.CheckOperationsTimeout(model, ops, 5*time.Second)
	if res == porcupine.Unknown {
		for i := 0; i < 2000 && runtime.NumGoroutine() > n0; i++ {
			time.Sleep(time.Millisecond)
		}
	}
	return res
}

func clip(s string, n int) string {
	if len(s) > n {
		return s[:n] + fmt.Sprintf("..(%d)", len(s))
	}
	return s
}

// closeInfo is shared between the closer and the writers of conc-conn; all
// access is norace so that the harness adds no report and no ordering.
type closeInfo struct {
	done      bool
	ret       int64
	lateWrite string
	nclosed   int
	closeErrs [4]string
	lateErr   string
	lateDone  bool
	badSuite  uint16
}

//go:norace
func (c *closeInfo) noteBadState(s uint16) { c.badSuite = s }

//go:norace
func (c *closeInfo) closeResult(q int, err error) {
	if err == nil {
		c.closeErrs[q] = "<nil>"
	} else {
		c.closeErrs[q] = err.Error()
	}
	c.nclosed++
}

//go:norace
func (c *closeInfo) allClosed(n int) bool { return c.nclosed >= n }

//go:norace
func (c *closeInfo) returned(seq int64) { c.ret = seq; c.done = true }

//go:norace
func (c *closeInfo) noteWriteOK(call int64, buf string) {
	if c.done && call > c.ret && c.lateWrite == "" {
		c.lateWrite = buf
	}
}

//go:norace
func concSlot(n *int, h []connOpRec) *connOpRec {
	if *n >= len(h) {
		return nil
	}
	p := &h[*n]
	*n++
	return p
}

// keyLogProbe is a KeyLogWriter that notices concurrent entry. Its own state is
// atomic except the buffer, which only a correctly serialised caller touches
// one at a time (so the race detector reports the library, not the probe).
type keyLogProbe struct {
	inside   atomic.Int64
	overlaps atomic.Int64
	buf      bytes.Buffer
}

func (k *keyLogProbe) Write(p []byte) (int, error) {
	if k.inside.Add(1) > 1 {
		k.overlaps.Add(1)
	}
	simkit.Yield(-26) // a writer that takes a moment
	n, err := k.buf.Write(p)
	k.inside.Add(-1)
	return n, err
}

func (k *keyLogProbe) malformed() string {
	for _, ln := range bytes.Split(bytes.TrimSuffix(k.buf.Bytes(), []byte("\n")), []byte("\n")) {
		f := bytes.Fields(ln)
		if len(ln) == 0 {
			continue
		}
		if len(f) != 3 || string(f[0]) != "CLIENT_RANDOM" || len(f[1]) != 64 || len(f[2]) != 96 {
			return fmt.Sprintf("line %q", ln)
		}
	}
	return ""
}

// ---- conc-config: one Config serving simultaneous connections ----------

func runConcConfig(c *simkit.Choice, r *simkit.Rec) {
	pki.Load()
	nconn := c.Range(2, 5, simkit.LScen)
	mode := c.Choose(2, simkit.LScen) // 0 GMSSL, 1 TLS
	rotate := c.Bool(2, 3, simkit.LScen)
	clone := c.Bool(1, 2, simkit.LScen)
	pol := drawConcPolicy(c, r, 4000*nconn)
	ent := uint64(c.Choose(1<<31, simkit.LEntropy))
	r.Config = fmt.Sprintf("config/mode%d", mode)
	r.Sig(uint64(nconn) | uint64(mode)<<4 | 6<<20)
	s := simkit.NewSim(c, pol, 8000000)
	// the caller's key log writer: calls must be serialised by the library (as
	// crypto/tls documents); klog counts re-entrancy with atomics and keeps the lines
	klog := &keyLogProbe{}
	scfg := &gmtls.Config{Rand: simkit.NewStream(ent + 1), Time: simTime(s, 0), KeyLogWriter: klog}
	cache := gmtls.NewLRUClientSessionCache(2)
	// own caches: every client keeps the ticket of its own connection, and offers it
	// in a follow-up connection once everything concurrent is over
	ownCache := c.Bool(2, 3, simkit.LScen)
	// one client Config object shared by all simultaneous dials (as an application
	// with one http.Transport has), instead of one Config per connection
	sharedCC := c.Bool(1, 3, simkit.LScen)
	if sharedCC {
		ownCache = false
	}
	ccfgs := make([]*gmtls.Config, nconn)
	// written and read by different tasks: atomics (the scheduler's baton is invisible to the race detector)
	hsStart := make([]atomic.Int64, nconn)
	var rotEnd [3]atomic.Int64
	var insideTicket atomic.Bool
	var waitingFor atomic.Int64 // targeted rotation the rotator is waiting to perform (-1 = none)
	waitingFor.Store(-1)
	var inTicket atomic.Int64 // (declared before any task exists: later declarations would race with already spawned goroutines)
	var anyFailed atomic.Bool
	var connsDone atomic.Int64 // finished connection tasks (client and server ends)
	var flags []*simkit.Flag
	if mode == 0 {
		scfg.GMSupport = gmtls.NewGMSupport()
		scfg.Certificates = gmServerCerts("srv-sign", "srv-enc")
		scfg.CipherSuites = gmSuites
	} else {
		scfg.Certificates = []gmtls.Certificate{pki.GMStd("tlsrsa")}
		scfg.CipherSuites = []uint16{0xc02f, 0x009c}
	}
	// the shared server Config may answer through its certificate callbacks
	srvCallbacks := c.Bool(1, 3, simkit.LScen)
	staticCerts := scfg.Certificates
	if srvCallbacks {
		certs := scfg.Certificates
		scfg.Certificates = nil
		scfg.GetCertificate = func(*gmtls.ClientHelloInfo) (*gmtls.Certificate, error) { return &certs[0], nil }
		if mode == 0 {
			scfg.GetKECertificate = func(*gmtls.ClientHelloInfo) (*gmtls.Certificate, error) { return &certs[1], nil }
		}
	}
	for i := range ccfgs {
		cc := &gmtls.Config{Rand: simkit.NewStream(ent + 100 + uint64(i)), Time: simTime(s, 0), ServerName: "server.sim", ClientSessionCache: cache}
		if ownCache {
			cc.ClientSessionCache = gmtls.NewLRUClientSessionCache(1)
		}
		if mode == 0 {
			cc.GMSupport = gmtls.NewGMSupport()
			cc.RootCAs = pki.Pool("caA")
			cc.CipherSuites = gmSuites
		} else {
			cc.RootCAs = pki.Pool("rsaCA")
			cc.CipherSuites = []uint16{0xc02f, 0x009c}
		}
		ccfgs[i] = cc
	}
	if sharedCC {
		for i := range ccfgs {
			ccfgs[i] = ccfgs[0]
		}
		r.Reach(idx(concReach, "config-client-shared"))
	}
	var rotGap [3]int
	for k := range rotGap {
		rotGap[k] = []int{10, 50, 200, 800, 2500, 6000}[c.Choose(6, simkit.LFault)]
	}
	// some of the three rotations happen before any connection starts; the others
	// run concurrently, either after a drawn number of yields or timed to the
	// moment some task stands inside the ticket code (statement-instrumented builds)
	nRot := 1 + c.Choose(3, simkit.LFault) // rotations in all: the list ends as [nRot, nRot-1]
	preRot := c.Choose(nRot, simkit.LFault)
	if c.Bool(1, 2, simkit.LFault) {
		preRot = nRot - 1 // only the last rotation is concurrent: every handshake starts with a key of the final list
	}
	owedIdx := nRot - 2 // a handshake that began after this rotation had completed can only have sealed under a key of the final list
	if owedIdx < 0 {
		owedIdx = 0
	}
	targeted := c.Bool(2, 3, simkit.LFault)
	// targeted: rotation k happens at the moment the hitTarget[k]-th statement of the
	// ticket code (counted over all tasks since the previous rotation) is reached:
	// the rotator is woken and boosted there, i.e. the whole SetSessionTicketKeys
	// call falls between two statements of a task that is sealing or opening a ticket
	// (the ticket code, or the Config's own lazily initialised state: serverInit, key list accessors)
	targetFile := []string{"gmtls/ticket.go", "gmtls/common.go"}[c.Choose(2, simkit.LFault)]
	var hitTarget [3]int64
	for k := range hitTarget {
		hitTarget[k] = int64(c.Range(1, 50, simkit.LFault))
		if targetFile == "gmtls/common.go" {
			hitTarget[k] = int64(c.Range(1, 30, simkit.LFault))
		}
	}
	var windows [3]*simkit.Flag
	for k := range windows {
		windows[k] = &simkit.Flag{Name: fmt.Sprintf("ticket-window-%d", k)}
	}
	var rotTask atomic.Value // *simkit.Task of the rotator
	releaseRotator := func() {
		// when the last connection task ends nobody will reach the ticket code any more
		if connsDone.Add(1) == int64(2*nconn) {
			for _, w := range windows {
				w.Set()
			}
		}
	}
	if targeted && rotate {
		s.OnSite = func(site int) {
			if simkit.SiteFile(site) != targetFile {
				return
			}
			if t := s.CurTask(); targetFile == "gmtls/common.go" && (t == nil || t.Node%2 == 0 || t.Node >= 100) {
				return // the Config's own state: only statements reached by server-side tasks count
			}
			k := waitingFor.Load()
			if k < 0 || k > 2 {
				return
			}
			if inTicket.Add(1) == hitTarget[k] {
				waitingFor.Store(-1)
				windows[k].Set()
				if t, ok := rotTask.Load().(*simkit.Task); ok {
					s.Boost(t)
				}
			}
		}
	}
	type res struct {
		cerr, serr   error
		cgot, sgot   []byte
		resumed      bool
		cdone, sdone bool
	}
	out := make([]res, nconn)
	msg := func(i int) []byte {
		return []byte(fmt.Sprintf("hello from client %02d over one shared config.....", i))
	} // fixed length 48
	const msgLen = 48
	for i := 0; i < nconn; i++ {
		i := i
		a, b := s.NewConnPair(fmt.Sprintf("c%d", i), fmt.Sprintf("s%d", i), simkit.NetCfg{}, simkit.NetCfg{})
		cf, sf := &simkit.Flag{Name: fmt.Sprintf("cdone%d", i)}, &simkit.Flag{Name: fmt.Sprintf("sdone%d", i)}
		flags = append(flags, cf, sf)
		s.Spawn(fmt.Sprintf("cli%d", i), 2*i, func() {
			defer cf.Set()
			defer releaseRotator()
			conn := gmtls.Client(a, ccfgs[i])
			if out[i].cerr = conn.Handshake(); out[i].cerr != nil {
				anyFailed.Store(true)
				a.Close()
				return
			}
			out[i].resumed = conn.ConnectionState().DidResume
			conn.Write(msg(i))
			buf := make([]byte, msgLen)
			n, _ := io.ReadFull(conn, buf)
			out[i].cgot = append([]byte(nil), buf[:n]...)
			conn.Close()
			out[i].cdone = true
		})
		s.Spawn(fmt.Sprintf("srv%d", i), 2*i+1, func() {
			defer sf.Set()
			defer releaseRotator()
			conn := gmtls.Server(b, scfg)
			hsStart[i].Store(s.StepCount())
			out[i].serr = conn.Handshake()
			if out[i].serr != nil {
				anyFailed.Store(true)
				b.Close()
				return
			}
			buf := make([]byte, msgLen)
			n, _ := io.ReadFull(conn, buf)
			out[i].sgot = append([]byte(nil), buf[:n]...)
			conn.Write(bytes.ToUpper(buf[:n]))
			conn.Close()
			out[i].sdone = true
		})
	}
	rotateTo := func(k int) {
		var k1, k2 [32]byte
		k1[0], k2[0] = byte(k+1), byte(k)
		scfg.SetSessionTicketKeys([][32]byte{k1, k2})
		rotEnd[k].Store(s.StepCount())
	}
	if rotate {
		for k := 0; k < preRot; k++ {
			rotateTo(k)
			rotEnd[k].Store(-1)
		}
		r.Fault(idx(concFaults, "rotation-during-handshake"))
		rf := &simkit.Flag{Name: "rotated"}
		flags = append(flags, rf)
		rotTask.Store(s.Spawn("rotator", 100, func() {
			defer rf.Set()
			for k := preRot; k < nRot; k++ {
				if targeted && len(simkit.SiteTable) > 0 {
					inTicket.Store(0)
					waitingFor.Store(int64(k))
					s.WaitFlag(windows[k]) // set by the OnSite hook, or by the last connection task to finish
					rotateTo(k)
					s.Unboost()
					insideTicket.Store(true)
					continue
				}
				for y := 0; y < rotGap[k]; y++ {
					simkit.Yield(-21)
				}
				rotateTo(k)
			}
		}))
	}
	// follow-up: after all concurrent activity, each client reconnects with its own
	// cache. A ticket issued by a handshake that began after the second rotation had
	// completed was sealed under key 2 or key 3 whatever the interleaving, both of
	// which the final key list [3, 2] holds; without rotation the key never changed.
	// Such a ticket must resume.
	follow := make([]res, nconn)
	owed := make([]bool, nconn)
	if ownCache {
		s.Spawn("follow-up", 102, func() {
			for _, f := range flags {
				s.WaitFlag(f)
			}
			if anyFailed.Load() {
				return
			}
			for i := 0; i < nconn; i++ {
				i := i
				owed[i] = !rotate || hsStart[i].Load() > rotEnd[owedIdx].Load()
				a, b := s.NewConnPair(fmt.Sprintf("fc%d", i), fmt.Sprintf("fs%d", i), simkit.NetCfg{}, simkit.NetCfg{})
				cf, sf := &simkit.Flag{Name: "fcdone"}, &simkit.Flag{Name: "fsdone"}
				s.Spawn(fmt.Sprintf("fcli%d", i), 2*i, func() {
					defer cf.Set()
					conn := gmtls.Client(a, ccfgs[i])
					if follow[i].cerr = conn.Handshake(); follow[i].cerr != nil {
						a.Close()
						return
					}
					follow[i].resumed = conn.ConnectionState().DidResume
					conn.Close()
					follow[i].cdone = true
				})
				s.Spawn(fmt.Sprintf("fsrv%d", i), 2*i+1, func() {
					defer sf.Set()
					// every second follow-up goes to another server process that was started
					// with the final key list: what SetSessionTicketKeys installed last must be
					// what tickets are sealed under
					fcfg := scfg
					if rotate && i%2 == 1 {
						fcfg = &gmtls.Config{Rand: simkit.NewStream(ent + 7), Time: simTime(s, 0), GMSupport: scfg.GMSupport, Certificates: staticCerts, CipherSuites: scfg.CipherSuites}
						var k1, k2 [32]byte
						k1[0], k2[0] = byte(nRot), byte(nRot-1)
						fcfg.SetSessionTicketKeys([][32]byte{k1, k2})
					}
					conn := gmtls.Server(b, fcfg)
					if follow[i].serr = conn.Handshake(); follow[i].serr != nil {
						b.Close()
						return
					}
					var one [1]byte
					conn.Read(one[:])
					conn.Close()
					follow[i].sdone = true
				})
				s.WaitFlag(cf)
				s.WaitFlag(sf)
			}
		})
	}
	if clone {
		s.Spawn("cloner", 101, func() {
			for y := 0; y < 30; y++ {
				simkit.Yield(-22)
			}
			cl := scfg.Clone()
			_ = cl
		})
	}
	s.Run()
	r.Detail = map[string]interface{}{"program": "conc-config", "connections": nconn, "mode": mode, "rotate": rotate, "clone": clone, "policy": fmt.Sprintf("%+v", pol), "preempts": s.Preempts}
	if !concFinish(s, r, "gmtls.Config") {
		return
	}
	for i := range out {
		if out[i].cerr != nil || out[i].serr != nil {
			r.Violate("handshake-failed", "gmtls.Config", fmt.Sprintf("connection %d of %d sharing one Config failed: client=%v server=%v (rotate=%v)", i, nconn, out[i].cerr, out[i].serr, rotate))
			return
		}
		if !bytes.Equal(out[i].sgot, msg(i)) || !bytes.Equal(out[i].cgot, bytes.ToUpper(msg(i))) {
			r.Violate("result-differs", "gmtls.Config", fmt.Sprintf("connection %d: server got %q, client got %q", i, out[i].sgot, out[i].cgot))
			return
		}
		if out[i].resumed {
			r.Reach(idx(concReach, "config-resumed"))
		}
	}
	if n := klog.overlaps.Load(); n > 0 {
		r.Violate("result-differs", "gmtls.Config/KeyLogWriter", fmt.Sprintf("the caller's KeyLogWriter was entered by %d calls while another call was still inside it (\"Use of KeyLogWriter is serialised\")", n))
		return
	}
	if bad := klog.malformed(); bad != "" {
		r.Violate("result-differs", "gmtls.Config/KeyLogWriter", "key log damaged: "+bad)
		return
	}
	if ownCache {
		for i := range follow {
			if follow[i].cerr != nil || follow[i].serr != nil {
				r.Violate("handshake-failed", "gmtls.Config", fmt.Sprintf("follow-up connection %d failed: client=%v server=%v (rotate=%v)", i, follow[i].cerr, follow[i].serr, rotate))
				return
			}
			if owed[i] {
				r.Reach(idx(concReach, "config-followup-resumption-owed"))
				if !follow[i].resumed {
					r.Violate("result-differs", "gmtls.Config/ticket", fmt.Sprintf("connection %d obtained its ticket in a handshake that began at step %d, after rotation %d of %d had completed (step %d; rotate=%v); under every order of the concurrent calls that ticket was sealed under a key of the final list [%d, %d], yet the follow-up connection (second server process with that list: %v) did not resume", i, hsStart[i].Load(), owedIdx+1, nRot, rotEnd[owedIdx].Load(), rotate, nRot, nRot-1, rotate && i%2 == 1))
					return
				}
			}
		}
	}
	r.Reach(idx(concReach, "config-handshakes"))
	if insideTicket.Load() {
		r.Reach(idx(concReach, "config-rotation-inside-ticket-code"))
	}
	if rotate {
		r.Reach(idx(concReach, "config-rotated"))
	}
	r.Outcome = "ok"
}
