package scen

import (
	"bytes"
	"crypto/hmac"
	"fmt"
	"hash"

	"github.com/tjfoc/gmsm/sm3"
	"github.com/tjfoc/gmsm/verifsim/ref/refsm3"
	"github.com/tjfoc/gmsm/verifsim/simkit"
	"golang.org/x/crypto/pbkdf2"
)

// C04: SM3 as a streaming hash.Hash driven by an environment that chooses
// chunking and the operation history; reference = refsm3 op by op.

var hashFaults = []string{"empty-write", "one-byte-write", "write-across-block", "aliased-buffer-overwritten", "sum-mid-stream", "sum-prefix-spare-cap", "sum-prefix-no-cap", "reset-mid-stream", "multi-mib-stream", "interleaved-objects", "oneshot-between-writes", "stream-beyond-2^32-bits"}
var hashReach = []string{"len-55-56", "len-63-64-65", "len-119-120", "sum-twice-same", "write-after-sum", "hmac-checked", "pbkdf2-checked", "oneshot-checked", "history>=8", "reset-then-reuse"}

func init() {
	register(Family{Name: "hashstream", Prop: "C04", ID: 401, Weight: 3, FaultNames: hashFaults, ReachNames: hashReach, Run: runHashStream})
	register(Family{Name: "hashstream-multi", Prop: "C04", ID: 402, Weight: 1, FaultNames: hashFaults, ReachNames: hashReach, Run: runHashMulti})
}

func drawMsgLen(c *simkit.Choice) int {
	switch c.Weighted([]int{4, 4, 2, 2}, simkit.LScen) {
	case 0:
		return []int{0, 1, 55, 56, 57, 63, 64, 65, 119, 120, 121, 127, 128, 129, 183, 184, 191, 192}[c.Choose(18, simkit.LScen)]
	case 1:
		v := 64*c.Range(0, 128, simkit.LScen) + c.Range(-9, 1, simkit.LScen)
		if v < 0 {
			v = 0
		}
		return v
	case 2:
		return c.Range(0, 300, simkit.LScen)
	}
	return c.Range(0, 8192, simkit.LScen)
}

func runHashStream(c *simkit.Choice, r *simkit.Rec) {
	simkit.Guard(r, func() { hashStreamRun(c, r) })
	r.Nontrivial = true
}

func hashStreamRun(c *simkit.Choice, r *simkit.Rec) {
	mode := c.Weighted([]int{12, 2, 2, 1}, simkit.LScen) // 0 history, 1 hmac, 2 pbkdf2, 3 big stream
	switch mode {
	case 1:
		hashHMAC(c, r)
		return
	case 2:
		hashPBKDF2(c, r)
		return
	case 3:
		if c.Bool(1, 10, simkit.LScen) {
			if c.Bool(1, 400, simkit.LScen) {
				hashHuge(c, r)
				return
			}
			hashBig(c, r)
			return
		}
	}
	hashHistory(c, r)
}

func hashHistory(c *simkit.Choice, r *simkit.Rec) {
	L := drawMsgLen(c)
	msg := drawData(c, L)
	nops := c.Range(1, 32, simkit.LScen)
	r.Config = "history"
	r.Sig(uint64(L) | 1<<32)
	var impl hash.Hash = sm3.New()
	var ref hash.Hash = refsm3.New()
	var ops []string
	written := 0 // bytes since last Reset (tracked only for reach probes)
	off := 0
	scratch := make([]byte, 0, 8192+64)
	sums := 0
	lastWasSum := false
	// every slice Sum has returned stays what it was, whatever is done to the hash
	// object afterwards (a result must not alias the object's own storage)
	type kept struct {
		got  []byte
		copy []byte
		op   int
	}
	var results []kept
	stable := func() bool {
		for _, k := range results {
			if !bytes.Equal(k.got, k.copy) {
				r.Violate("sum-result-changed", "sm3.Sum", fmt.Sprintf("the slice returned by Sum at operation %d changed later (ops %v): it was %x, it is now %x", k.op, ops, k.copy, k.got))
				return false
			}
		}
		return true
	}
	check := func(site string, got, want []byte) bool {
		if !bytes.Equal(got, want) {
			r.Violate("digest-mismatch", site, fmt.Sprintf("after ops %v (bytes since reset %d): got %x want %x", ops, written, got, want))
			return false
		}
		return true
	}
	// chunk partition: remaining message is spread over the Write ops
	for i := 0; i < nops; i++ {
		var op int
		if off < L {
			op = c.Weighted([]int{6, 2, 2, 1, 1}, simkit.LOp)
		} else {
			op = 1 + c.Weighted([]int{3, 3, 1, 1}, simkit.LOp)
		}
		r.Sig(uint64(op))
		switch op {
		case 0: // Write(chunk)
			rem := L - off
			var n int
			switch c.Weighted([]int{3, 2, 1, 2, 2}, simkit.LIO) {
			case 0:
				n = rem
			case 1:
				n = c.Range(0, 70, simkit.LIO)
			case 2:
				n = 0
			case 3:
				n = 1
			default:
				n = c.Range(0, rem, simkit.LIO)
			}
			if n > rem {
				n = rem
			}
			if n == 0 {
				r.Fault(idx(hashFaults, "empty-write"))
			} else if n == 1 {
				r.Fault(idx(hashFaults, "one-byte-write"))
			}
			if (written%64)+n > 64 {
				r.Fault(idx(hashFaults, "write-across-block"))
			}
			// the environment reuses one buffer and overwrites it after Write returns
			buf := scratch[:n]
			copy(buf, msg[off:off+n])
			m, err := impl.Write(buf)
			if err != nil || m != n {
				r.Violate("write-result", "sm3.Write", fmt.Sprintf("Write(%d bytes) = (%d,%v)", n, m, err))
				return
			}
			ref.Write(msg[off : off+n])
			for j := range buf {
				buf[j] ^= 0xa5
			}
			if n > 0 {
				r.Fault(idx(hashFaults, "aliased-buffer-overwritten"))
			}
			if lastWasSum {
				r.Reach(idx(hashReach, "write-after-sum"))
			}
			off += n
			written += n
			ops = append(ops, fmt.Sprintf("W%d", n))
			r.Sig(uint64(n))
			lastWasSum = false
		case 1: // Sum(nil)
			got := impl.Sum(nil)
			want := ref.Sum(nil)
			ops = append(ops, "S")
			if !check("sm3.Sum(nil)", got, want) {
				return
			}
			results = append(results, kept{got, append([]byte(nil), got...), len(ops)})
			if !stable() {
				return
			}
			if off < L {
				r.Fault(idx(hashFaults, "sum-mid-stream"))
			}
			if lastWasSum {
				r.Reach(idx(hashReach, "sum-twice-same"))
			}
			sums++
			lastWasSum = true
		case 2: // Sum(prefix)
			pl := c.Range(1, 70, simkit.LIO)
			spare := c.Bool(1, 2, simkit.LIO)
			capx := pl
			if spare {
				capx = pl + 32 + c.Range(0, 16, simkit.LIO)
			}
			full := make([]byte, capx)
			for j := range full {
				full[j] = byte(0xc0 + j%31)
			}
			prefix := full[:pl]
			keep := append([]byte(nil), prefix...)
			got := impl.Sum(prefix)
			want := append(append([]byte(nil), keep...), ref.Sum(nil)...)
			ops = append(ops, fmt.Sprintf("P%d/%d", pl, capx))
			if spare {
				r.Fault(idx(hashFaults, "sum-prefix-spare-cap"))
			} else {
				r.Fault(idx(hashFaults, "sum-prefix-no-cap"))
			}
			if !bytes.Equal(got, want) {
				r.Violate("sum-prefix", "sm3.Sum(prefix)", fmt.Sprintf("after ops %v: Sum(prefix of %d bytes, cap %d) returned %d bytes %x…, want prefix||digest (%d bytes) …%x", ops, pl, capx, len(got), head(got, 8), len(want), want[pl:]))
				return
			}
			if !bytes.Equal(prefix, keep) {
				r.Violate("sum-prefix-clobbered", "sm3.Sum(prefix)", "bytes in front of len(prefix) were modified")
				return
			}
			results = append(results, kept{got, append([]byte(nil), got...), len(ops)})
			if !stable() {
				return
			}
			sums++
			lastWasSum = true
		case 3: // Reset
			impl.Reset()
			ref.Reset()
			if written > 0 {
				r.Fault(idx(hashFaults, "reset-mid-stream"))
				r.Reach(idx(hashReach, "reset-then-reuse"))
			}
			written = 0
			ops = append(ops, "R")
			lastWasSum = false
		case 4: // Size / BlockSize
			if impl.Size() != 32 || impl.BlockSize() != 64 {
				r.Violate("size", "sm3.Size", fmt.Sprintf("Size=%d BlockSize=%d", impl.Size(), impl.BlockSize()))
				return
			}
			ops = append(ops, "Z")
		}
	}
	// final: write the rest in one go and compare; one-shot agrees
	if off < L {
		impl.Write(msg[off:])
		ref.Write(msg[off:])
		written += L - off
		ops = append(ops, fmt.Sprintf("W%d", L-off))
	}
	if !check("sm3.Sum(nil)", impl.Sum(nil), ref.Sum(nil)) {
		return
	}
	if !stable() {
		return
	}
	one := sm3.Sm3Sum(msg)
	w := refsm3.Sum(msg)
	if !bytes.Equal(one, w[:]) {
		r.Violate("oneshot-mismatch", "sm3.Sm3Sum", fmt.Sprintf("len %d: got %x want %x", L, one, w))
		return
	}
	r.Reach(idx(hashReach, "oneshot-checked"))
	switch written {
	case 55, 56:
		r.Reach(idx(hashReach, "len-55-56"))
	case 63, 64, 65:
		r.Reach(idx(hashReach, "len-63-64-65"))
	case 119, 120:
		r.Reach(idx(hashReach, "len-119-120"))
	}
	if len(ops) >= 8 {
		r.Reach(idx(hashReach, "history>=8"))
	}
	r.Detail = map[string]interface{}{"mode": "history", "len": L, "ops": ops}
	r.Outcome = "ok"
}

func head(b []byte, n int) []byte {
	if len(b) > n {
		return b[:n]
	}
	return b
}

func hashHMAC(c *simkit.Choice, r *simkit.Rec) {
	kl := []int{0, 1, 16, 32, 63, 64, 65, 100, 200}[c.Choose(9, simkit.LScen)]
	key := drawData(c, kl)
	L := drawMsgLen(c)
	msg := drawData(c, L)
	r.Config = "hmac"
	r.Sig(uint64(L)<<16 | uint64(kl) | 2<<40)
	a := hmac.New(sm3.New, key)
	b := hmac.New(refsm3.New, key)
	// chunked writes, a mid-way Sum, Reset and reuse
	off := 0
	for off < L {
		n := c.Range(0, L-off, simkit.LIO)
		if c.Bool(1, 3, simkit.LIO) && n > 70 {
			n = c.Range(0, 70, simkit.LIO)
		}
		a.Write(msg[off : off+n])
		b.Write(msg[off : off+n])
		off += n
		if c.Bool(1, 4, simkit.LOp) {
			if !bytes.Equal(a.Sum(nil), b.Sum(nil)) {
				r.Violate("hmac-mismatch", "hmac(sm3.New)", fmt.Sprintf("key %d bytes, %d of %d bytes written: mid-stream HMAC differs", kl, off, L))
				return
			}
		}
		if n == 0 && off < L {
			n = 1
			a.Write(msg[off : off+1])
			b.Write(msg[off : off+1])
			off++
		}
	}
	x, y := a.Sum(nil), b.Sum(nil)
	if !bytes.Equal(x, y) {
		r.Violate("hmac-mismatch", "hmac(sm3.New)", fmt.Sprintf("key %d bytes msg %d bytes: got %x want %x", kl, L, x, y))
		return
	}
	a.Reset()
	b.Reset()
	a.Write(msg)
	b.Write(msg)
	if !bytes.Equal(a.Sum(nil), y) || !bytes.Equal(b.Sum(nil), y) {
		r.Violate("hmac-mismatch", "hmac(sm3.New)", "HMAC after Reset and reuse differs")
		return
	}
	r.Reach(idx(hashReach, "hmac-checked"))
	r.Detail = map[string]interface{}{"mode": "hmac", "key_len": kl, "len": L}
	r.Outcome = "ok"
}

func hashPBKDF2(c *simkit.Choice, r *simkit.Rec) {
	pw := drawData(c, c.Range(0, 80, simkit.LScen))
	salt := drawData(c, c.Range(0, 40, simkit.LScen))
	iter := c.Range(1, 40, simkit.LScen)
	kl := []int{1, 16, 32, 33, 48, 64, 100}[c.Choose(7, simkit.LScen)]
	r.Config = "pbkdf2"
	r.Sig(uint64(len(pw))<<24 | uint64(len(salt))<<16 | uint64(iter)<<8 | uint64(kl) | 3<<40)
	var x []byte
	func() {
		// x/crypto/pbkdf2 accumulates output with Sum(b); a hash that breaks the
		// Sum contract makes it index out of range inside pbkdf2 itself.
		defer func() {
			if e := recover(); e != nil {
				r.Violate("pbkdf2-panic", "pbkdf2(sm3.New)", fmt.Sprintf("pbkdf2.Key over sm3.New panicked: %v", e))
			}
		}()
		x = pbkdf2.Key(pw, salt, iter, kl, sm3.New)
	}()
	if r.Violation() != nil {
		return
	}
	y := pbkdf2.Key(pw, salt, iter, kl, refsm3.New)
	if !bytes.Equal(x, y) {
		r.Violate("pbkdf2-mismatch", "pbkdf2(sm3.New)", fmt.Sprintf("pw %d salt %d iter %d keyLen %d: got %x want %x", len(pw), len(salt), iter, kl, x, y))
		return
	}
	r.Reach(idx(hashReach, "pbkdf2-checked"))
	r.Detail = map[string]interface{}{"mode": "pbkdf2", "iter": iter, "key_len": kl}
	r.Outcome = "ok"
}

func hashBig(c *simkit.Choice, r *simkit.Rec) {
	L := (1 << 20) + c.Range(0, 3<<20, simkit.LScen)
	msg := drawData(c, L)
	r.Config = "big"
	r.Sig(uint64(L) | 4<<40)
	a := sm3.New()
	b := refsm3.New()
	off := 0
	for off < L {
		n := []int{1 << 16, 4096, 1000003, 64, 32 * 1024, 1<<20 + 1, 2 << 20, L}[c.Choose(8, simkit.LIO)]
		if n > L-off {
			n = L - off
		}
		a.Write(msg[off : off+n])
		b.Write(msg[off : off+n])
		off += n
	}
	if !bytes.Equal(a.Sum(nil), b.Sum(nil)) {
		r.Violate("digest-mismatch", "sm3.Sum(nil)", fmt.Sprintf("%d-byte stream differs from reference", L))
		return
	}
	if c.Bool(1, 2, simkit.LOp) {
		one := sm3.Sm3Sum(msg)
		if !bytes.Equal(one, b.Sum(nil)) {
			r.Violate("oneshot-mismatch", "sm3.Sm3Sum", fmt.Sprintf("one-shot digest of %d bytes differs from reference", L))
			return
		}
	}
	r.Fault(idx(hashFaults, "multi-mib-stream"))
	r.Detail = map[string]interface{}{"mode": "big", "len": L}
	r.Outcome = "ok"
}

// hashHuge: one stream long enough for the bit length to pass 2^32 (512 MiB),
// fed in large pieces of a periodic pattern; the digest is compared with the
// reference just below the boundary, just above it and at the end.
func hashHuge(c *simkit.Choice, r *simkit.Rec) {
	const boundary = 1 << 29 // bytes at which the bit length reaches 2^32
	L := boundary + []int{0, 1, 64, 1<<20 + 17, 5 << 20}[c.Choose(5, simkit.LScen)]
	pat := drawData(c, 4099) // period coprime to the block size
	chunk := make([]byte, 8<<20)
	for i := range chunk {
		chunk[i] = pat[i%len(pat)]
	}
	r.Config = "huge"
	r.Sig(uint64(L) | 6<<40)
	a := sm3.New()
	b := refsm3.New()
	written := 0
	feed := func(n int) {
		for n > 0 {
			// keep the pattern phase: always start at (written mod period)
			k := n
			if k > len(chunk)-len(pat) {
				k = len(chunk) - len(pat)
			}
			ph := written % len(pat)
			a.Write(chunk[ph : ph+k])
			b.Write(chunk[ph : ph+k])
			written += k
			n -= k
		}
	}
	check := func(where string) bool {
		if !bytes.Equal(a.Sum(nil), b.Sum(nil)) {
			r.Violate("digest-mismatch", "sm3.Sum(nil)", fmt.Sprintf("stream of %d bytes (%s the 2^32-bit boundary) differs from reference", written, where))
			return false
		}
		return true
	}
	feed(boundary - 64 - c.Range(0, 4096, simkit.LIO))
	if !check("just below") {
		return
	}
	feed(boundary - written)
	if !check("exactly at") {
		return
	}
	feed(L - written + c.Range(1, 3000, simkit.LIO))
	if !check("above") {
		return
	}
	r.Fault(idx(hashFaults, "stream-beyond-2^32-bits"))
	r.Detail = map[string]interface{}{"mode": "huge", "len": written}
	r.Outcome = "ok"
}

// runHashMulti: several live hash objects (and one-shot calls) interleaved by
// the environment; each object must depend on its own writes only.
func runHashMulti(c *simkit.Choice, r *simkit.Rec) {
	simkit.Guard(r, func() { hashMulti(c, r) })
	r.Nontrivial = true
}

func hashMulti(c *simkit.Choice, r *simkit.Rec) {
	nobj := c.Range(2, 4, simkit.LScen)
	nops := c.Range(3, 24, simkit.LScen)
	r.Config = "multi-object"
	r.Sig(uint64(nobj) | 5<<40)
	impl := make([]hash.Hash, nobj)
	ref := make([]hash.Hash, nobj)
	for i := range impl {
		impl[i] = sm3.New()
		ref[i] = refsm3.New()
	}
	var ops []string
	for i := 0; i < nops; i++ {
		o := c.Choose(nobj, simkit.LOp)
		op := c.Weighted([]int{6, 3, 1, 2, 1}, simkit.LOp)
		r.Sig(uint64(o)<<8 | uint64(op))
		switch op {
		case 0:
			n := []int{1, 3, 20, 55, 63, 64, 65, 100, 0}[c.Choose(9, simkit.LIO)]
			d := drawData(c, n)
			impl[o].Write(d)
			ref[o].Write(d)
			ops = append(ops, fmt.Sprintf("h%d.W%d", o, n))
			r.Fault(idx(hashFaults, "interleaved-objects"))
		case 1:
			got, want := impl[o].Sum(nil), ref[o].Sum(nil)
			ops = append(ops, fmt.Sprintf("h%d.S", o))
			if !bytes.Equal(got, want) {
				r.Violate("digest-mismatch", "sm3.Sum(nil)", fmt.Sprintf("%d live objects, after %v: object %d digest %x, want %x (a hash must depend on its own writes only)", nobj, ops, o, got, want))
				return
			}
		case 2:
			impl[o].Reset()
			ref[o].Reset()
			ops = append(ops, fmt.Sprintf("h%d.R", o))
		case 3:
			n := []int{0, 1, 3, 40, 64, 100}[c.Choose(6, simkit.LIO)]
			d := drawData(c, n)
			got := sm3.Sm3Sum(d)
			want := refsm3.Sum(d)
			ops = append(ops, fmt.Sprintf("Sm3Sum(%d)", n))
			r.Fault(idx(hashFaults, "oneshot-between-writes"))
			if !bytes.Equal(got, want[:]) {
				r.Violate("oneshot-mismatch", "sm3.Sm3Sum", fmt.Sprintf("after %v: one-shot digest of %d bytes %x, want %x", ops, n, got, want))
				return
			}
		case 4:
			// a fresh object replaces an old one
			impl[o] = sm3.New()
			ref[o] = refsm3.New()
			ops = append(ops, fmt.Sprintf("h%d=New", o))
		}
	}
	for o := range impl {
		if !bytes.Equal(impl[o].Sum(nil), ref[o].Sum(nil)) {
			r.Violate("digest-mismatch", "sm3.Sum(nil)", fmt.Sprintf("%d live objects, after %v: final digest of object %d differs from the reference", nobj, ops, o))
			return
		}
	}
	r.Detail = map[string]interface{}{"mode": "multi-object", "objects": nobj, "ops": ops}
	r.Outcome = "ok"
}
