// Package scen holds the scenario families: workloads + oracles per property.
package scen

import (
	"github.com/tjfoc/gmsm/verifsim/simkit"
)

// Family is one scenario family of a property.
type Family struct {
	Name       string
	Prop       string
	ID         uint64
	Weight     int  // relative share of runs within its property
	RaceBuild  bool // runs in the -race build
	PlainBuild bool // runs in the plain build
	FaultNames []string
	ReachNames []string
	// Run executes one simulated run.
	Run func(c *simkit.Choice, r *simkit.Rec)
	// Enum, if non-nil, makes the family enumerated: it returns the choice
	// prefix of the seq-th run of this family for the batch seed.
	Enum func(seed uint64, seq uint64) []uint32
}

var families []Family

func register(f Family) {
	if !f.RaceBuild && !f.PlainBuild {
		f.PlainBuild = true
	}
	families = append(families, f)
}

// ForProp returns the families of a property.
func ForProp(prop string) []Family {
	var out []Family
	for _, f := range families {
		if f.Prop == prop {
			out = append(out, f)
		}
	}
	return out
}

// ByName finds a family.
func ByName(name string) *Family {
	for i := range families {
		if families[i].Name == name {
			return &families[i]
		}
	}
	return nil
}

func idx(names []string, n string) int {
	for i, x := range names {
		if x == n {
			return i
		}
	}
	panic("scen: unknown counter " + n)
}
