package scen

import (
	"bytes"
	"fmt"

	"github.com/tjfoc/gmsm/verifsim/pki"
	"github.com/tjfoc/gmsm/verifsim/ref/reftls"
)

// wireCheckGM decodes the captured GMSSL session with the independent
// reference implementation: message order, ServerKeyExchange signature,
// pre-master decryption under the fixture encryption key, PRF-SM3 master
// secret vs the endpoints' key log, both Finished values, every protected
// record, the application bytes, and the IV/nonce/sequence discipline.
func wireCheckGM(c2s, s2c []byte, cr, sr *endRes, payC, payS []byte, p *benignParams) string {
	kl := reftls.ParseKeyLog(append(append([]byte(nil), cr.KeyLog.Bytes()...), sr.KeyLog.Bytes()...))
	encName := "srv-enc"
	if p.SrvChain == 1 {
		encName = "srvint-enc"
	}
	if p.VHost {
		encName = "srv2-enc"
	}
	sess, err := reftls.Decode(c2s, s2c, reftls.DecodeOpts{KeyLog: kl, EncD: pki.D(encName)})
	if err != nil {
		return "independent decode of the captured session failed: " + err.Error()
	}
	if !sess.Complete {
		return "independent decode: handshake not complete on the wire although both ends reported completion"
	}
	if len(kl) == 0 {
		return "no CLIENT_RANDOM line was written to KeyLogWriter"
	}
	if !bytes.Equal(sess.App[0], payC) {
		return fmt.Sprintf("independent decode: client->server application bytes (%d) differ from what the client wrote (%d), first diff %d", len(sess.App[0]), len(payC), firstDiff(sess.App[0], payC))
	}
	if !bytes.Equal(sess.App[1], payS) {
		return fmt.Sprintf("independent decode: server->client application bytes (%d) differ from what the server wrote (%d), first diff %d", len(sess.App[1]), len(payS), firstDiff(sess.App[1], payS))
	}
	for d := 0; d < 2; d++ {
		if err := sess.AuditNonces(d); err != nil {
			return "IV/nonce audit: " + err.Error()
		}
		if !sess.CloseNotify[d] {
			return fmt.Sprintf("direction %d: no close_notify on the wire before the stream ended", d)
		}
	}
	if sess.Suite != cr.State.CipherSuite {
		return fmt.Sprintf("suite on the wire %04x != reported %04x", sess.Suite, cr.State.CipherSuite)
	}
	return ""
}

// wireCheckTLS12 is the same oracle for plain TLS 1.2 sessions whose suite the
// reference implements (RSA key exchange with AES-CBC/GCM): the pre-master is
// decrypted with the fixture RSA key, the master secret recomputed with the
// SHA-256/384 PRF and compared with the key log where there is one.
func wireCheckTLS12(c2s, s2c []byte, cr, sr *endRes, payC, payS []byte, keyName string, suite uint16) string {
	kl := reftls.ParseKeyLog(append(append([]byte(nil), cr.KeyLog.Bytes()...), sr.KeyLog.Bytes()...))
	o := reftls.DecodeOpts{KeyLog: kl}
	if keyName != "" {
		o.RSAD = refRSA(keyName)
	}
	sess, err := reftls.Decode(c2s, s2c, o)
	if err != nil {
		return "independent decode of the captured TLS 1.2 session failed: " + err.Error()
	}
	if !sess.Complete {
		return "independent decode: handshake not complete on the wire although both ends reported completion"
	}
	if !bytes.Equal(sess.App[0], payC) {
		return fmt.Sprintf("independent decode: client->server application bytes (%d) differ from what the client wrote (%d), first diff %d", len(sess.App[0]), len(payC), firstDiff(sess.App[0], payC))
	}
	if !bytes.Equal(sess.App[1], payS) {
		return fmt.Sprintf("independent decode: server->client application bytes (%d) differ from what the server wrote (%d), first diff %d", len(sess.App[1]), len(payS), firstDiff(sess.App[1], payS))
	}
	for d := 0; d < 2; d++ {
		if err := sess.AuditNonces(d); err != nil {
			return "IV/nonce audit: " + err.Error()
		}
	}
	if sess.Suite != suite {
		return fmt.Sprintf("suite on the wire %04x != reported %04x", sess.Suite, suite)
	}
	return ""
}
