package scen

import (
	"fmt"
	"net"
	"strings"
	"sync/atomic"

	"github.com/tjfoc/gmsm/gmtls"
	"github.com/tjfoc/gmsm/verifsim/pki"
	"github.com/tjfoc/gmsm/verifsim/ref/reftls"
	"github.com/tjfoc/gmsm/verifsim/simkit"
)

// C20, further programs on one established connection:
//
//   conc-reneg     a reader parked in Read receives HelloRequest messages from
//                  the (reference) server while other tasks of the same client
//                  call Handshake, Read(nil), ConnectionState and Write. The
//                  server refuses every renegotiation. Whatever the policy, all
//                  calls return and the reader sees exactly what a lone reader
//                  would see.
//   conc-deadline  a Write (or Read) of one task is parked in the transport;
//                  another task sets a deadline on the same connection to
//                  interrupt it. Both calls return; the parked call reports a
//                  timeout.

func init() {
	register(Family{Name: "conc-reneg", Prop: "C20", ID: 2007, Weight: 1, PlainBuild: true, RaceBuild: true, FaultNames: concFaults, ReachNames: concReach, Run: runConcReneg})
	register(Family{Name: "conc-deadline", Prop: "C20", ID: 2008, Weight: 1, PlainBuild: true, RaceBuild: true, FaultNames: concFaults, ReachNames: concReach, Run: runConcDeadline})
}

type renegOut struct {
	hsErr, srvErr  error
	got            []byte
	rdErr          error
	sawClientHello atomic.Bool
	warnings       atomic.Int64
}

func runConcReneg(c *simkit.Choice, r *simkit.Rec) {
	pki.Load()
	gm := c.Bool(1, 3, simkit.LScen)
	policy := []gmtls.RenegotiationSupport{gmtls.RenegotiateNever, gmtls.RenegotiateOnceAsClient, gmtls.RenegotiateFreelyAsClient}[c.Weighted([]int{2, 3, 3}, simkit.LScen)]
	ncall := c.Range(1, 4, simkit.LScen)
	nops := make([]int, ncall)
	kinds := make([][]int, ncall)
	for i := range nops {
		nops[i] = c.Range(4, 40, simkit.LOp)
		for k := 0; k < nops[i]; k++ {
			kinds[i] = append(kinds[i], c.Weighted([]int{4, 3, 1, 1}, simkit.LOp))
		}
	}
	nReq := 1 + c.Choose(2, simkit.LScen)
	srvEnd := c.Choose(3, simkit.LScen)
	// the HelloRequest leaves only after the callers have started (drawn number of
	// yields), so that it is processed while they are inside their calls
	reqDelay := c.Range(0, 300, simkit.LScen)
	suite := []uint16{0x002f, 0x009c, 0xc02f}[c.Choose(3, simkit.LScen)]
	if gm {
		suite = gmSuites[c.Choose(2, simkit.LScen)]
	}
	pol := drawConcPolicy(c, r, 3000)
	seedC := uint64(c.Choose(1<<31, simkit.LEntropy)) + 25
	seedS := uint64(c.Choose(1<<31, simkit.LEntropy)) + 27
	r.Config = fmt.Sprintf("reneg/gm%v/policy%d/end%d", gm, policy, srvEnd)
	r.Sig(uint64(suite)<<8 | uint64(ncall)<<4 | uint64(nReq) | 7<<24)
	s := simkit.NewSim(c, pol, 8000000)
	var readerDone, callersUp atomic.Bool
	var badCall atomic.Int64 // calls whose result no sequential run can produce
	var alone, conc renegOut

	// one session: the same client code, with or without the concurrent callers
	session := func(tag string, callers int, o *renegOut, done *simkit.Flag) {
		a, b := s.NewConnPair("cli"+tag, "ref"+tag, simkit.NetCfg{}, simkit.NetCfg{})
		ccfg := &gmtls.Config{Rand: simkit.NewStream(seedC), Time: simTime(s, 0), ServerName: "server.sim", CipherSuites: []uint16{suite}, Renegotiation: policy, SessionTicketsDisabled: true}
		scfg := &reftls.ServerCfg{Rand: simkit.NewStream(seedS), Suites: []uint16{suite}}
		if gm {
			ccfg.GMSupport = gmtls.NewGMSupport()
			ccfg.RootCAs = pki.Pool("caA")
			scfg.Sign = &reftls.Identity{Chain: [][]byte{pki.DER("srv-sign")}, Key: pki.D("srv-sign")}
			scfg.Enc = &reftls.Identity{Chain: [][]byte{pki.DER("srv-enc")}, Key: pki.D("srv-enc")}
		} else {
			ccfg.RootCAs = pki.Pool("rsaCA")
			ccfg.MinVersion, ccfg.MaxVersion = gmtls.VersionTLS12, gmtls.VersionTLS12
			scfg.TLS12 = true
			scfg.Sign = &reftls.Identity{Chain: [][]byte{pki.DER("tlsrsa")}, RSA: refRSA("tlsrsa")}
		}
		conn := gmtls.Client(a, ccfg)
		started := &simkit.Flag{Name: "callers-started" + tag}
		cdone, sdone := &simkit.Flag{Name: "c" + tag}, &simkit.Flag{Name: "s" + tag}
		s.Spawn("cli"+tag, 0, func() {
			defer cdone.Set()
			if o.hsErr = conn.Handshake(); o.hsErr != nil {
				a.Close()
				started.Set()
				return
			}
			rt := s.Spawn("cli-reader"+tag, 0, func() {
				buf := make([]byte, 64)
				for {
					n, err := conn.Read(buf)
					o.got = append(o.got, buf[:n]...)
					if err != nil {
						o.rdErr = err
						break
					}
				}
				if callers > 0 {
					readerDone.Store(true)
				}
			})
			var ts []*simkit.Task
			for i := 0; i < callers; i++ {
				i := i
				ts = append(ts, s.Spawn(fmt.Sprintf("cli-call%d", i), 0, func() {
					callersUp.Store(true)
					started.Set()
					for k := 0; k < nops[i] && !readerDone.Load(); k++ {
						switch kinds[i][k] {
						case 0:
							conn.Handshake()
						case 1:
							conn.Read(nil)
						case 2:
							st := conn.ConnectionState()
							if st.HandshakeComplete && st.CipherSuite != suite {
								badCall.Add(1)
							}
						case 3:
							conn.Write([]byte("w"))
						}
					}
				}))
			}
			if callers == 0 {
				started.Set()
			}
			s.Join(rt)
			for _, t := range ts {
				s.Join(t)
			}
			conn.Close()
		})
		s.Spawn("ref"+tag, 1, func() {
			defer sdone.Set()
			pc := reftls.NewConn(b)
			b.SetReadDeadlineNS(s.Now + 60e9)
			var res *reftls.Result
			res, o.srvErr = reftls.ServerHandshake(pc, scfg)
			if o.srvErr != nil || res == nil || !res.Complete {
				if o.srvErr == nil {
					o.srvErr = fmt.Errorf("reference server did not complete")
				}
				b.Close()
				return
			}
			pc.WriteRecord(reftls.RecApp, []byte("d0"))
			s.WaitFlag(started)
			if callers > 0 {
				for k := 0; k < reqDelay; k++ {
					simkit.Yield(-31)
				}
			}
			for i := 0; i < nReq; i++ {
				pc.WriteRecord(reftls.RecHandshake, reftls.Handshake(reftls.HsHelloRequest, nil))
			}
			// (a client that declines with a warning keeps the connection: more data follows)
			pc.WriteRecord(reftls.RecApp, []byte("d1"))
		loop:
			for {
				typ, body, err := pc.ReadRecord()
				if err != nil {
					break
				}
				switch {
				case typ == reftls.RecAlert && len(body) == 2 && body[0] == reftls.AlertWarning && body[1] == 100:
					if int(o.warnings.Add(1)) == nReq {
						pc.CloseNotify()
					}
				case typ == reftls.RecAlert:
					break loop
				case typ == reftls.RecHandshake:
					// the renegotiation ClientHello: refused
					o.sawClientHello.Store(true)
					switch srvEnd {
					case 0:
						pc.WriteRecord(reftls.RecAlert, []byte{reftls.AlertFatal, 40})
					case 2:
						pc.CloseNotify()
					}
					break loop
				}
			}
			b.Close()
		})
		s.Spawn("join"+tag, 2, func() {
			s.WaitFlag(cdone)
			s.WaitFlag(sdone)
			done.Set()
		})
	}
	d1, d2 := &simkit.Flag{Name: "alone-done"}, &simkit.Flag{Name: "conc-done"}
	session("A", 0, &alone, d1)
	s.Spawn("driver", 3, func() {
		s.WaitFlag(d1)
		session("B", ncall, &conc, d2)
	})
	s.Run()
	desc := func(o *renegOut) string {
		return fmt.Sprintf("read %q then %v; renegotiation ClientHello sent: %v; no_renegotiation warnings: %d", o.got, o.rdErr, o.sawClientHello.Load(), o.warnings.Load())
	}
	r.Detail = map[string]interface{}{"program": "conc-reneg", "gm": gm, "policy": int(policy), "callers": ncall, "hello_requests": nReq, "server_end": srvEnd, "policy_sched": fmt.Sprintf("%+v", pol),
		"alone": desc(&alone), "concurrent": desc(&conc), "hs_errs": fmt.Sprintf("%v %v %v %v", alone.hsErr, alone.srvErr, conc.hsErr, conc.srvErr)}
	r.Reach(idx(concReach, "conn-hello-request"))
	if conc.sawClientHello.Load() {
		r.Reach(idx(concReach, "conn-renegotiation-started"))
	}
	site := fmt.Sprintf("gmtls.Conn/renegotiation/gm%v/policy%d", gm, policy)
	if !concFinish(s, r, site) {
		return
	}
	if alone.hsErr != nil || alone.srvErr != nil || conc.hsErr != nil || conc.srvErr != nil {
		r.Violate("result-differs", site, fmt.Sprintf("honest initial handshake failed: %v %v %v %v", alone.hsErr, alone.srvErr, conc.hsErr, conc.srvErr))
		return
	}
	if !callersUp.Load() {
		r.HarnessErr = "conc-reneg: callers never ran"
		return
	}
	if n := badCall.Load(); n > 0 {
		r.Violate("result-differs", site, fmt.Sprintf("%d concurrent ConnectionState calls reported a complete handshake with another suite", n))
		return
	}
	// the reader's view with concurrent callers equals the lone reader's view
	if desc(&alone) != desc(&conc) {
		r.Violate("result-differs", site, fmt.Sprintf("lone reader: %s; reader with %d concurrent callers: %s", desc(&alone), ncall, desc(&conc)))
		return
	}
	// and the lone reader's view is the plain one: with renegotiation allowed the
	// client starts a handshake, which the server refuses (a declined HelloRequest
	// also ends the connection in this code base, as in the Go release it derives
	// from: the warning is sent and Read returns "no renegotiation")
	if !gm && policy != gmtls.RenegotiateNever && (string(alone.got) != "d0" || alone.rdErr == nil || !alone.sawClientHello.Load()) {
		r.Violate("result-differs", site, fmt.Sprintf("renegotiation allowed and refused by the server: got %s", desc(&alone)))
		return
	}
	r.Outcome = "ok"
}

func runConcDeadline(c *simkit.Choice, r *simkit.Rec) {
	pki.Load()
	suite := gmSuites[c.Choose(2, simkit.LScen)]
	// which call is parked, and which setter interrupts it
	parkWrite := c.Bool(2, 3, simkit.LScen)
	setter := c.Choose(3, simkit.LScen) // 0: the specific one (SetWriteDeadline / SetReadDeadline), 1: SetDeadline, 2: Close (the other way to break a parked call)
	past := c.Bool(1, 2, simkit.LScen)  // deadline already in the past, or a little ahead
	wlen := []int{4096, 20000, 600}[c.Choose(3, simkit.LScen)]
	window := c.Range(16, 400, simkit.LScen)
	nsetters := 1 + c.Choose(2, simkit.LScen)
	delay := c.Range(0, 200, simkit.LScen)
	pol := drawConcPolicy(c, r, 3000)
	entC := simkit.NewStream(uint64(c.Choose(1<<31, simkit.LEntropy)) + 29)
	entS := simkit.NewStream(uint64(c.Choose(1<<31, simkit.LEntropy)) + 31)
	r.Config = fmt.Sprintf("deadline/%04x/write%v/setter%d/past%v", suite, parkWrite, setter, past)
	r.Sig(uint64(suite)<<8 | uint64(boolByte(parkWrite))<<4 | uint64(setter)<<2 | uint64(nsetters) | 8<<24)
	s := simkit.NewSim(c, pol, 6000000)
	a, b := s.NewConnPair("cli", "srv", simkit.NetCfg{}, simkit.NetCfg{})
	ccfg := &gmtls.Config{GMSupport: gmtls.NewGMSupport(), Rand: entC, Time: simTime(s, 0), RootCAs: pki.Pool("caA"), ServerName: "server.sim", CipherSuites: []uint16{suite}, SessionTicketsDisabled: true}
	scfg := &gmtls.Config{GMSupport: gmtls.NewGMSupport(), Rand: entS, Time: simTime(s, 0), Certificates: gmServerCerts("srv-sign", "srv-enc"), CipherSuites: []uint16{suite}, SessionTicketsDisabled: true}
	cli, srv := gmtls.Client(a, ccfg), gmtls.Server(b, scfg)
	var hsErr [2]error
	var parkedErr error
	var parkedN int
	var parkedRet, setRet atomic.Int64
	var setErrs atomic.Int64
	parked := &simkit.Flag{Name: "call-parked"}
	release := &simkit.Flag{Name: "server-may-go"}
	established := &simkit.Flag{Name: "established"}

	s.Spawn("srv", 1, func() {
		defer release.Set()
		if hsErr[1] = srv.Handshake(); hsErr[1] != nil {
			b.Close()
			return
		}
		// the server neither reads nor writes until the client side is done
		s.WaitFlag(release)
		srv.Close()
	})
	s.Spawn("cli", 0, func() {
		defer release.Set()
		if hsErr[0] = cli.Handshake(); hsErr[0] != nil {
			a.Close()
			parked.Set()
			established.Set()
			return
		}
		established.Set()
		var sts []*simkit.Task
		for i := 0; i < nsetters; i++ {
			sts = append(sts, s.Spawn(fmt.Sprintf("cli-set%d", i), 0, func() {
				s.WaitFlag(parked)
				for k := 0; k < delay; k++ {
					simkit.Yield(-32)
				}
				t := simkit.TimeAt(s.Now)
				if !past {
					t = simkit.TimeAt(s.Now + 5e6)
				}
				var err error
				switch {
				case setter == 2:
					cli.Close() // (its result depends on what it found in flight)
				case setter == 1:
					err = cli.SetDeadline(t)
				case parkWrite:
					err = cli.SetWriteDeadline(t)
				default:
					err = cli.SetReadDeadline(t)
				}
				if err != nil {
					setErrs.Add(1)
				}
				setRet.Add(1)
			}))
		}
		if parkWrite {
			// from now on the transport takes only `window` more bytes
			a.WrPipe().LimitWindow(window)
			a.WrPipe().OnWrite = func([]byte) { parked.Set() } // the Write has reached the transport
			parkedN, parkedErr = cli.Write(make([]byte, wlen))
		} else {
			parked.Set() // (the setters add their own delay; the Read below parks at once: the server is silent)
			parkedN, parkedErr = cli.Read(make([]byte, 64))
		}
		parkedRet.Store(1)
		for _, t := range sts {
			s.Join(t)
		}
		a.Close()
	})
	s.Run()
	r.Detail = map[string]interface{}{"program": "conc-deadline", "park_write": parkWrite, "setter": setter, "past": past, "setters": nsetters, "policy_sched": fmt.Sprintf("%+v", pol),
		"hs_err": fmt.Sprintf("%v / %v", hsErr[0], hsErr[1]), "parked_n": parkedN, "parked_err": errStr(parkedErr), "setters_returned": setRet.Load()}
	r.Reach(idx(concReach, "conn-deadline-interrupt"))
	site := "gmtls.Conn/deadline-from-another-task"
	if !concFinish(s, r, site) {
		return
	}
	if hsErr[0] != nil || hsErr[1] != nil {
		r.Violate("result-differs", site, fmt.Sprintf("honest handshake failed: %v / %v", hsErr[0], hsErr[1]))
		return
	}
	if int(setRet.Load()) != nsetters || parkedRet.Load() != 1 {
		r.Violate("deadlock", site, fmt.Sprintf("%d of %d deadline setters and %d of 1 parked calls returned", setRet.Load(), nsetters, parkedRet.Load()))
		return
	}
	if setErrs.Load() != 0 {
		r.Violate("result-differs", site, "a deadline setter returned an error on a healthy connection")
		return
	}
	if setter == 2 {
		if parkedErr == nil {
			r.Violate("result-differs", site, fmt.Sprintf("the parked call returned (%d, nil) although the connection was closed under it", parkedN))
			return
		}
		r.Outcome = "ok"
		return
	}
	ne, ok := parkedErr.(net.Error)
	if parkedErr == nil || !ok || !ne.Timeout() {
		r.Violate("result-differs", site, fmt.Sprintf("the parked call returned (%d, %v); alone with the same deadline it returns a timeout error", parkedN, parkedErr))
		return
	}
	r.Outcome = "ok"
}

// conc-vhost: one plain-TLS server Config holding several certificates serves
// simultaneous first handshakes that ask for different names. Each client must
// be shown the certificate that a lone handshake asking for the same name is
// shown by a fresh, identically built Config.
func init() {
	register(Family{Name: "conc-vhost", Prop: "C20", ID: 2009, Weight: 1, PlainBuild: true, RaceBuild: true, FaultNames: concFaults, ReachNames: concReach, Run: runConcVHost})
}

func runConcVHost(c *simkit.Choice, r *simkit.Rec) {
	pki.Load()
	nconn := c.Range(2, 6, simkit.LScen)
	built := c.Bool(1, 2, simkit.LScen) // BuildNameToCertificate called by the application beforehand
	order := c.Choose(3, simkit.LScen)  // which certificate comes first in the list
	names := []string{"server.sim", "server2.sim", "host.wild.sim", "unknown.sim", "SERVER2.sim."}
	ask := make([]string, nconn)
	for i := range ask {
		ask[i] = names[c.Weighted([]int{2, 4, 3, 1, 1}, simkit.LOp)]
	}
	pol := drawConcPolicy(c, r, 3000*nconn)
	ent := uint64(c.Choose(1<<31, simkit.LEntropy))
	r.Config = fmt.Sprintf("vhost/built%v/order%d", built, order)
	r.Sig(uint64(nconn) | uint64(boolByte(built))<<4 | uint64(order)<<5 | 9<<24)
	s := simkit.NewSim(c, pol, 8000000)
	mkServer := func(seed uint64) *gmtls.Config {
		certs := []gmtls.Certificate{pki.GMStd("tlsrsa"), pki.GMStd("tlsrsa2"), pki.GMStd("tlswild")}
		for k := 0; k < order; k++ {
			certs = append(certs[1:], certs[0])
		}
		cfg := &gmtls.Config{Rand: simkit.NewStream(seed), Time: simTime(s, 0), Certificates: certs, CipherSuites: []uint16{0xc02f, 0x009c}, SessionTicketsDisabled: true}
		if built {
			cfg.BuildNameToCertificate()
		}
		return cfg
	}
	type res struct {
		serial string
		cerr   string
		serr   string
	}
	one := func(tag string, scfg *gmtls.Config, name string, seed uint64, o *res, done *simkit.Flag) {
		a, b := s.NewConnPair("c"+tag, "s"+tag, simkit.NetCfg{}, simkit.NetCfg{})
		cd, sd := &simkit.Flag{Name: "c" + tag}, &simkit.Flag{Name: "s" + tag}
		s.Spawn("cli"+tag, 0, func() {
			defer cd.Set()
			cc := &gmtls.Config{Rand: simkit.NewStream(seed), Time: simTime(s, 0), ServerName: name, InsecureSkipVerify: true, CipherSuites: []uint16{0xc02f, 0x009c}}
			conn := gmtls.Client(a, cc)
			err := conn.Handshake()
			o.cerr = errStr(err)
			if err == nil {
				if pcs := conn.ConnectionState().PeerCertificates; len(pcs) > 0 {
					o.serial = fmt.Sprintf("%s#%x", pcs[0].Subject.CommonName, pcs[0].SerialNumber)
				}
			}
			conn.Close()
		})
		s.Spawn("srv"+tag, 1, func() {
			defer sd.Set()
			conn := gmtls.Server(b, scfg)
			o.serr = errStr(conn.Handshake())
			buf := make([]byte, 16)
			conn.Read(buf)
			conn.Close()
		})
		s.Spawn("join"+tag, 2, func() {
			s.WaitFlag(cd)
			s.WaitFlag(sd)
			done.Set()
		})
	}
	want := make([]res, nconn)
	got := make([]res, nconn)
	shared := mkServer(ent + 5)
	s.Spawn("driver", 3, func() {
		// sequential references: a lone handshake per client against a fresh Config
		for i := 0; i < nconn; i++ {
			d := &simkit.Flag{Name: fmt.Sprintf("ref%d", i)}
			one(fmt.Sprintf("r%d", i), mkServer(ent+100+uint64(i)), ask[i], ent+200+uint64(i), &want[i], d)
			s.WaitFlag(d)
		}
		// the concurrent phase: all clients at once against one Config that has served nobody yet
		ds := make([]*simkit.Flag, nconn)
		for i := 0; i < nconn; i++ {
			ds[i] = &simkit.Flag{Name: fmt.Sprintf("conc%d", i)}
			one(fmt.Sprintf("x%d", i), shared, ask[i], ent+300+uint64(i), &got[i], ds[i])
		}
		for _, d := range ds {
			s.WaitFlag(d)
		}
	})
	s.Run()
	r.Detail = map[string]interface{}{"program": "conc-vhost", "connections": nconn, "names": ask, "map_built_beforehand": built, "certificate_order": order, "policy": fmt.Sprintf("%+v", pol)}
	r.Reach(idx(concReach, "config-vhost-handshakes"))
	site := "gmtls.Config/certificate-selection"
	if !concFinish(s, r, site) {
		return
	}
	for i := range want {
		if want[i] != got[i] {
			r.Violate("result-differs", site, fmt.Sprintf("client %d asking for %q among %d simultaneous first handshakes: served %q (client err %q, server err %q); a lone handshake on a fresh Config: %q (%q, %q)", i, ask[i], nconn, got[i].serial, got[i].cerr, got[i].serr, want[i].serial, want[i].cerr, want[i].serr))
			return
		}
	}
	r.Outcome = "ok"
}

// conc-dial: one client Config without ServerName is handed to several
// simultaneous gmtls.Dial calls for different hosts (the rewriter routes the
// dialer to the simulated network). Each call must end as the same call does
// alone: connected to its host, verified under that host's name; and the
// caller's Config must be left as it was.
func init() {
	register(Family{Name: "conc-dial", Prop: "C20", ID: 2010, Weight: 1, PlainBuild: true, RaceBuild: true, FaultNames: concFaults, ReachNames: concReach, Run: runConcDial})
}

func runConcDial(c *simkit.Choice, r *simkit.Rec) {
	pki.Load()
	gm := c.Bool(1, 2, simkit.LScen)
	ndial := c.Range(2, 4, simkit.LScen)
	hosts := []string{"server.sim", "server2.sim"}
	ask := make([]string, ndial)
	for i := range ask {
		ask[i] = hosts[c.Choose(2, simkit.LOp)]
	}
	ask[0], ask[1] = hosts[0], hosts[1] // at least two different hosts
	if c.Bool(1, 2, simkit.LOp) {
		ask[0], ask[1] = ask[1], ask[0]
	}
	pol := drawConcPolicy(c, r, 3000*ndial)
	ent := uint64(c.Choose(1<<31, simkit.LEntropy))
	r.Config = fmt.Sprintf("dial/gm%v", gm)
	r.Sig(uint64(ndial) | uint64(boolByte(gm))<<4 | 10<<24)
	s := simkit.NewSim(c, pol, 8000000)
	// the servers behind the simulated dialer: one identity per host name
	// identities are loaded before the simulation starts (the fixture cache parses
	// keys on first use: inside a task that would put parser events into the trace of
	// whichever run happens to be first in its process)
	gmFirst, gmSecond := gmServerCerts("srv-sign", "srv-enc"), gmServerCerts("srv2-sign", "srv2-enc")
	stdFirst, stdSecond := pki.GMStd("tlsrsa"), pki.GMStd("tlsrsa2")
	// (the hook runs inside whichever task dials: its own state is atomic)
	var nsrv atomic.Int64
	serve := func(host string, raw *simkit.Conn) {
		k := nsrv.Add(1)
		cfg := &gmtls.Config{Rand: simkit.NewStream(ent + 500 + uint64(k)), Time: simTime(s, 0), SessionTicketsDisabled: true, CipherSuites: []uint16{0xc02f, 0x009c}}
		if gm {
			cfg.CipherSuites = gmSuites
		}
		second := host == "server2.sim"
		if gm {
			cfg.GMSupport = gmtls.NewGMSupport()
			cfg.Certificates = gmFirst
			if second {
				cfg.Certificates = gmSecond
			}
		} else {
			cfg.Certificates = []gmtls.Certificate{stdFirst}
			if second {
				cfg.Certificates = []gmtls.Certificate{stdSecond}
			}
		}
		s.Spawn(fmt.Sprintf("srv%d", k), 1, func() {
			conn := gmtls.Server(raw, cfg)
			if conn.Handshake() == nil {
				buf := make([]byte, 16)
				conn.Read(buf)
			}
			conn.Close()
		})
	}
	simkit.DialHook = func(network, addr string) (net.Conn, error) {
		host := addr
		if i := strings.LastIndex(addr, ":"); i >= 0 {
			host = addr[:i]
		}
		a, b := s.NewConnPair("dial-"+host, "srv-"+host, simkit.NetCfg{}, simkit.NetCfg{})
		serve(host, b)
		return a, nil
	}
	defer func() { simkit.DialHook = nil }()
	mkCfg := func(seed uint64) *gmtls.Config {
		// (explicit suite lists: the library's default list is built once per process,
		// which would make the first run of a process differ from the later ones)
		cc := &gmtls.Config{Rand: simkit.NewStream(seed), Time: simTime(s, 0)}
		if gm {
			cc.GMSupport = gmtls.NewGMSupport()
			cc.RootCAs = pki.Pool("caA")
			cc.CipherSuites = gmSuites
		} else {
			cc.RootCAs = pki.Pool("rsaCA")
			cc.CipherSuites = []uint16{0xc02f, 0x009c}
		}
		return cc
	}
	type res struct {
		err  string
		peer string
	}
	dial := func(cfg *gmtls.Config, host string, o *res) {
		conn, err := gmtls.Dial("tcp", host+":443", cfg)
		o.err = errStr(err)
		if err == nil {
			if pcs := conn.ConnectionState().PeerCertificates; len(pcs) > 0 {
				o.peer = fmt.Sprintf("%s#%x", pcs[0].Subject.CommonName, pcs[0].SerialNumber)
			}
			conn.Close()
		}
	}
	want := make([]res, ndial)
	got := make([]res, ndial)
	shared := mkCfg(ent + 7)
	nameAfter := ""
	s.Spawn("driver", 0, func() {
		for i := 0; i < ndial; i++ {
			dial(mkCfg(ent+100+uint64(i)), ask[i], &want[i]) // alone, on a Config of its own
		}
		var ts []*simkit.Task
		for i := 0; i < ndial; i++ {
			i := i
			ts = append(ts, s.Spawn(fmt.Sprintf("dial%d", i), 0, func() { dial(shared, ask[i], &got[i]) }))
		}
		for _, t := range ts {
			s.Join(t)
		}
		nameAfter = shared.ServerName
	})
	s.Run()
	r.Detail = map[string]interface{}{"program": "conc-dial", "gm": gm, "dials": ndial, "hosts": ask, "policy": fmt.Sprintf("%+v", pol)}
	r.Reach(idx(concReach, "config-shared-by-dials"))
	site := "gmtls.Dial/shared-config"
	if !concFinish(s, r, site) {
		return
	}
	for i := range want {
		if want[i].err != "" {
			r.Violate("result-differs", site, fmt.Sprintf("a lone Dial to %s failed: %s", ask[i], want[i].err))
			return
		}
		if want[i] != got[i] {
			r.Violate("result-differs", site, fmt.Sprintf("Dial %d to %s among %d simultaneous dials sharing one Config: err %q, peer %q; alone: err %q, peer %q", i, ask[i], ndial, got[i].err, got[i].peer, want[i].err, want[i].peer))
			return
		}
	}
	if nameAfter != "" {
		r.Violate("result-differs", site, fmt.Sprintf("the caller's Config was left with ServerName %q", nameAfter))
		return
	}
	r.Outcome = "ok"
}
