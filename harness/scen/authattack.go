package scen

import (
	"bytes"
	"crypto/tls"
	"errors"
	"fmt"
	"io"
	"math/big"
	"strings"
	"time"

	"github.com/tjfoc/gmsm/gmtls"
	"github.com/tjfoc/gmsm/verifsim/pki"
	"github.com/tjfoc/gmsm/verifsim/ref/refsm2"
	"github.com/tjfoc/gmsm/verifsim/ref/reftls"
	"github.com/tjfoc/gmsm/verifsim/simkit"
	"github.com/tjfoc/gmsm/x509"
)

// C08: authentication. Family 1: impostor endpoints (the scripted reference
// peer terminates the connection itself with credentials that lack something
// the property names). Family 2: a rewriting man in the middle between two
// honest gmtls endpoints.

var authItems = []string{
	"S0-honest-server", "S1-untrusted-ca", "S2-expired", "S2-not-yet-valid", "S2-client-clock-before", "S2-client-clock-after", "S2-one-expired", "S3-wrong-name", "S3-one-wrong-name", "S3-ip-literal-server-name",
	"S4-rsa-sign-cert", "S4-p256-sign-cert", "S4-rsa-enc-cert", "S5-skx-other-key", "S6-skx-replayed-randoms", "S7-skx-other-enc-cert", "S8-skx-omitted", "S9-skx-malformed",
	"S10-no-enc-key", "S11-certs-swapped", "S12-one-cert", "S13-eku-clientauth-only", "S14-keyusage-sign-cert", "S14-keyusage-enc-cert", "V1-client-callback-rejects", "S15-untrusted-ca-ships-its-root", "S15-extra-unrelated-selfsigned",
	"C0-honest-client", "C1-no-cert", "C2-untrusted-ca", "C3-cv-other-key", "C4-cv-other-transcript", "C5-cv-omitted", "C6-selfsigned-allowed", "C7-selfsigned-cv-other-key", "C8-ifgiven-no-cert", "C9-expired", "C9-server-clock-after", "C10-eku-serverauth-only", "V2-server-callback-rejects", "C11-foreign-cert-first-own-cert-second", "C12-certificate-message-omitted",
	"S16-dual-usage-sign-cert-enc-key-not-held", "S17-lookalike-of-trusted-root", "S18-leaves-issued-by-v1-end-entity", "C13-lookalike-of-trusted-root", "C14-leaf-issued-by-v1-end-entity", "TS7-leaf-issued-by-v1-end-entity", "TC14-leaf-issued-by-v1-end-entity",
	"S21-session-of-another-name-resumed", "S20-only-unknown-extended-key-usage", "C15-only-unknown-extended-key-usage",
	"S22-name-constrained-ca-permits-name(allowed)", "S22-name-constrained-ca-permits-parent-domain(allowed)", "S22-name-constrained-ca-lookalike-suffix", "S22-name-constrained-ca-other-domain", "S22-name-constrained-ca-subdomain-only",
	"S23-skx-signed-with-encryption-key", "S24-pinned-selfsigned-pair(allowed)", "S24-pinned-pair-other-name", "S24-pinned-pair-not-yet-valid", "S24-pinned-pair-expired",
	"S25-common-name-matches-san-does-not", "S26-pair-under-expired-ca", "S27-pair-expired-since-the-cached-session", "S27-other-encryption-certificate-since-the-cached-session", "C16-leaf-under-expired-intermediate", "TS25-common-name-matches-san-does-not", "C17-leaf-below-ca-issued-under-pathlen-0", "C17-leaf-directly-below-pathlen-0-ca(allowed)", "C18-verifying-policy-no-client-cas-genuine-cert", "C18-verifying-policy-no-client-cas-selfsigned-cert",
	"S19-wildcard-one-label(allowed)", "S19-wildcard-deeper-name", "S19-wildcard-parent-name", "TS19-wildcard-one-label(allowed)", "TS19-wildcard-deeper-name", "TS19-wildcard-parent-name",
	"S28-ip-san-exact-address(allowed)", "S28-ip-san-other-address", "TS28-ip-san-exact-address(allowed)", "TS28-ip-san-other-address",
	"TS0-honest-server", "TS1-untrusted-root", "TS3-wrong-name", "TS10-rsa-key-not-held", "TS5-ecdhe-params-signed-by-other-key", "TS6-ecdhe-params-signature-over-other-randoms", "TS9-ecdhe-params-signature-garbage", "TS4-ecdsa-cert-for-rsa-suite",
	"TC0-honest-client", "TC1-no-cert", "TC2-untrusted-ca", "TC3-cv-other-key", "TC4-cv-other-transcript", "TC5-cv-omitted", "TC5-cv-omitted-enc-only-cert", "TC3-cv-other-key-enc-only-cert", "TC12-certificate-message-omitted", "TC8-ifgiven-no-cert",
	"T0-honest", "T1-wrong-name", "T2-untrusted-root", "T3-client-cert-untrusted", "T4-no-client-cert", "T5-client-cert-if-given-untrusted", "T6-ip-literal-name",
	"M-flip-byte", "M-replace-from-session1", "M-drop", "M-duplicate", "M-swap", "M-suite-strip", "M-serverhello-suite", "M-cert-substitute", "M7-refragment(legal)", "M7-warning-alert", "M-extend-body", "M-shorten-body", "M-hello-version", "M-hello-extension-strip", "M-hello-session-id", "clock-skew",
}
var authReach = []string{"victim-rejected", "allowed-completed", "honest-completed", "gm-cbc", "gm-gcm", "policy-request", "policy-require-any", "policy-verify-if-given", "policy-require-and-verify", "mitm-both-failed", "mitm-one-failed", "mitm-noop-completed", "session1-harvested", "rewrite-clienthello", "rewrite-serverhello", "rewrite-certificate", "rewrite-skx", "rewrite-ckx", "rewrite-other", "views-compared", "mitm-tls-path", "rewrite-new-session-ticket", "mitm-abbreviated-handshake"}

func init() {
	register(Family{Name: "tls-auth-impostor", Prop: "C08", ID: 801, Weight: 3, FaultNames: authItems, ReachNames: authReach, Run: runAuthImpostor})
	register(Family{Name: "tls-auth-mitm", Prop: "C08", ID: 802, Weight: 2, FaultNames: authItems, ReachNames: authReach, Run: runAuthMITM})
	register(Family{Name: "tls-auth-stdpeer", Prop: "C08", ID: 803, Weight: 1, FaultNames: authItems, ReachNames: authReach, Run: runAuthStdPeer})
}

func ident(name string, withKey bool) *reftls.Identity {
	id := &reftls.Identity{Chain: [][]byte{pki.DER(name)}}
	if withKey {
		id.Key = pki.D(name)
	}
	return id
}

type impRun struct {
	Item            string
	Expect          int // expFail / expComplete for the victim
	Suite           uint16
	VictimSrv       bool // victim is the gmtls server (client impostor)
	Policy          gmtls.ClientAuthType
	Skew            int64 // victim clock skew (ns)
	scfg            *reftls.ServerCfg
	ccfg            *reftls.ClientCfg
	SrvCert         [2]string // victim client: which fixture the honest comparison uses (for messages)
	NeedS1          bool      // needs an honest first session to harvest material
	WantPeer        string    // for allowed client certs: expected PeerCertificates[0]
	VictimName      string    // ServerName of the victim client (default server.sim)
	CallbackRejects bool      // the victim's VerifyPeerCertificate callback returns an error
	TLS             bool      // plain TLS 1.2 victim and impostor (RSA / ECDHE_RSA suites)
	VictimRoots     string    // TLS victim client: trusted root (default rsaCA)
	NoClientCAs     bool      // victim server: ClientCAs left nil
	SecondEnc       string    // CacheFirst: encryption identity the server switches to for session 2
	CacheFirst      bool      // session 1: the victim client completes an honest handshake with the same peer and caches the session; session 2 is a full handshake again
	CallbackAccepts bool      // the victim has a VerifyPeerCertificate callback that accepts everything (logging, pinning elsewhere): verdicts must not change
	ExtraRoot       string    // GMSSL victim client: a further trust anchor besides caA (the GMSSL client does not take intermediates from the Certificate message)
	OtherNameFirst  bool      // session 1: the victim client asks the impostor for server2.sim (legitimately) and caches the session
}

const day = int64(24 * 3600 * 1e9)

func drawImpostor(c *simkit.Choice, ent *simkit.Stream) impRun {
	var ir impRun
	ir.Suite = gmSuites[c.Choose(2, simkit.LScen)]
	ir.VictimSrv = c.Bool(2, 5, simkit.LScen)
	ir.Expect = expFail
	if c.Bool(1, 4, simkit.LScen) {
		ir.TLS = true
		drawImpostorTLS(c, ent, &ir)
		return ir
	}
	if !ir.VictimSrv {
		sc := &reftls.ServerCfg{Rand: ent, Suites: []uint16{ir.Suite}, Sign: ident("srv-sign", true), Enc: ident("srv-enc", true)}
		ir.scfg = sc
		items := []string{"S0-honest-server", "S1-untrusted-ca", "S2-expired", "S2-not-yet-valid", "S2-client-clock-before", "S2-client-clock-after", "S2-one-expired", "S3-wrong-name", "S3-one-wrong-name", "S3-ip-literal-server-name",
			"S4-rsa-sign-cert", "S4-p256-sign-cert", "S4-rsa-enc-cert", "S5-skx-other-key", "S6-skx-replayed-randoms", "S7-skx-other-enc-cert", "S8-skx-omitted", "S9-skx-malformed", "S10-no-enc-key", "S11-certs-swapped", "S12-one-cert", "S13-eku-clientauth-only", "S14-keyusage-sign-cert", "S14-keyusage-enc-cert", "V1-client-callback-rejects", "S15-untrusted-ca-ships-its-root", "S15-extra-unrelated-selfsigned", "S16-dual-usage-sign-cert-enc-key-not-held", "S17-lookalike-of-trusted-root", "S18-leaves-issued-by-v1-end-entity", "S19-wildcard-one-label(allowed)", "S19-wildcard-deeper-name", "S19-wildcard-parent-name", "S21-session-of-another-name-resumed", "S20-only-unknown-extended-key-usage", "S28-ip-san-exact-address(allowed)", "S28-ip-san-other-address",
			"S22-name-constrained-ca-permits-name(allowed)", "S22-name-constrained-ca-permits-parent-domain(allowed)", "S22-name-constrained-ca-lookalike-suffix", "S22-name-constrained-ca-other-domain", "S22-name-constrained-ca-subdomain-only",
			"S23-skx-signed-with-encryption-key", "S24-pinned-selfsigned-pair(allowed)", "S24-pinned-pair-other-name", "S24-pinned-pair-not-yet-valid", "S24-pinned-pair-expired",
			"S25-common-name-matches-san-does-not", "S26-pair-under-expired-ca", "S27-pair-expired-since-the-cached-session", "S27-other-encryption-certificate-since-the-cached-session"}
		ir.Item = items[c.Choose(len(items), simkit.LFault)]
		switch ir.Item {
		case "S0-honest-server":
			ir.Expect = expComplete
		case "S1-untrusted-ca":
			sc.Sign, sc.Enc = ident("srvB-sign", true), ident("srvB-enc", true)
		case "S2-expired":
			sc.Sign, sc.Enc = ident("srvexp-sign", true), ident("srvexp-enc", true)
		case "S2-not-yet-valid":
			sc.Sign, sc.Enc = ident("srvfut-sign", true), ident("srvfut-enc", true)
		case "S2-client-clock-before":
			sc.Sign, sc.Enc = ident("srvnarrow-sign", true), ident("srvnarrow-enc", true)
			ir.Skew = -2*day + int64(c.Choose(3600, simkit.LFault))*1e9
		case "S2-client-clock-after":
			sc.Sign, sc.Enc = ident("srvnarrow-sign", true), ident("srvnarrow-enc", true)
			ir.Skew = 2*day - int64(c.Choose(3600, simkit.LFault))*1e9
		case "S2-one-expired":
			if c.Bool(1, 2, simkit.LFault) {
				sc.Sign = ident("srvexp-sign", true)
			} else {
				sc.Enc = ident("srvexp-enc", true)
			}
		case "S3-wrong-name":
			sc.Sign, sc.Enc = ident("srvother-sign", true), ident("srvother-enc", true)
		case "S3-one-wrong-name":
			if c.Bool(1, 2, simkit.LFault) {
				sc.Sign = ident("srvother-sign", true)
			} else {
				sc.Enc = ident("srvother-enc", true)
			}
		case "S3-ip-literal-server-name":
			// the client asked for an IP address; the (trusted, valid) certificates are for a DNS name only
			ir.VictimName = []string{"192.0.2.7", "127.0.0.1", "2001:db8::1"}[c.Choose(3, simkit.LFault)]
		case "S4-rsa-sign-cert":
			sc.CertList = [][]byte{pki.DER("srvrsa"), pki.DER("srv-enc")}
		case "S4-p256-sign-cert":
			sc.CertList = [][]byte{pki.DER("srvp256"), pki.DER("srv-enc")}
		case "S4-rsa-enc-cert":
			sc.CertList = [][]byte{pki.DER("srv-sign"), pki.DER("srvrsa")}
		case "S5-skx-other-key":
			sc.SKXKey = pki.D("spare")
		case "S6-skx-replayed-randoms":
			ir.NeedS1 = true
		case "S7-skx-other-enc-cert":
			sc.SKXOverCert = pki.DER("srv2-enc")
		case "S8-skx-omitted":
			sc.OmitSKX = true
			sc.Sign = ident("srv-sign", false) // the impostor does not hold the signing key
		case "S9-skx-malformed":
			n := refsm2.N()
			one := big.NewInt(1)
			switch c.Choose(5, simkit.LFault) {
			case 0:
				sc.SKXRaw = refsm2.MarshalSignatureASN1(big.NewInt(0), one)
			case 1:
				sc.SKXRaw = refsm2.MarshalSignatureASN1(one, n)
			case 2:
				sc.SKXRaw = refsm2.MarshalSignatureASN1(n, one)
			case 3:
				sc.SKXRaw = []byte{0x30, 0x03, 0x02, 0x01, 0x01}
			case 4:
				sc.SKXRaw = drawData(c, 70)
			}
		case "S10-no-enc-key":
			sc.Enc = ident("srv-enc", false)
			sc.GuessPre = append([]byte{1, 1}, drawData(c, 46)...)
			sc.IgnoreClientFinished = true
		case "S11-certs-swapped":
			sc.CertList = [][]byte{pki.DER("srv-enc"), pki.DER("srv-sign")}
		case "S12-one-cert":
			sc.CertList = [][]byte{pki.DER("srv-sign")}
		case "S13-eku-clientauth-only":
			sc.Sign, sc.Enc = ident("srvekucli-sign", true), ident("srvekucli-enc", true)
		case "S14-keyusage-sign-cert":
			sc.Sign = ident("srvkubad-sign", true)
		case "S14-keyusage-enc-cert":
			sc.Enc = ident("srvkubad-enc", true)
		case "S15-untrusted-ca-ships-its-root":
			// the impostor's own CA travels in the Certificate message behind the two leaves
			sc.Sign, sc.Enc = ident("srvB-sign", true), ident("srvB-enc", true)
			sc.CertList = [][]byte{pki.DER("srvB-sign"), pki.DER("srvB-enc"), pki.DER("caB")}
		case "S15-extra-unrelated-selfsigned":
			// genuine certificates plus an unrelated self-signed certificate: harmless, must complete
			sc.CertList = [][]byte{pki.DER("srv-sign"), pki.DER("srv-enc"), pki.DER("caB")}
			ir.Expect = expAny
		case "V1-client-callback-rejects":
			ir.CallbackRejects = true // honest server; the victim's VerifyPeerCertificate says no
		case "S19-wildcard-one-label(allowed)", "S19-wildcard-deeper-name", "S19-wildcard-parent-name":
			// genuine wildcard certificates for *.wild.sim: good for exactly one more label
			sc.Sign, sc.Enc = ident("srvwild-sign", true), ident("srvwild-enc", true)
			switch ir.Item {
			case "S19-wildcard-one-label(allowed)":
				ir.VictimName = []string{"host.wild.sim", "HOST.Wild.Sim", "x.wild.sim"}[c.Choose(3, simkit.LFault)]
				ir.Expect = expComplete
			case "S19-wildcard-deeper-name":
				ir.VictimName = []string{"login.internal.wild.sim", "a.b.c.wild.sim", "a.b.wild.sim"}[c.Choose(3, simkit.LFault)]
			default:
				ir.VictimName = []string{"wild.sim", "xwild.sim", "host.wild.sim.evil"}[c.Choose(3, simkit.LFault)]
			}
		case "S28-ip-san-exact-address(allowed)", "S28-ip-san-other-address":
			// genuine certificates for the IP address 10.0.0.1 only: good for that address in
			// any spelling, not for a neighbour and not for an IPv6 address that ends in the
			// same four bytes
			sc.Sign, sc.Enc = ident("srvip-sign", true), ident("srvip-enc", true)
			if ir.Item == "S28-ip-san-exact-address(allowed)" {
				ir.VictimName = "10.0.0.1"
				ir.Expect = expComplete
			} else {
				ir.VictimName = []string{"2001:db8::a00:1", "10.0.0.2", "fe80::a00:1"}[c.Choose(3, simkit.LFault)]
			}
		case "S21-session-of-another-name-resumed":
			// The impostor is the legitimate holder of the certificates for server2.sim. The
			// victim first talks to it under that name and is given a ticket; then it asks
			// the same address for server.sim and the impostor answers by resuming.
			sc.Sign, sc.Enc = ident("srv2-sign", true), ident("srv2-enc", true)
			ir.NeedS1 = true
			ir.OtherNameFirst = true
		case "S22-name-constrained-ca-permits-name(allowed)", "S22-name-constrained-ca-permits-parent-domain(allowed)", "S22-name-constrained-ca-lookalike-suffix", "S22-name-constrained-ca-other-domain", "S22-name-constrained-ca-subdomain-only":
			// an intermediate CA under the trusted root whose name constraints permit one DNS
			// subtree issues a pair for server.sim: fine when server.sim lies in the subtree
			// ("server.sim", ".sim"), refused when the subtree is another domain, only a
			// sub-domain ("www.server.sim"), or merely a string suffix ("rver.sim")
			ca := map[string]string{"S22-name-constrained-ca-permits-name(allowed)": "ncok", "S22-name-constrained-ca-permits-parent-domain(allowed)": "ncdot", "S22-name-constrained-ca-lookalike-suffix": "ncsfx",
				"S22-name-constrained-ca-other-domain": "ncother", "S22-name-constrained-ca-subdomain-only": "ncsub"}[ir.Item]
			sc.Sign = &reftls.Identity{Chain: [][]byte{pki.DER("srv" + ca + "-sign")}, Key: pki.D("srv" + ca + "-sign")}
			sc.Enc = &reftls.Identity{Chain: [][]byte{pki.DER("srv" + ca + "-enc")}, Key: pki.D("srv" + ca + "-enc")}
			// (the constrained CA is one of the client's trust anchors: the GMSSL client
			// verifies the pair against its pool only)
			ir.ExtraRoot = ca
			if ca == "ncok" || ca == "ncdot" {
				ir.Expect = expComplete
			}
		case "S27-pair-expired-since-the-cached-session":
			// the victim knows this server: an earlier handshake (at a time when the pair
			// was valid) left a session in its cache. Now the pair has expired; the server
			// does not resume, and the full handshake shows the same certificates.
			sc.Sign, sc.Enc = ident("srvnarrow-sign", true), ident("srvnarrow-enc", true)
			ir.NeedS1, ir.CacheFirst = true, true
			ir.Skew = 2*day + int64(c.Choose(3600, simkit.LFault))*1e9
		case "S27-other-encryption-certificate-since-the-cached-session":
			// same, but this time the known signing certificate comes with an encryption
			// certificate from a CA the victim does not trust
			ir.NeedS1, ir.CacheFirst = true, true
			ir.SecondEnc = "srvB-enc"
		case "S25-common-name-matches-san-does-not":
			// CA-issued pair for mallory.sim (subjectAltName) whose common name says server.sim:
			// where a subjectAltName is present the common name does not count
			sc.Sign, sc.Enc = ident("srvcnsan-sign", true), ident("srvcnsan-enc", true)
		case "S26-pair-under-expired-ca":
			// pair issued by a CA certificate that expired five years ago, which the client
			// still has in its pool; the pair itself claims to be valid
			sc.Sign, sc.Enc = ident("srvexpca-sign", true), ident("srvexpca-enc", true)
			ir.ExtraRoot = "caAexp"
		case "S23-skx-signed-with-encryption-key":
			// the impostor presents both genuine certificates and holds the encryption key
			// only (the key a key-management centre escrows); it signs the ServerKeyExchange
			// with that key. Possession of the signing key is what authenticates the server.
			sc.Sign = ident("srv-sign", false)
			sc.SKXKey = pki.D("srv-enc")
		case "S24-pinned-selfsigned-pair(allowed)", "S24-pinned-pair-other-name", "S24-pinned-pair-not-yet-valid", "S24-pinned-pair-expired":
			// the victim pins a self-signed pair (both certificates are in its root pool):
			// good for the name and the period they state, and for nothing else
			sc.Sign, sc.Enc = ident("srvself-sign", true), ident("srvself-enc", true)
			ir.ExtraRoot = "srvself-sign,srvself-enc"
			switch ir.Item {
			case "S24-pinned-selfsigned-pair(allowed)":
				ir.Expect = expComplete
			case "S24-pinned-pair-other-name":
				ir.VictimName = []string{"other.sim", "server2.sim", "xserver.sim"}[c.Choose(3, simkit.LFault)]
			case "S24-pinned-pair-not-yet-valid":
				ir.Skew = -11 * 365 * day
			case "S24-pinned-pair-expired":
				ir.Skew = 91 * 365 * day
			}
		case "S20-only-unknown-extended-key-usage":
			// certificates whose extended key usage lists only a purpose nobody knows (a
			// private "document signing" OID): not good for server authentication
			sc.Sign, sc.Enc = ident("srvekuunk-sign", true), ident("srvekuunk-enc", true)
		case "S17-lookalike-of-trusted-root":
			// self-issued certificates that copy the trusted root's subject name and
			// subject key identifier (both public), with the impostor's own keys
			sc.Sign, sc.Enc = ident("lookA-sign", true), ident("lookA-enc", true)
		case "S18-leaves-issued-by-v1-end-entity":
			// the holder of an ordinary X.509 v1 end-entity certificate from the trusted CA
			// issues certificates for server.sim and ships its own certificate as intermediate
			sc.Sign = &reftls.Identity{Chain: [][]byte{pki.DER("forged-sign"), pki.DER("v1ee")}, Key: pki.D("forged-sign")}
			sc.Enc = ident("forged-enc", true)
			if c.Bool(1, 2, simkit.LFault) {
				// ... or of a v3 end-entity certificate that carries neither basicConstraints
				// nor keyUsage (RFC 5280 4.2.1.9: without the extension it is no CA)
				sc.Sign = &reftls.Identity{Chain: [][]byte{pki.DER("forged3-sign"), pki.DER("v3ee")}, Key: pki.D("forged3-sign")}
				sc.Enc = ident("forged3-enc", true)
			}
		case "S16-dual-usage-sign-cert-enc-key-not-held":
			// the signing certificate also carries keyEncipherment; the impostor holds the
			// signing key only and tries it on the ClientKeyExchange. The pre-master must
			// have gone to the encryption certificate's key, which it does not hold.
			sc.Sign = ident("srvdual-sign", true)
			sc.Enc = &reftls.Identity{Chain: [][]byte{pki.DER("srvdual-enc")}, Key: pki.D("srvdual-sign")}
			if c.Bool(1, 2, simkit.LFault) {
				// ... and makes the key-exchange signature cover the signing certificate, in
				// case the client takes that one for the encryption certificate
				sc.SKXOverCert = pki.DER("srvdual-sign")
			}
		}
		return ir
	}
	cc := &reftls.ClientCfg{Rand: ent, Suites: []uint16{ir.Suite}, ServerName: "server.sim"}
	ir.ccfg = cc
	ir.Policy = gmtls.RequireAndVerifyClientCert
	items := []string{"C0-honest-client", "C1-no-cert", "C2-untrusted-ca", "C3-cv-other-key", "C4-cv-other-transcript", "C5-cv-omitted", "C6-selfsigned-allowed", "C7-selfsigned-cv-other-key", "C8-ifgiven-no-cert", "C9-expired", "C9-server-clock-after", "C10-eku-serverauth-only", "V2-server-callback-rejects", "C11-foreign-cert-first-own-cert-second", "C12-certificate-message-omitted", "C13-lookalike-of-trusted-root", "C14-leaf-issued-by-v1-end-entity", "C15-only-unknown-extended-key-usage", "C16-leaf-under-expired-intermediate", "C17-leaf-below-ca-issued-under-pathlen-0", "C17-leaf-directly-below-pathlen-0-ca(allowed)", "C18-verifying-policy-no-client-cas-genuine-cert", "C18-verifying-policy-no-client-cas-selfsigned-cert"}
	ir.Item = items[c.Choose(len(items), simkit.LFault)]
	verifying := []gmtls.ClientAuthType{gmtls.RequireAndVerifyClientCert, gmtls.VerifyClientCertIfGiven}
	lax := []gmtls.ClientAuthType{gmtls.RequireAnyClientCert, gmtls.RequestClientCert}
	switch ir.Item {
	case "C0-honest-client":
		cc.Cert = ident("cli", true)
		ir.Policy = verifying[c.Choose(2, simkit.LFault)]
		ir.Expect = expComplete
		ir.WantPeer = "cli"
	case "C1-no-cert":
		ir.Policy = []gmtls.ClientAuthType{gmtls.RequireAndVerifyClientCert, gmtls.RequireAnyClientCert}[c.Choose(2, simkit.LFault)]
	case "C2-untrusted-ca":
		cc.Cert = ident("cliB", true)
		ir.Policy = verifying[c.Choose(2, simkit.LFault)]
	case "C3-cv-other-key":
		cc.Cert = ident("cli", true)
		cc.CertVerifyKey = pki.D("spare")
		ir.Policy = verifying[c.Choose(2, simkit.LFault)]
	case "C4-cv-other-transcript":
		cc.Cert = ident("cli", true)
		ir.NeedS1 = true
		ir.Policy = verifying[c.Choose(2, simkit.LFault)]
	case "C5-cv-omitted":
		cc.Cert = ident("cli", false)
		cc.OmitCertVerify = true
		ir.Policy = []gmtls.ClientAuthType{gmtls.RequireAndVerifyClientCert, gmtls.VerifyClientCertIfGiven, gmtls.RequireAnyClientCert, gmtls.RequestClientCert}[c.Choose(4, simkit.LFault)]
	case "C6-selfsigned-allowed":
		cc.Cert = ident("cliself", true)
		ir.Policy = lax[c.Choose(2, simkit.LFault)]
		ir.Expect = expComplete
		ir.WantPeer = "cliself"
	case "C7-selfsigned-cv-other-key":
		cc.Cert = ident("cliself", true)
		cc.CertVerifyKey = pki.D("spare")
		ir.Policy = lax[c.Choose(2, simkit.LFault)]
	case "C8-ifgiven-no-cert":
		ir.Policy = []gmtls.ClientAuthType{gmtls.VerifyClientCertIfGiven, gmtls.RequestClientCert}[c.Choose(2, simkit.LFault)]
		ir.Expect = expComplete
	case "C9-expired":
		cc.Cert = ident("cliexp", true)
		ir.Policy = verifying[c.Choose(2, simkit.LFault)]
	case "C10-eku-serverauth-only":
		cc.Cert = ident("cliekusrv", true)
		ir.Policy = verifying[c.Choose(2, simkit.LFault)]
	case "C11-foreign-cert-first-own-cert-second":
		// somebody else's certified (encryption) certificate first, the attacker's own
		// self-signed certificate second, CertificateVerify made with the attacker's key
		cc.Cert = &reftls.Identity{Chain: [][]byte{pki.DER("srv-enc"), pki.DER("cliself")}, Key: pki.D("cliself")}
		ir.Policy = []gmtls.ClientAuthType{gmtls.RequireAndVerifyClientCert, gmtls.VerifyClientCertIfGiven, gmtls.RequireAnyClientCert, gmtls.RequestClientCert}[c.Choose(4, simkit.LFault)]
	case "C12-certificate-message-omitted":
		// the client ignores the CertificateRequest altogether (consistent transcript)
		cc.IgnoreCertRequest = true
		ir.Policy = []gmtls.ClientAuthType{gmtls.RequireAndVerifyClientCert, gmtls.RequireAnyClientCert}[c.Choose(2, simkit.LFault)]
	case "C15-only-unknown-extended-key-usage":
		cc.Cert = ident("cliekuunk", true)
		ir.Policy = verifying[c.Choose(2, simkit.LFault)]
	case "C13-lookalike-of-trusted-root":
		cc.Cert = ident("lookA-cli", true)
		ir.Policy = verifying[c.Choose(2, simkit.LFault)]
	case "C14-leaf-issued-by-v1-end-entity":
		cc.Cert = &reftls.Identity{Chain: [][]byte{pki.DER("forged-cli"), pki.DER("v1ee")}, Key: pki.D("forged-cli")}
		if c.Bool(1, 2, simkit.LFault) {
			// the issuer is a v3 end entity without basicConstraints and keyUsage
			cc.Cert = &reftls.Identity{Chain: [][]byte{pki.DER("forged3-cli"), pki.DER("v3ee")}, Key: pki.D("forged3-cli")}
		}
		ir.Policy = verifying[c.Choose(2, simkit.LFault)]
	case "C18-verifying-policy-no-client-cas-genuine-cert", "C18-verifying-policy-no-client-cas-selfsigned-cert":
		// the server demands verified client certificates but was given no ClientCAs
		// pool: nothing in the fixture PKI chains to the system roots, so nobody is
		// certified - least of all the holder of a self-made certificate
		cc.Cert = ident("cli", true)
		if ir.Item == "C18-verifying-policy-no-client-cas-selfsigned-cert" {
			cc.Cert = ident("cliself", true)
		}
		ir.Policy = verifying[c.Choose(2, simkit.LFault)]
		ir.NoClientCAs = true
	case "C17-leaf-below-ca-issued-under-pathlen-0":
		// caA -> issuing CA with pathLenConstraint 0 -> a further CA (issued in violation
		// of the constraint) -> leaf: the chain has one intermediate too many
		cc.Cert = &reftls.Identity{Chain: [][]byte{pki.DER("clip0"), pki.DER("caAp0sub"), pki.DER("caAp0")}, Key: pki.D("clip0")}
		ir.Policy = verifying[c.Choose(2, simkit.LFault)]
	case "C17-leaf-directly-below-pathlen-0-ca(allowed)":
		cc.Cert = &reftls.Identity{Chain: [][]byte{pki.DER("clip0ok"), pki.DER("caAp0")}, Key: pki.D("clip0ok")}
		ir.Policy = verifying[c.Choose(2, simkit.LFault)]
		ir.Expect = expComplete
		ir.WantPeer = "clip0ok"
	case "C16-leaf-under-expired-intermediate":
		// the intermediate that issued the leaf expired five years ago (whoever holds its
		// key can mint back-dated leaves); the leaf itself claims to be valid
		cc.Cert = &reftls.Identity{Chain: [][]byte{pki.DER("cliexpca"), pki.DER("caAexp")}, Key: pki.D("cliexpca")}
		ir.Policy = verifying[c.Choose(2, simkit.LFault)]
	case "V2-server-callback-rejects":
		cc.Cert = ident("cli", true)
		ir.Policy = []gmtls.ClientAuthType{gmtls.RequireAndVerifyClientCert, gmtls.VerifyClientCertIfGiven, gmtls.RequireAnyClientCert, gmtls.RequestClientCert}[c.Choose(4, simkit.LFault)]
		ir.CallbackRejects = true
	case "C9-server-clock-after":
		cc.Cert = ident("clinarrow", true)
		ir.Skew = 2*day - int64(c.Choose(3600, simkit.LFault))*1e9
		ir.Policy = verifying[c.Choose(2, simkit.LFault)]
	}
	return ir
}

// drawImpostorTLS: the same catalogue on the plain TLS 1.2 path (RSA and ECDHE_RSA suites).
func drawImpostorTLS(c *simkit.Choice, ent *simkit.Stream, ir *impRun) {
	rsaSuites := []uint16{0x002f, 0x009c, 0x0035, 0x009d}
	ecSuites := []uint16{0xc02f, 0xc030, 0xc014}
	ir.Suite = append(rsaSuites, ecSuites...)[c.Choose(7, simkit.LScen)]
	ecdhe := reftls.Suite(ir.Suite).ECDHE
	rsaID := func(name string, withKey bool) *reftls.Identity {
		id := &reftls.Identity{Chain: [][]byte{pki.DER(name)}}
		if withKey {
			id.RSA = refRSA(name)
		}
		return id
	}
	if !ir.VictimSrv {
		sc := &reftls.ServerCfg{Rand: ent, Suites: []uint16{ir.Suite}, TLS12: true, Sign: rsaID("tlsrsa", true)}
		ir.scfg = sc
		items := []string{"TS0-honest-server", "TS1-untrusted-root", "TS3-wrong-name", "TS10-rsa-key-not-held", "TS4-ecdsa-cert-for-rsa-suite", "TS7-leaf-issued-by-v1-end-entity", "TS19-wildcard-one-label(allowed)", "TS19-wildcard-deeper-name", "TS19-wildcard-parent-name", "TS25-common-name-matches-san-does-not", "TS28-ip-san-exact-address(allowed)", "TS28-ip-san-other-address"}
		if ecdhe {
			items = []string{"TS0-honest-server", "TS1-untrusted-root", "TS3-wrong-name", "TS5-ecdhe-params-signed-by-other-key", "TS6-ecdhe-params-signature-over-other-randoms", "TS9-ecdhe-params-signature-garbage", "TS7-leaf-issued-by-v1-end-entity"}
		}
		ir.Item = items[c.Choose(len(items), simkit.LFault)]
		switch ir.Item {
		case "TS0-honest-server":
			ir.Expect = expComplete
		case "TS19-wildcard-one-label(allowed)", "TS19-wildcard-deeper-name", "TS19-wildcard-parent-name":
			sc.Sign = rsaID("tlswild", true)
			switch ir.Item {
			case "TS19-wildcard-one-label(allowed)":
				ir.VictimName = []string{"host.wild.sim", "HOST.Wild.Sim", "x.wild.sim"}[c.Choose(3, simkit.LFault)]
				ir.Expect = expComplete
			case "TS19-wildcard-deeper-name":
				ir.VictimName = []string{"login.internal.wild.sim", "a.b.c.wild.sim", "a.b.wild.sim"}[c.Choose(3, simkit.LFault)]
			default:
				ir.VictimName = []string{"wild.sim", "xwild.sim", "host.wild.sim.evil"}[c.Choose(3, simkit.LFault)]
			}
		case "TS28-ip-san-exact-address(allowed)", "TS28-ip-san-other-address":
			sc.Sign = rsaID("tlsip", true)
			if ir.Item == "TS28-ip-san-exact-address(allowed)" {
				ir.VictimName = "10.0.0.1"
				ir.Expect = expComplete
			} else {
				ir.VictimName = []string{"2001:db8::a00:1", "10.0.0.2", "fe80::a00:1"}[c.Choose(3, simkit.LFault)]
			}
		case "TS7-leaf-issued-by-v1-end-entity":
			sc.Sign = &reftls.Identity{Chain: [][]byte{pki.DER("forgedrsa-srv"), pki.DER("v1eersa")}, RSA: refRSA("forgedrsa-srv")}
		case "TS25-common-name-matches-san-does-not":
			sc.Sign = rsaID("tlscnsan", true)
		case "TS1-untrusted-root":
			ir.VictimRoots = "caA"
		case "TS3-wrong-name":
			ir.VictimName = []string{"other.sim", "server2.sim", "192.0.2.7"}[c.Choose(3, simkit.LFault)]
		case "TS10-rsa-key-not-held":
			sc.Sign = rsaID("tlsrsa", false)
			sc.GuessPre = append([]byte{3, 3}, drawData(c, 46)...)
			sc.IgnoreClientFinished = true
		case "TS4-ecdsa-cert-for-rsa-suite":
			sc.CertList = [][]byte{pki.DER("tlsp256")}
			sc.Sign = rsaID("tlsrsa", false)
			sc.GuessPre = append([]byte{3, 3}, drawData(c, 46)...)
			sc.IgnoreClientFinished = true
		case "TS5-ecdhe-params-signed-by-other-key":
			sc.SKXRSA = refRSA("tlsrsa2")
		case "TS6-ecdhe-params-signature-over-other-randoms":
			sc.SKXRandoms = [2][]byte{drawData(c, 32), drawData(c, 32)}
		case "TS9-ecdhe-params-signature-garbage":
			k, _ := reftls.ECDHEKey(reftls.CurveP256, ent)
			sc.ECDHECurve = reftls.CurveP256
			sc.ECDHEPoint = k.PublicKey().Bytes()
			sc.SKXRaw = reftls.MarshalSKXECDHE(reftls.CurveP256, sc.ECDHEPoint, reftls.SigRSAPKCS1SHA256, drawData(c, 256))
		}
		return
	}
	cc := &reftls.ClientCfg{Rand: ent, Suites: []uint16{ir.Suite}, ServerName: "server.sim", Vers: reftls.VersionTLS12, VersSet: true, Curves: []uint16{23, 24, 25}}
	ir.ccfg = cc
	ir.Policy = gmtls.RequireAndVerifyClientCert
	items := []string{"TC0-honest-client", "TC1-no-cert", "TC2-untrusted-ca", "TC3-cv-other-key", "TC4-cv-other-transcript", "TC5-cv-omitted", "TC5-cv-omitted-enc-only-cert", "TC3-cv-other-key-enc-only-cert", "TC12-certificate-message-omitted", "TC8-ifgiven-no-cert", "TC14-leaf-issued-by-v1-end-entity"}
	ir.Item = items[c.Choose(len(items), simkit.LFault)]
	verifying := []gmtls.ClientAuthType{gmtls.RequireAndVerifyClientCert, gmtls.VerifyClientCertIfGiven}
	all := []gmtls.ClientAuthType{gmtls.RequireAndVerifyClientCert, gmtls.VerifyClientCertIfGiven, gmtls.RequireAnyClientCert, gmtls.RequestClientCert}
	switch ir.Item {
	case "TC0-honest-client":
		cc.Cert = rsaID("tlsclirsa", true)
		ir.Policy = verifying[c.Choose(2, simkit.LFault)]
		ir.Expect = expComplete
		ir.WantPeer = "tlsclirsa"
	case "TC1-no-cert":
		ir.Policy = []gmtls.ClientAuthType{gmtls.RequireAndVerifyClientCert, gmtls.RequireAnyClientCert}[c.Choose(2, simkit.LFault)]
	case "TC2-untrusted-ca":
		cc.Cert = rsaID("srvrsa", true)
		ir.Policy = verifying[c.Choose(2, simkit.LFault)]
	case "TC3-cv-other-key":
		cc.Cert = rsaID("tlsclirsa", true)
		cc.CertVerifyRSA = refRSA("tlsrsa2")
		ir.Policy = all[c.Choose(4, simkit.LFault)]
	case "TC4-cv-other-transcript":
		cc.Cert = rsaID("tlsclirsa", true)
		ir.NeedS1 = true
		ir.Policy = all[c.Choose(4, simkit.LFault)]
	case "TC5-cv-omitted":
		cc.Cert = rsaID("tlsclirsa", false)
		cc.OmitCertVerify = true
		ir.Policy = all[c.Choose(4, simkit.LFault)]
	case "TC5-cv-omitted-enc-only-cert":
		// somebody's certified key-encipherment-only certificate, no key, no CertificateVerify
		cc.Cert = rsaID("tlsclienc", false)
		cc.OmitCertVerify = true
		ir.Policy = all[c.Choose(4, simkit.LFault)]
	case "TC3-cv-other-key-enc-only-cert":
		cc.Cert = rsaID("tlsclienc", false)
		cc.CertVerifyRSA = refRSA("tlsrsa2")
		ir.Policy = all[c.Choose(4, simkit.LFault)]
	case "TC14-leaf-issued-by-v1-end-entity":
		cc.Cert = &reftls.Identity{Chain: [][]byte{pki.DER("forgedrsa-cli"), pki.DER("v1eersa")}, RSA: refRSA("forgedrsa-cli")}
		ir.Policy = verifying[c.Choose(2, simkit.LFault)]
	case "TC12-certificate-message-omitted":
		cc.IgnoreCertRequest = true
		ir.Policy = []gmtls.ClientAuthType{gmtls.RequireAndVerifyClientCert, gmtls.RequireAnyClientCert}[c.Choose(2, simkit.LFault)]
	case "TC8-ifgiven-no-cert":
		ir.Policy = []gmtls.ClientAuthType{gmtls.VerifyClientCertIfGiven, gmtls.RequestClientCert}[c.Choose(2, simkit.LFault)]
		ir.Expect = expComplete
	}
}

func victimClientCfg(s *simkit.Sim, suite uint16, ent *simkit.Stream, skew int64) *gmtls.Config {
	return &gmtls.Config{GMSupport: gmtls.NewGMSupport(), Rand: ent, Time: simTime(s, skew), RootCAs: pki.Pool("caA"), ServerName: "server.sim", CipherSuites: []uint16{suite}}
}

func victimServerCfg(s *simkit.Sim, suite uint16, ent *simkit.Stream, skew int64, pol gmtls.ClientAuthType) *gmtls.Config {
	return &gmtls.Config{GMSupport: gmtls.NewGMSupport(), Rand: ent, Time: simTime(s, skew), Certificates: gmServerCerts("srv-sign", "srv-enc"), CipherSuites: []uint16{suite},
		ClientAuth: pol, ClientCAs: pki.Pool("caA"), SessionTicketsDisabled: true}
}

func runAuthImpostor(c *simkit.Choice, r *simkit.Rec) {
	pki.Load()
	entV := simkit.NewStream(uint64(c.Choose(1<<31, simkit.LEntropy)) + 41)
	entI := simkit.NewStream(uint64(c.Choose(1<<31, simkit.LEntropy)) + 43)
	ir := drawImpostor(c, entI)
	if !ir.CallbackRejects && c.Bool(1, 4, simkit.LScen) {
		ir.CallbackAccepts = true
	}
	n1, n2 := simkit.DrawNetCfg(c), simkit.DrawNetCfg(c)
	pol := simkit.Policy{StarveNode: -1, MeanGap: []int{0, 9}[c.Choose(2, simkit.LScen)]}
	s := simkit.NewSim(c, pol, 3000000)
	r.Config = fmt.Sprintf("%s/%04x/policy%d", ir.Item, ir.Suite, ir.Policy)
	r.SigStr(r.Config)
	site := ir.Item

	victimCache := gmtls.NewLRUClientSessionCache(4)
	type sess struct {
		victim     endRes
		vApp       []byte
		vDone      bool
		peerRes    *reftls.Result
		peerErr    error
		transcript []byte
	}
	runSession := func(tag string, scfg *reftls.ServerCfg, ccfg *reftls.ClientCfg, skew int64, policy gmtls.ClientAuthType, out *sess, done *simkit.Flag) {
		vRaw, pRaw := s.NewConnPair("victim"+tag, "impostor"+tag, n1, n2)
		vRaw.PeerAddr = "192.0.2.66:443" // every session reaches the same address
		s.Spawn("victim"+tag, 0, func() {
			var conn *gmtls.Conn
			reject := func(rawCerts [][]byte, chains [][]*x509.Certificate) error {
				return errors.New("verifsim: application-level verification says no")
			}
			accept := func(rawCerts [][]byte, chains [][]*x509.Certificate) error { return nil }
			if ir.TLS && ir.VictimSrv {
				vs := &gmtls.Config{Rand: entV, Time: simTime(s, skew), Certificates: []gmtls.Certificate{pki.GMStd("tlsrsa")}, CipherSuites: []uint16{ir.Suite},
					ClientAuth: policy, ClientCAs: pki.Pool("rsaCA"), SessionTicketsDisabled: true}
				if ir.CallbackAccepts {
					vs.VerifyPeerCertificate = accept
				}
				conn = gmtls.Server(vRaw, vs)
			} else if ir.TLS {
				roots := "rsaCA"
				if ir.VictimRoots != "" && tag == "2" {
					roots = ir.VictimRoots
				}
				vc := &gmtls.Config{Rand: entV, Time: simTime(s, skew), RootCAs: pki.Pool(roots), ServerName: "server.sim", CipherSuites: []uint16{ir.Suite}}
				if ir.VictimName != "" && tag == "2" {
					vc.ServerName = ir.VictimName
				}
				if ir.CallbackAccepts {
					vc.VerifyPeerCertificate = accept
				}
				conn = gmtls.Client(vRaw, vc)
			} else if ir.VictimSrv {
				vs := victimServerCfg(s, ir.Suite, entV, skew, policy)
				if ir.NoClientCAs {
					vs.ClientCAs = nil
				}
				if ir.CallbackRejects && tag == "2" {
					vs.VerifyPeerCertificate = reject
				}
				if ir.CallbackAccepts {
					vs.VerifyPeerCertificate = accept
				}
				conn = gmtls.Server(vRaw, vs)
			} else {
				vc := victimClientCfg(s, ir.Suite, entV, skew)
				if ir.VictimName != "" && tag == "2" {
					vc.ServerName = ir.VictimName
				}
				if ir.ExtraRoot != "" {
					vc.RootCAs = pki.Pool(append([]string{"caA"}, strings.Split(ir.ExtraRoot, ",")...)...)
				}
				if ir.OtherNameFirst || ir.CacheFirst {
					vc.ClientSessionCache = victimCache
					if tag == "1" && ir.OtherNameFirst {
						vc.ServerName = "server2.sim"
					}
				}
				if ir.CallbackRejects && tag == "2" {
					vc.VerifyPeerCertificate = reject
				}
				if ir.CallbackAccepts {
					vc.VerifyPeerCertificate = accept
				}
				conn = gmtls.Client(vRaw, vc)
			}
			out.victim.HsErr = conn.Handshake()
			collectState(conn, &out.victim)
			if out.victim.HsErr != nil {
				vRaw.Close()
				out.vDone = true
				return
			}
			buf := make([]byte, 128)
			for {
				n, err := conn.Read(buf)
				out.vApp = append(out.vApp, buf[:n]...)
				if err != nil {
					break
				}
			}
			conn.Close()
			out.vDone = true
		})
		s.Spawn("impostor"+tag, 1, func() {
			defer done.Set()
			pc := reftls.NewConn(pRaw)
			pRaw.SetReadDeadlineNS(s.Now + 60e9)
			if ir.VictimSrv {
				out.peerRes, out.peerErr = reftls.ClientHandshake(pc, ccfg)
			} else {
				out.peerRes, out.peerErr = reftls.ServerHandshake(pc, scfg)
			}
			out.transcript = pc.Transcript
			if out.peerErr == nil && out.peerRes.Complete {
				pc.WriteRecord(reftls.RecApp, []byte("attacker speaks"))
				pc.CloseNotify()
			}
			pRaw.Close()
		})
	}
	var s1, s2 sess
	d1, d2 := &simkit.Flag{Name: "s1"}, &simkit.Flag{Name: "s2"}
	if ir.NeedS1 && (ir.OtherNameFirst || ir.CacheFirst) {
		// session 1: the impostor, honest under its own name, hands out a ticket
		first := *ir.scfg
		first.IssueTicket = drawDataStream(entI, 96)
		runSession("1", &first, nil, 0, 0, &s1, d1)
		s.Spawn("driver", 2, func() {
			s.WaitFlag(d1)
			if s1.peerRes != nil && ir.OtherNameFirst {
				ir.scfg.Resume = &reftls.ResumeState{Ticket: first.IssueTicket, Master: s1.peerRes.Master, Suite: s1.peerRes.Suite, Vers: s1.peerRes.SH.Vers}
			}
			if ir.SecondEnc != "" {
				ir.scfg.Enc = ident(ir.SecondEnc, true)
			}
			runSession("2", ir.scfg, ir.ccfg, ir.Skew, ir.Policy, &s2, d2)
		})
	} else if ir.NeedS1 {
		// session 1: honest, to harvest a signature / transcript for replay
		hs := &reftls.ServerCfg{Rand: entI, Suites: []uint16{ir.Suite}, Sign: ident("srv-sign", true), Enc: ident("srv-enc", true)}
		hc := &reftls.ClientCfg{Rand: entI, Suites: []uint16{ir.Suite}, ServerName: "server.sim", Cert: ident("cli", true)}
		if ir.TLS {
			hs = &reftls.ServerCfg{Rand: entI, Suites: []uint16{ir.Suite}, TLS12: true, Sign: &reftls.Identity{Chain: [][]byte{pki.DER("tlsrsa")}, RSA: refRSA("tlsrsa")}}
			hc = &reftls.ClientCfg{Rand: entI, Suites: []uint16{ir.Suite}, ServerName: "server.sim", Vers: reftls.VersionTLS12, VersSet: true, Curves: []uint16{23, 24, 25},
				Cert: &reftls.Identity{Chain: [][]byte{pki.DER("tlsclirsa")}, RSA: refRSA("tlsclirsa")}}
		}
		runSession("1", hs, hc, 0, gmtls.RequireAndVerifyClientCert, &s1, d1)
		s.Spawn("driver", 2, func() {
			s.WaitFlag(d1)
			if ir.VictimSrv {
				// CertificateVerify computed over session 1's transcript instead of this one's
				ir.ccfg.CertVerifyOver = s1.transcript
			} else if s1.peerRes != nil {
				ir.scfg.SKXRaw = s1.peerRes.SKXSig
			}
			runSession("2", ir.scfg, ir.ccfg, ir.Skew, ir.Policy, &s2, d2)
		})
	} else {
		runSession("2", ir.scfg, ir.ccfg, ir.Skew, ir.Policy, &s2, d2)
	}
	s.Run()
	r.FromSim(s)
	r.Nontrivial = ir.Expect == expFail
	r.Sig(s.TraceHash()[0]) // network behaviour and schedule are part of the run's identity
	r.Fault(idx(authItems, ir.Item))
	if ir.Skew != 0 {
		r.Fault(idx(authItems, "clock-skew"))
	}
	if ir.Suite == gmSuites[0] {
		r.Reach(idx(authReach, "gm-cbc"))
	} else {
		r.Reach(idx(authReach, "gm-gcm"))
	}
	if ir.VictimSrv {
		r.Reach(idx(authReach, []string{"policy-request", "policy-request", "policy-require-any", "policy-verify-if-given", "policy-require-and-verify"}[ir.Policy]))
	}
	r.Detail = map[string]interface{}{"item": ir.Item, "suite": fmt.Sprintf("%04x", ir.Suite), "victim": map[bool]string{true: "server", false: "client"}[ir.VictimSrv], "policy": int(ir.Policy), "skew_s": ir.Skew / 1e9,
		"victim_err": errStr(s2.victim.HsErr), "victim_complete": s2.victim.HsDone, "impostor_err": errStr(s2.peerErr), "expect": []string{"any", "complete", "fail"}[ir.Expect]}
	s.TaskPanics(r)
	if r.Violation() != nil || r.HarnessErr != "" {
		return
	}
	if s.Reason == simkit.StopBudget {
		r.Violate("no-progress", site, fmt.Sprintf("step budget exhausted: %v", s.Blocked))
		return
	}
	if ir.NeedS1 {
		if s1.victim.HsErr != nil || s1.peerErr != nil {
			r.Violate("honest-peer-rejected", site, fmt.Sprintf("honest first session failed: victim=%v reference=%v", s1.victim.HsErr, s1.peerErr))
			return
		}
		r.Reach(idx(authReach, "session1-harvested"))
	}
	if !s2.vDone {
		r.Violate("keeps-waiting", site, fmt.Sprintf("victim did not return: %v", s.Blocked))
		return
	}
	switch ir.Expect {
	case expFail:
		if s2.victim.HsErr == nil || s2.victim.HsDone {
			r.Violate("impostor-accepted", site, fmt.Sprintf("victim %s completed the handshake (err=%v complete=%v) with an impostor: %s (suite %04x, policy %d, clock skew %ds)", r.Detail["victim"], s2.victim.HsErr, s2.victim.HsDone, ir.Item, ir.Suite, ir.Policy, ir.Skew/1e9))
			return
		}
		if len(s2.vApp) > 0 {
			r.Violate("impostor-accepted", site, "victim accepted application data from the impostor")
			return
		}
		r.Reach(idx(authReach, "victim-rejected"))
		r.Outcome = "rejected"
	case expComplete:
		if s2.victim.HsErr != nil || s2.peerErr != nil {
			r.Violate("honest-peer-rejected", site, fmt.Sprintf("policy allows this peer (%s, policy %d) but the handshake failed: victim=%v reference=%v", ir.Item, ir.Policy, s2.victim.HsErr, s2.peerErr))
			return
		}
		if ir.VictimSrv {
			pcs := s2.victim.State.PeerCertificates
			if ir.WantPeer == "" && len(pcs) != 0 {
				r.Violate("peer-certs", site, "server reports peer certificates although the client sent none")
				return
			}
			if ir.WantPeer != "" && (len(pcs) == 0 || !bytes.Equal(pcs[0].Raw, pki.DER(ir.WantPeer))) {
				r.Violate("peer-certs", site, "server's PeerCertificates[0] is not the certificate the client proved possession of")
				return
			}
		}
		if ir.Item == "S0-honest-server" || ir.Item == "C0-honest-client" || ir.Item == "TS0-honest-server" || ir.Item == "TC0-honest-client" || strings.HasSuffix(ir.Item, "(allowed)") {
			r.Reach(idx(authReach, "honest-completed"))
		} else {
			r.Reach(idx(authReach, "allowed-completed"))
		}
		r.Outcome = "completed"
	}
}

// ---- rewriting man in the middle ----------------------------------------

type mitmRewrite struct {
	Kind  string
	Dir   int // 0 c2s, 1 s2c
	Index int // index of the plaintext handshake message within the direction
	Off   int
	Val   int
}

// hsRelay forwards one direction, re-serialising plaintext handshake messages
// one per record; after ChangeCipherSpec it forwards records verbatim.
type hsRelay struct {
	s        *simkit.Sim
	dir      int
	src, dst *simkit.Conn
	rw       *mitmRewrite
	prev     [][]byte // messages of this direction in session 1 (for replay)
	seen     [][]byte // messages seen (raw, before rewriting)
	sentMsgs [][]byte // messages forwarded
	applied  bool
	changed  bool
	other    *hsRelay
	vers     uint16 // record-layer version of the latest record read (re-serialised records carry it on)
	tls      bool   // plain TLS session
}

func (h *hsRelay) recVers() uint16 {
	if h.vers != 0 {
		return h.vers
	}
	return reftls.VersionGM
}

func (h *hsRelay) run() {
	hdr := make([]byte, 5)
	var hsbuf []byte
	protected := false
	idx := 0
	var held []byte
	send := func(msg []byte) {
		h.sentMsgs = append(h.sentMsgs, msg)
		h.dst.Write(reftls.Record{Type: reftls.RecHandshake, Vers: h.recVers(), Body: msg}.Bytes())
	}
	for {
		n, err := readFull(h.src, hdr)
		if err != nil {
			if n > 0 {
				h.dst.Write(hdr[:n])
			}
			if held != nil {
				send(held)
			}
			h.dst.CloseWrite()
			return
		}
		ln := int(hdr[3])<<8 | int(hdr[4])
		h.vers = uint16(hdr[1])<<8 | uint16(hdr[2])
		rec := make([]byte, 5+ln)
		copy(rec, hdr)
		if n, err = readFull(h.src, rec[5:]); err != nil {
			h.dst.Write(rec[:5+n])
			h.dst.CloseWrite()
			return
		}
		if protected || rec[0] != reftls.RecHandshake {
			if rec[0] == reftls.RecCCS {
				protected = true
				if held != nil {
					send(held)
					held = nil
				}
			}
			h.dst.Write(rec)
			continue
		}
		hsbuf = append(hsbuf, rec[5:]...)
		var msgs []reftls.HsMsg
		msgs, rest := reftls.SplitHandshake(hsbuf)
		for _, m := range msgs {
			raw := append([]byte(nil), m.Raw...)
			h.seen = append(h.seen, raw)
			out := [][]byte{raw}
			if h.rw != nil && h.rw.Dir == h.dir && h.rw.Index == idx && !h.applied {
				h.applied = true
				out = h.rewrite(raw, &held)
			} else if held != nil {
				out = [][]byte{raw, held}
				held = nil
				h.changed = true
			}
			for _, o := range out {
				send(o)
			}
			idx++
		}
		hsbuf = append([]byte(nil), rest...)
	}
}

func (h *hsRelay) rewrite(raw []byte, held *[]byte) [][]byte {
	rw := h.rw
	body := raw[4:]
	switch rw.Kind {
	case "M-flip-byte":
		if len(body) == 0 {
			return [][]byte{raw}
		}
		m := append([]byte(nil), raw...)
		m[4+rw.Off%len(body)] ^= byte(1 + rw.Val%255)
		h.changed = true
		return [][]byte{m}
	case "M-replace-from-session1":
		for _, p := range h.prev {
			if p[0] == raw[0] && !bytes.Equal(p, raw) {
				h.changed = true
				return [][]byte{p}
			}
		}
		return [][]byte{raw}
	case "M-extend-body":
		// bytes appended to the body, handshake length adjusted: a well-framed, longer message
		n := 1 + rw.Val%8
		m := append([]byte(nil), raw...)
		for i := 0; i < n; i++ {
			m = append(m, byte(rw.Off>>uint(i%16)))
		}
		ln := len(m) - 4
		m[1], m[2], m[3] = byte(ln>>16), byte(ln>>8), byte(ln)
		h.changed = true
		return [][]byte{m}
	case "M-shorten-body":
		if len(body) == 0 {
			return [][]byte{raw}
		}
		n := 1 + rw.Val%len(body)
		m := append([]byte(nil), raw[:len(raw)-n]...)
		ln := len(m) - 4
		m[1], m[2], m[3] = byte(ln>>16), byte(ln>>8), byte(ln)
		h.changed = true
		return [][]byte{m}
	case "M-drop":
		h.changed = true
		return nil
	case "M-duplicate":
		h.changed = true
		return [][]byte{raw, raw}
	case "M-swap":
		*held = raw // "changed" only once another message has overtaken it
		return nil
	case "M-hello-version", "M-hello-extension-strip", "M-hello-session-id":
		// downgrade attempts on either hello: a lower (or other) version number, one
		// extension (or all of them) removed, the session id changed
		if raw[0] == reftls.HsClientHello {
			ch, err := reftls.ParseClientHello(body)
			if err != nil {
				return [][]byte{raw}
			}
			switch rw.Kind {
			case "M-hello-version":
				ch.Vers = []uint16{0x0301, 0x0302, 0x0303, 0x0101, 0x0300}[rw.Val%5]
			case "M-hello-extension-strip":
				if len(ch.Exts) == 0 {
					return [][]byte{raw}
				}
				if rw.Val%3 == 0 {
					ch.Exts = nil
				} else {
					k := rw.Off % len(ch.Exts)
					ch.Exts = append(append([]reftls.Ext(nil), ch.Exts[:k]...), ch.Exts[k+1:]...)
				}
			default:
				ch.SessionID = []byte{byte(rw.Val), byte(rw.Off), 7}[:rw.Val%4]
			}
			m := reftls.Handshake(reftls.HsClientHello, ch.Marshal())
			h.changed = !bytes.Equal(m, raw)
			return [][]byte{m}
		}
		if raw[0] == reftls.HsServerHello {
			sh, err := reftls.ParseServerHello(body)
			if err != nil {
				return [][]byte{raw}
			}
			switch rw.Kind {
			case "M-hello-version":
				sh.Vers = []uint16{0x0301, 0x0302, 0x0303, 0x0101, 0x0300}[rw.Val%5]
			case "M-hello-extension-strip":
				if len(sh.Exts) == 0 {
					return [][]byte{raw}
				}
				if rw.Val%3 == 0 {
					sh.Exts = nil
				} else {
					k := rw.Off % len(sh.Exts)
					sh.Exts = append(append([]reftls.Ext(nil), sh.Exts[:k]...), sh.Exts[k+1:]...)
				}
			default:
				sh.SessionID = []byte{byte(rw.Val), byte(rw.Off), 7}[:rw.Val%4]
			}
			m := reftls.Handshake(reftls.HsServerHello, sh.Marshal())
			h.changed = !bytes.Equal(m, raw)
			return [][]byte{m}
		}
		return [][]byte{raw}
	case "M-suite-strip":
		if raw[0] != reftls.HsClientHello {
			return [][]byte{raw}
		}
		ch, err := reftls.ParseClientHello(body)
		if err != nil || len(ch.Suites) < 2 {
			return [][]byte{raw}
		}
		ch.Suites = ch.Suites[1:]
		h.changed = true
		return [][]byte{reftls.Handshake(reftls.HsClientHello, ch.Marshal())}
	case "M-serverhello-suite":
		if raw[0] != reftls.HsServerHello {
			return [][]byte{raw}
		}
		sh, err := reftls.ParseServerHello(body)
		if err != nil {
			return [][]byte{raw}
		}
		if h.tls {
			sh.Suite = map[uint16]uint16{0xc02f: 0x009c, 0x009c: 0x002f, 0x002f: 0x009c}[sh.Suite]
		} else {
			sh.Suite = gmSuites[0] + gmSuites[1] - sh.Suite
		}
		h.changed = true
		return [][]byte{reftls.Handshake(reftls.HsServerHello, sh.Marshal())}
	case "M-cert-substitute":
		if raw[0] != reftls.HsCertificate || h.dir != 1 {
			return [][]byte{raw}
		}
		certs, err := reftls.ParseCertificate(body)
		if h.tls && err == nil && len(certs) >= 1 {
			certs[0] = pki.DER([]string{"tlsrsa2", "tlsp256", "srvrsa"}[rw.Val%3]) // another certificate, from the trusted root or not
			h.changed = true
			return [][]byte{reftls.Handshake(reftls.HsCertificate, reftls.MarshalCertificate(certs))}
		}
		if err != nil || len(certs) < 2 {
			return [][]byte{raw}
		}
		switch rw.Val % 3 {
		case 0:
			certs[0], certs[1] = certs[1], certs[0]
		case 1:
			certs[1] = pki.DER("srv2-enc") // another certificate from the trusted CA
		case 2:
			certs[0] = pki.DER("srv2-sign")
		}
		h.changed = true
		return [][]byte{reftls.Handshake(reftls.HsCertificate, reftls.MarshalCertificate(certs))}
	case "M7-refragment(legal)":
		// split the message over two records: transcript unchanged
		cut := 1 + rw.Off%(len(raw)-1)
		h.sentMsgs = append(h.sentMsgs, raw)
		h.dst.Write(reftls.Record{Type: reftls.RecHandshake, Vers: h.recVers(), Body: raw[:cut]}.Bytes())
		h.dst.Write(reftls.Record{Type: reftls.RecHandshake, Vers: h.recVers(), Body: raw[cut:]}.Bytes())
		return nil
	case "M7-warning-alert":
		h.dst.Write(reftls.Record{Type: reftls.RecAlert, Vers: h.recVers(), Body: []byte{1, 100}}.Bytes())
		return [][]byte{raw}
	}
	return [][]byte{raw}
}

func runAuthMITM(c *simkit.Choice, r *simkit.Rec) {
	pki.Load()
	suiteList := [][]uint16{{gmSuites[0], gmSuites[1]}, {gmSuites[1], gmSuites[0]}, {gmSuites[0]}, {gmSuites[1]}}[c.Choose(4, simkit.LScen)]
	clientAuth := c.Bool(1, 2, simkit.LScen)
	tlsMode := c.Bool(1, 3, simkit.LScen) // two plain-TLS gmtls endpoints (ECDHE_RSA / RSA key exchange)
	if tlsMode {
		suiteList = [][]uint16{{0xc02f, 0x009c}, {0x009c, 0xc02f}, {0x002f, 0x009c}, {0xc02f}}[c.Choose(4, simkit.LScen)]
	}
	kinds := []string{"M-flip-byte", "M-replace-from-session1", "M-drop", "M-duplicate", "M-swap", "M-suite-strip", "M-serverhello-suite", "M-cert-substitute", "M7-refragment(legal)", "M7-warning-alert", "M-extend-body", "M-shorten-body", "M-hello-version", "M-hello-extension-strip", "M-hello-session-id"}
	rw := &mitmRewrite{Kind: kinds[c.Weighted([]int{5, 4, 2, 2, 2, 2, 2, 3, 2, 1, 4, 2, 3, 3, 2}, simkit.LFault)]}
	rw.Dir = c.Choose(2, simkit.LFault)
	maxIdx := 1 // c2s before CCS: CH, [Cert], CKX, [CV]
	if rw.Dir == 0 {
		maxIdx = 2
		if clientAuth {
			maxIdx = 4
		}
	} else {
		maxIdx = 4 // SH Cert SKX [CR] SHD
		if clientAuth {
			maxIdx = 5
		}
	}
	// tickets: the client keeps a session cache and the server issues tickets, so a
	// NewSessionTicket travels in the clear after the client's Finished - the one
	// message only the client's check of the server Finished protects.
	// resumeFirst: an untouched first session fills the cache and the attacked
	// session is an abbreviated handshake.
	tickets := c.Bool(1, 2, simkit.LScen)
	resumeFirst := false
	if tickets {
		if rw.Dir == 1 {
			maxIdx++
		}
		resumeFirst = rw.Kind != "M-replace-from-session1" && c.Bool(1, 4, simkit.LScen)
		if rw.Dir == 1 && !resumeFirst && c.Bool(1, 3, simkit.LFault) {
			rw.Index = -1 // aim at the NewSessionTicket
		}
	}
	if rw.Index < 0 {
		rw.Index = maxIdx - 1
	} else {
		rw.Index = c.Choose(maxIdx, simkit.LFault)
	}
	switch rw.Kind {
	case "M-hello-version", "M-hello-extension-strip", "M-hello-session-id":
		rw.Index = 0 // the hello of the drawn direction
	case "M-suite-strip":
		rw.Dir, rw.Index = 0, 0
	case "M-serverhello-suite":
		rw.Dir, rw.Index = 1, 0
	case "M-cert-substitute":
		rw.Dir, rw.Index = 1, 1
	}
	rw.Off = c.Choose(1<<16, simkit.LFault)
	rw.Val = c.Choose(1<<16, simkit.LFault)
	twoSessions := rw.Kind == "M-replace-from-session1" || resumeFirst
	var sharedCache gmtls.ClientSessionCache
	if resumeFirst {
		sharedCache = gmtls.NewLRUClientSessionCache(4)
	}
	var srvTicketCfg [2]*gmtls.Config // one server configuration for both sessions (ticket keys)
	entC := simkit.NewStream(uint64(c.Choose(1<<31, simkit.LEntropy)) + 51)
	entS := simkit.NewStream(uint64(c.Choose(1<<31, simkit.LEntropy)) + 53)
	pol := simkit.Policy{StarveNode: -1, MeanGap: []int{0, 11}[c.Choose(2, simkit.LScen)]}
	s := simkit.NewSim(c, pol, 4000000)
	r.Config = fmt.Sprintf("mitm/%s/dir%d/auth%v/tls%v/tick%v/res%v", rw.Kind, rw.Dir, clientAuth, tlsMode, tickets, resumeFirst)
	if tlsMode {
		r.Reach(idx(authReach, "mitm-tls-path"))
	}
	r.SigStr(r.Config)
	r.Sig(uint64(rw.Index))

	type ends struct {
		c, sv        endRes
		cApp, sApp   []byte
		cDone, sDone bool
		rel          [2]*hsRelay
		taps         [4]*simkit.Pipe // client sent, client received, server received, server sent
	}
	session := func(tag string, rewrite *mitmRewrite, prev *ends, out *ends, done *simkit.Flag) {
		capt := simkit.NetCfg{Capture: true}
		cliRaw, atkC := s.NewConnPair("cli"+tag, "atkc"+tag, capt, capt)
		atkS, srvRaw := s.NewConnPair("atks"+tag, "srv"+tag, capt, capt)
		out.taps = [4]*simkit.Pipe{cliRaw.WrPipe(), cliRaw.RdPipe(), srvRaw.RdPipe(), srvRaw.WrPipe()}
		c2s := &hsRelay{s: s, dir: 0, src: atkC, dst: atkS, rw: rewrite, tls: tlsMode}
		s2c := &hsRelay{s: s, dir: 1, src: atkS, dst: atkC, rw: rewrite, tls: tlsMode}
		if prev != nil {
			c2s.prev, s2c.prev = prev.rel[0].seen, prev.rel[1].seen
		}
		out.rel = [2]*hsRelay{c2s, s2c}
		cdone, sdone := &simkit.Flag{Name: "c"}, &simkit.Flag{Name: "s"}
		s.Spawn("cli"+tag, 0, func() {
			defer cdone.Set()
			cfg := victimClientCfg(s, 0, entC, 0)
			cfg.CipherSuites = suiteList
			if clientAuth {
				cfg.Certificates = []gmtls.Certificate{pki.GM("cli")}
			}
			if tlsMode {
				cfg = &gmtls.Config{Rand: entC, Time: simTime(s, 0), RootCAs: pki.Pool("rsaCA"), ServerName: "server.sim", CipherSuites: suiteList}
				if clientAuth {
					cfg.Certificates = []gmtls.Certificate{pki.GMStd("tlsclirsa")}
				}
			}
			if tickets {
				cfg.ClientSessionCache = sharedCache
				if sharedCache == nil {
					cfg.ClientSessionCache = gmtls.NewLRUClientSessionCache(4)
				}
			}
			conn := gmtls.Client(cliRaw, cfg)
			out.c.HsErr = conn.Handshake()
			collectState(conn, &out.c)
			if out.c.HsErr != nil {
				cliRaw.Close()
				out.cDone = true
				return
			}
			conn.Write([]byte("client data"))
			conn.CloseWrite()
			buf := make([]byte, 64)
			for {
				n, err := conn.Read(buf)
				out.cApp = append(out.cApp, buf[:n]...)
				if err != nil {
					break
				}
			}
			conn.Close()
			out.cDone = true
		})
		s.Spawn("srv"+tag, 1, func() {
			defer sdone.Set()
			p := gmtls.NoClientCert
			if clientAuth {
				p = gmtls.RequireAndVerifyClientCert
			}
			cfg := victimServerCfg(s, 0, entS, 0, p)
			cfg.CipherSuites = []uint16{gmSuites[0], gmSuites[1]}
			if tlsMode {
				cfg = &gmtls.Config{Rand: entS, Time: simTime(s, 0), Certificates: []gmtls.Certificate{pki.GMStd("tlsrsa")}, CipherSuites: []uint16{0xc02f, 0x009c, 0x002f},
					ClientAuth: p, ClientCAs: pki.Pool("rsaCA"), SessionTicketsDisabled: true}
			}
			if tickets {
				cfg.SessionTicketsDisabled = false
				if resumeFirst {
					k := 0
					if tlsMode {
						k = 1
					}
					if srvTicketCfg[k] == nil {
						srvTicketCfg[k] = cfg
					}
					cfg = srvTicketCfg[k]
				}
			}
			conn := gmtls.Server(srvRaw, cfg)
			out.sv.HsErr = conn.Handshake()
			collectState(conn, &out.sv)
			if out.sv.HsErr != nil {
				srvRaw.Close()
				out.sDone = true
				return
			}
			conn.Write([]byte("server data"))
			conn.CloseWrite()
			buf := make([]byte, 64)
			for {
				n, err := conn.Read(buf)
				out.sApp = append(out.sApp, buf[:n]...)
				if err != nil {
					break
				}
			}
			conn.Close()
			out.sDone = true
		})
		s.Spawn("mitm-c2s"+tag, 2, c2s.run)
		s.Spawn("mitm-s2c"+tag, 2, s2c.run)
		s.Spawn("join"+tag, 2, func() {
			s.WaitFlag(cdone)
			s.WaitFlag(sdone)
			done.Set()
		})
	}
	var e1, e2 ends
	d1, d2 := &simkit.Flag{Name: "d1"}, &simkit.Flag{Name: "d2"}
	if twoSessions {
		session("1", nil, nil, &e1, d1)
		s.Spawn("driver", 3, func() {
			s.WaitFlag(d1)
			session("2", rw, &e1, &e2, d2)
		})
	} else {
		session("2", rw, nil, &e2, d2)
	}
	s.Run()
	r.FromSim(s)
	r.Sig(s.TraceHash()[0])
	applied := e2.rel[0] != nil && (e2.rel[0].applied || e2.rel[1].applied)
	changed := e2.rel[0] != nil && (e2.rel[0].changed || e2.rel[1].changed)
	r.Nontrivial = changed
	if applied {
		r.Fault(idx(authItems, rw.Kind))
		msgType := -1
		rel := e2.rel[rw.Dir]
		if rw.Index < len(rel.seen) {
			msgType = int(rel.seen[rw.Index][0])
		}
		switch msgType {
		case reftls.HsClientHello:
			r.Reach(idx(authReach, "rewrite-clienthello"))
		case reftls.HsServerHello:
			r.Reach(idx(authReach, "rewrite-serverhello"))
		case reftls.HsCertificate:
			r.Reach(idx(authReach, "rewrite-certificate"))
		case reftls.HsServerKeyExchange:
			r.Reach(idx(authReach, "rewrite-skx"))
		case reftls.HsClientKeyExchange:
			r.Reach(idx(authReach, "rewrite-ckx"))
		case reftls.HsNewSessionTicket:
			r.Reach(idx(authReach, "rewrite-new-session-ticket"))
		default:
			r.Reach(idx(authReach, "rewrite-other"))
		}
		r.Sig(uint64(msgType + 1))
	}
	if resumeFirst && (e2.c.State.DidResume || e2.sv.State.DidResume) {
		r.Reach(idx(authReach, "mitm-abbreviated-handshake"))
	}
	site := "mitm/" + rw.Kind
	r.Detail = map[string]interface{}{"tickets": tickets, "resume_first": resumeFirst, "rewrite": rw.Kind, "dir": rw.Dir, "index": rw.Index, "client_auth": clientAuth, "suites": fmt.Sprintf("%x", suiteList), "applied": applied, "changed": changed,
		"client_err": errStr(e2.c.HsErr), "server_err": errStr(e2.sv.HsErr), "client_complete": e2.c.HsDone, "server_complete": e2.sv.HsDone}
	s.TaskPanics(r)
	if r.Violation() != nil || r.HarnessErr != "" {
		return
	}
	if s.Reason == simkit.StopBudget {
		r.Violate("no-progress", site, fmt.Sprintf("step budget exhausted: %v", s.Blocked))
		return
	}
	if twoSessions && (e1.c.HsErr != nil || e1.sv.HsErr != nil) {
		r.Violate("benign-failed", site, fmt.Sprintf("untouched first session failed: %v / %v", e1.c.HsErr, e1.sv.HsErr))
		return
	}
	// the two ends' views of the handshake: what each sent and received before CCS
	view := func(p *simkit.Pipe) [][]byte {
		recs, _ := reftls.ParseRecords(p.Captured())
		var buf []byte
		for _, rc := range recs {
			if rc.Type == reftls.RecCCS {
				break
			}
			if rc.Type == reftls.RecHandshake {
				buf = append(buf, rc.Body...)
			}
		}
		msgs, _ := reftls.SplitHandshake(buf)
		var out [][]byte
		for _, m := range msgs {
			out = append(out, m.Raw)
		}
		return out
	}
	same := func(a, b [][]byte) bool {
		if len(a) != len(b) {
			return false
		}
		for i := range a {
			if !bytes.Equal(a[i], b[i]) {
				return false
			}
		}
		return true
	}
	both := e2.c.HsDone && e2.sv.HsDone
	if both {
		r.Reach(idx(authReach, "views-compared"))
		if !same(view(e2.taps[0]), view(e2.taps[2])) || !same(view(e2.taps[3]), view(e2.taps[1])) {
			r.Violate("split-view", site, fmt.Sprintf("both ends completed although the man in the middle changed the handshake (%s on message %d of direction %d): the messages one end sent are not the messages the other received", rw.Kind, rw.Index, rw.Dir))
			return
		}
		if !changed {
			if string(e2.sApp) != "client data" || string(e2.cApp) != "server data" {
				r.Violate("data-mismatch", site, "transcript untouched, both completed, but application data did not arrive")
				return
			}
			r.Reach(idx(authReach, "mitm-noop-completed"))
			r.Outcome = "untouched-completed"
			return
		}
		r.Violate("split-view", site, "both ends completed although a handshake message was changed in transit")
		return
	}
	if !changed && (rw.Kind == "M7-refragment(legal)" || !applied) {
		if !e2.cDone || !e2.sDone || e2.c.HsErr != nil || e2.sv.HsErr != nil {
			r.Violate("benign-failed", site, fmt.Sprintf("nothing in the transcript was changed (%s, applied=%v) but the handshake failed: client=%v server=%v", rw.Kind, applied, e2.c.HsErr, e2.sv.HsErr))
			return
		}
	}
	// at least one end did not complete. The end that completed (if any) must not
	// have accepted application data produced by the attacker: the attacker
	// forwards only what the other honest end sent, so any data it holds is genuine.
	if e2.c.HsDone || e2.sv.HsDone {
		r.Reach(idx(authReach, "mitm-one-failed"))
	} else {
		r.Reach(idx(authReach, "mitm-both-failed"))
	}
	r.Outcome = "aborted"
	_ = io.EOF
}

// ---- plain TLS path: the Go standard library's crypto/tls as the peer whose
// credentials lack something (certificate-level items only: the standard
// library cannot be made to forge protocol messages).

func runAuthStdPeer(c *simkit.Choice, r *simkit.Rec) {
	pki.Load()
	items := []string{"T0-honest", "T1-wrong-name", "T2-untrusted-root", "T3-client-cert-untrusted", "T4-no-client-cert", "T5-client-cert-if-given-untrusted", "T6-ip-literal-name"}
	item := items[c.Choose(len(items), simkit.LFault)]
	vers := []uint16{gmtls.VersionTLS12, gmtls.VersionTLS11, gmtls.VersionTLS10}[c.Choose(3, simkit.LScen)]
	suite := uint16(0x002f)
	if vers == gmtls.VersionTLS12 && c.Bool(1, 2, simkit.LScen) {
		suite = 0xc02f
	}
	victimSrv := item == "T3-client-cert-untrusted" || item == "T4-no-client-cert" || item == "T5-client-cert-if-given-untrusted"
	if item == "T0-honest" {
		victimSrv = c.Bool(1, 2, simkit.LScen)
	}
	autoSwitch := victimSrv && c.Bool(1, 2, simkit.LScen)
	expect := expFail
	if item == "T0-honest" {
		expect = expComplete
	}
	entV := simkit.NewStream(uint64(c.Choose(1<<31, simkit.LEntropy)) + 81)
	entP := simkit.NewStream(uint64(c.Choose(1<<31, simkit.LEntropy)) + 83)
	n1, n2 := simkit.DrawNetCfg(c), simkit.DrawNetCfg(c)
	s := simkit.NewSim(c, simkit.Policy{StarveNode: -1}, 3000000)
	vRaw, pRaw := s.NewConnPair("victim", "stdpeer", n1, n2)
	r.Config = fmt.Sprintf("%s/tls%04x/%04x/auto%v", item, vers, suite, autoSwitch)
	r.SigStr(r.Config)
	var victim endRes
	var vApp []byte
	vDone := false
	var peerErr error
	s.Spawn("victim", 0, func() {
		var conn *gmtls.Conn
		if victimSrv {
			var cfg *gmtls.Config
			if autoSwitch {
				sg, en, st := pki.GM("srv-sign"), pki.GM("srv-enc"), pki.GMStd("tlsrsa")
				cfg, _ = gmtls.NewBasicAutoSwitchConfig(&sg, &en, &st)
			} else {
				cfg = &gmtls.Config{Certificates: []gmtls.Certificate{pki.GMStd("tlsrsa")}}
			}
			cfg.Rand, cfg.Time = entV, simTime(s, 0)
			cfg.ClientCAs = pki.Pool("rsaCA")
			cfg.ClientAuth = gmtls.RequireAndVerifyClientCert
			switch item {
			case "T4-no-client-cert":
				cfg.ClientAuth = []gmtls.ClientAuthType{gmtls.RequireAndVerifyClientCert, gmtls.RequireAnyClientCert}[c.Choose(2, simkit.LFault)]
			case "T5-client-cert-if-given-untrusted":
				cfg.ClientAuth = gmtls.VerifyClientCertIfGiven
			}
			cfg.SessionTicketsDisabled = true
			conn = gmtls.Server(vRaw, cfg)
		} else {
			cfg := &gmtls.Config{Rand: entV, Time: simTime(s, 0), RootCAs: pki.Pool("rsaCA"), ServerName: "server.sim", CipherSuites: []uint16{suite}, MinVersion: vers, MaxVersion: vers}
			switch item {
			case "T2-untrusted-root":
				cfg.RootCAs = pki.Pool("caA")
			case "T6-ip-literal-name":
				cfg.ServerName = "192.0.2.9"
			}
			conn = gmtls.Client(vRaw, cfg)
		}
		victim.HsErr = conn.Handshake()
		collectState(conn, &victim)
		if victim.HsErr != nil {
			vRaw.Close()
			vDone = true
			return
		}
		buf := make([]byte, 64)
		for {
			n, err := conn.Read(buf)
			vApp = append(vApp, buf[:n]...)
			if err != nil {
				break
			}
		}
		conn.Close()
		vDone = true
	})
	s.Spawn("stdpeer", 1, func() {
		cfg := &tls.Config{Rand: entP, Time: func() time.Time { return simkit.TimeAt(0) }, MinVersion: vers, MaxVersion: vers, CipherSuites: []uint16{suite}, SessionTicketsDisabled: true}
		var conn *tls.Conn
		if victimSrv {
			cfg.RootCAs = pki.StdPool("rsaCA")
			cfg.ServerName = "server.sim"
			switch item {
			case "T0-honest":
				cfg.Certificates = []tls.Certificate{{Certificate: [][]byte{pki.DER("tlsclirsa")}, PrivateKey: pki.StdKey("tlsclirsa")}}
			case "T3-client-cert-untrusted", "T5-client-cert-if-given-untrusted":
				// an RSA certificate issued by the SM2 root: not under the server's ClientCAs
				cfg.Certificates = []tls.Certificate{{Certificate: [][]byte{pki.DER("srvrsa")}, PrivateKey: pki.StdKey("srvrsa")}}
				cfg.GetClientCertificate = func(*tls.CertificateRequestInfo) (*tls.Certificate, error) { return &cfg.Certificates[0], nil }
			}
			conn = tls.Client(pRaw, cfg)
		} else {
			name := "tlsrsa"
			if item == "T1-wrong-name" {
				name = "tlsrsa2"
			}
			cfg.Certificates = []tls.Certificate{{Certificate: [][]byte{pki.DER(name)}, PrivateKey: pki.StdKey(name)}}
			conn = tls.Server(pRaw, cfg)
		}
		peerErr = conn.Handshake()
		if peerErr == nil {
			conn.Write([]byte("peer speaks"))
			conn.Close()
		}
		pRaw.Close()
	})
	s.Run()
	r.FromSim(s)
	r.Sig(s.TraceHash()[0])
	r.Nontrivial = expect == expFail
	r.Fault(idx(authItems, item))
	r.Detail = map[string]interface{}{"item": item, "victim": map[bool]string{true: "server", false: "client"}[victimSrv], "tls_version": fmt.Sprintf("%04x", vers), "suite": fmt.Sprintf("%04x", suite), "auto_switch": autoSwitch,
		"victim_err": errStr(victim.HsErr), "peer_err": errStr(peerErr)}
	s.TaskPanics(r)
	if r.Violation() != nil || r.HarnessErr != "" {
		return
	}
	if !vDone {
		r.Violate("keeps-waiting", item, fmt.Sprintf("victim did not return: %v", s.Blocked))
		return
	}
	if expect == expFail {
		if victim.HsErr == nil || victim.HsDone {
			r.Violate("impostor-accepted", item, fmt.Sprintf("TLS %04x victim %s completed the handshake with a peer lacking a credential: %s", vers, r.Detail["victim"], item))
			return
		}
		if len(vApp) > 0 {
			r.Violate("impostor-accepted", item, "application data accepted from the peer")
			return
		}
		r.Reach(idx(authReach, "victim-rejected"))
		r.Outcome = "rejected"
		return
	}
	if victim.HsErr != nil || peerErr != nil {
		r.Violate("honest-peer-rejected", item, fmt.Sprintf("honest standard-library peer rejected: victim=%v peer=%v", victim.HsErr, peerErr))
		return
	}
	r.Reach(idx(authReach, "honest-completed"))
	r.Outcome = "completed"
}
