package scen

import (
	"bytes"
	"crypto/aes"
	"crypto/cipher"
	"crypto/des"
	"fmt"
	"io"

	"github.com/tjfoc/gmsm/sm4/padding"
	"github.com/tjfoc/gmsm/verifsim/ref/refpad"
	"github.com/tjfoc/gmsm/verifsim/simkit"
)

// C19: streaming PKCS#7 helpers fed by simulated sources and sinks.

var padFaults = []string{"short-read", "one-byte-read", "zero-byte-read", "eof-with-data", "source-error", "source-error-with-data", "sink-error", "sink-short-write", "invalid-final-block", "big-write"}
var padReach = []string{"reader-eof-then-eof-again", "reader-len-multiple-of-bs", "reader-empty-source", "writer-final-ok", "writer-final-rejected", "encdec-roundtrip", "enc-matches-reference", "short-read-before-eof", "error-surfaced", "prefix-under-fault", "write-gt-1k", "dec-invalid-rejected"}

func init() {
	register(Family{Name: "padstream", Prop: "C19", ID: 1901, Weight: 3, FaultNames: padFaults, ReachNames: padReach, Run: runPadBenign})
	register(Family{Name: "padstream-ioerr", Prop: "C19", ID: 1902, Weight: 1, FaultNames: padFaults, ReachNames: padReach, Run: runPadFault})
}

func drawLen(c *simkit.Choice, bs int) int {
	switch c.Weighted([]int{3, 4, 2, 2}, simkit.LScen) {
	case 0:
		return c.Range(0, 40, simkit.LScen)
	case 1:
		k := c.Range(0, 5000/bs, simkit.LScen)
		v := k*bs + c.Range(-1, 1, simkit.LScen)
		if v < 0 {
			v = 0
		}
		if v > 5000 {
			v = 5000
		}
		return v
	case 2:
		v := 1024*c.Range(1, 4, simkit.LScen) + c.Range(-2, 2, simkit.LScen)
		if v > 5000 {
			v = 5000
		}
		return v
	}
	return c.Range(0, 5000, simkit.LScen)
}

func drawData(c *simkit.Choice, n int) []byte {
	// content from a local stream seeded by one draw (keeps traces short)
	st := simkit.NewStream(uint64(c.Choose(1<<31, simkit.LData)) + 1)
	b := make([]byte, n)
	// Stream answers 1-byte reads with a constant; read 2+ bytes at a time.
	if n == 1 {
		var t [2]byte
		st.Read(t[:])
		b[0] = t[0]
	} else if n > 1 {
		st.Read(b)
	}
	return b
}

func drawBufSize(c *simkit.Choice, max int) int {
	switch c.Weighted([]int{3, 2, 2, 2}, simkit.LIO) {
	case 0:
		return []int{1024, 16, 4096, 512, 64}[c.Choose(5, simkit.LIO)]
	case 1:
		return c.Range(1, 33, simkit.LIO)
	case 2:
		return 1
	}
	return c.Range(1, max, simkit.LIO)
}

func newSource(c *simkit.Choice, data []byte, r *simkit.Rec) *simkit.Source {
	s := &simkit.Source{C: c, Data: data, FailAt: -1}
	// swarm: each behaviour enabled per run
	if c.Bool(1, 2, simkit.LIO) {
		s.PShort = []int{100, 500, 900}[c.Choose(3, simkit.LIO)]
	}
	if c.Bool(1, 3, simkit.LIO) {
		s.POne = []int{50, 300, 1000}[c.Choose(3, simkit.LIO)]
	}
	if c.Bool(1, 8, simkit.LIO) {
		s.PZero = 30
	}
	s.EOFWith = c.Bool(1, 3, simkit.LIO)
	return s
}

func countSource(s *simkit.Source, r *simkit.Rec) {
	r.FaultN(idx(padFaults, "short-read"), s.NShort)
	r.FaultN(idx(padFaults, "one-byte-read"), s.NOne)
	r.FaultN(idx(padFaults, "zero-byte-read"), s.NZero)
	r.FaultN(idx(padFaults, "eof-with-data"), s.NEOFData)
	if s.NShort+s.NOne > 0 {
		r.Reach(idx(padReach, "short-read-before-eof"))
	}
}

func firstDiff(a, b []byte) int {
	n := len(a)
	if len(b) < n {
		n = len(b)
	}
	for i := 0; i < n; i++ {
		if a[i] != b[i] {
			return i
		}
	}
	if len(a) != len(b) {
		return n
	}
	return -1
}

// drainReader reads rd to EOF with drawn buffer sizes; returns bytes, error.
func drainReader(c *simkit.Choice, rd io.Reader, limit int, r *simkit.Rec, site string) ([]byte, error, bool) {
	var out []byte
	buf := make([]byte, 4096)
	zero := 0
	for iter := 0; ; iter++ {
		if iter > limit {
			r.Violate("no-progress", site, fmt.Sprintf("no EOF after %d reads (%d bytes so far)", iter, len(out)))
			return out, nil, false
		}
		bsz := drawBufSize(c, 4096)
		r.Sig(uint64(bsz))
		b := buf[:bsz]
		n, err := rd.Read(b)
		if n < 0 || n > len(b) {
			r.Violate("bad-count", site, fmt.Sprintf("Read returned n=%d for a %d-byte buffer", n, len(b)))
			return out, err, false
		}
		out = append(out, b[:n]...)
		if err == io.EOF {
			return out, nil, true
		}
		if err != nil {
			return out, err, true
		}
		if n == 0 {
			zero++
			if zero > 200 {
				r.Violate("no-progress", site, "more than 200 consecutive (0,nil) reads")
				return out, nil, false
			}
		} else {
			zero = 0
		}
	}
}

func padReaderRun(c *simkit.Choice, r *simkit.Rec, fault bool) {
	bs := []int{16, 8}[c.Choose(2, simkit.LScen)]
	L := drawLen(c, bs)
	data := drawData(c, L)
	src := newSource(c, data, r)
	if fault {
		src.FailAt = c.Range(0, L, simkit.LFault)
		src.FailWith = c.Bool(1, 2, simkit.LFault)
	}
	r.Config = fmt.Sprintf("reader/bs%d", bs)
	r.Sig(uint64(L)<<8 | uint64(bs))
	want := refpad.Pad(data, bs)
	rd := padding.NewPKCS7PaddingReader(src, bs)
	got, err, ok := drainReader(c, rd, 4*len(want)+600, r, "PKCS7PaddingReader.Read")
	countSource(src, r)
	r.Detail = map[string]interface{}{"mode": "reader", "bs": bs, "len": L, "src_reads": src.NRead, "short": src.NShort, "one": src.NOne, "zero": src.NZero, "eof_with_data": src.NEOFData, "fail_at": src.FailAt}
	if !ok {
		return
	}
	if L%bs == 0 {
		r.Reach(idx(padReach, "reader-len-multiple-of-bs"))
	}
	if L == 0 {
		r.Reach(idx(padReach, "reader-empty-source"))
	}
	if fault && src.Failed {
		if src.FailWith {
			r.Fault(idx(padFaults, "source-error-with-data"))
		} else {
			r.Fault(idx(padFaults, "source-error"))
		}
		if err == nil {
			r.Violate("error-swallowed", "PKCS7PaddingReader.Read", fmt.Sprintf("source failed at offset %d of %d but the reader reported a clean EOF after %d bytes", src.FailAt, L, len(got)))
			return
		}
		r.Reach(idx(padReach, "error-surfaced"))
		// narrow relaxation: what was emitted is a prefix of the data (no pad, no garbage)
		if len(got) > src.Consumed() || !bytes.Equal(got, data[:len(got)]) {
			r.Violate("not-prefix-under-fault", "PKCS7PaddingReader.Read", fmt.Sprintf("after injected error at %d: emitted %d bytes that are not a prefix of the source (first diff %d)", src.FailAt, len(got), firstDiff(got, data)))
			return
		}
		r.Reach(idx(padReach, "prefix-under-fault"))
		r.Outcome = "error-surfaced"
		return
	}
	if err != nil {
		r.Violate("spurious-error", "PKCS7PaddingReader.Read", "error without injected fault: "+err.Error())
		return
	}
	if d := firstDiff(got, want); d >= 0 {
		r.Violate("stream-mismatch", "PKCS7PaddingReader.Read", fmt.Sprintf("bs=%d len=%d: output (%d bytes) differs from src||pad (%d bytes) at offset %d", bs, L, len(got), len(want), d))
		return
	}
	// EOF forever
	for i := 0; i < 3; i++ {
		var b [7]byte
		n, e := rd.Read(b[:])
		if n != 0 || e != io.EOF {
			r.Violate("data-after-eof", "PKCS7PaddingReader.Read", fmt.Sprintf("Read after EOF returned (%d,%v)", n, e))
			return
		}
	}
	r.Reach(idx(padReach, "reader-eof-then-eof-again"))
	r.Outcome = "ok"
}

func drawWriteSize(c *simkit.Choice, rem int) int {
	var n int
	switch c.Weighted([]int{3, 2, 2, 2, 1}, simkit.LIO) {
	case 0:
		n = 1024
	case 1:
		n = c.Range(1, 40, simkit.LIO)
	case 2:
		n = c.Range(1, 8192, simkit.LIO)
	case 3:
		n = []int{16, 8, 1, 1040, 1041, 2048, 8192}[c.Choose(7, simkit.LIO)]
	default:
		n = rem
	}
	if n > rem {
		n = rem
	}
	if n < 1 {
		n = 1
	}
	return n
}

// feedWriter writes stream into w in drawn sizes.
func feedWriter(c *simkit.Choice, w io.Writer, stream []byte, r *simkit.Rec, site string) (error, bool) {
	off := 0
	for off < len(stream) {
		n := drawWriteSize(c, len(stream)-off)
		r.Sig(uint64(n))
		if n > 1040 {
			r.Fault(idx(padFaults, "big-write"))
			r.Reach(idx(padReach, "write-gt-1k"))
		}
		m, err := w.Write(stream[off : off+n])
		if err != nil {
			return err, true
		}
		if m != n {
			r.Violate("bad-count", site, fmt.Sprintf("Write of %d bytes returned (%d,nil)", n, m))
			return nil, false
		}
		off += n
	}
	return nil, true
}

type finaler interface {
	io.Writer
	Final() error
}

func padWriterRun(c *simkit.Choice, r *simkit.Rec, fault bool) {
	bs := []int{16, 8}[c.Choose(2, simkit.LScen)]
	L := drawLen(c, bs)
	data := drawData(c, L)
	stream := refpad.Pad(data, bs)
	invalid := 0
	if !fault && c.Bool(1, 4, simkit.LScen) {
		invalid = 1 + c.Choose(5, simkit.LFault)
		switch invalid {
		case 1: // last byte 0
			stream[len(stream)-1] = 0
		case 2: // last byte > bs
			stream[len(stream)-1] = byte(bs + 1 + c.Choose(255-bs, simkit.LFault))
		case 3: // inconsistent pad bytes: need pad length >= 2
			k := int(stream[len(stream)-1])
			if k < 2 {
				// extend: make a 2+ pad by rewriting the last block fully
				k = 2 + c.Choose(bs-1, simkit.LFault)
				for i := 0; i < k; i++ {
					stream[len(stream)-1-i] = byte(k)
				}
			}
			j := 1 + c.Choose(k-1, simkit.LFault) // position within pad, not the last byte
			stream[len(stream)-1-j] ^= byte(1 + c.Choose(255, simkit.LFault))
		case 4: // missing bytes: length not a multiple of bs
			cut := 1 + c.Choose(bs-1, simkit.LFault)
			stream = stream[:len(stream)-cut]
		case 5: // empty stream
			stream = stream[:0]
		}
		r.Fault(idx(padFaults, "invalid-final-block"))
	}
	sink := &simkit.Sink{FailAt: -1}
	if fault {
		sink.FailAt = c.Range(0, L, simkit.LFault)
		sink.Short = c.Bool(1, 2, simkit.LFault)
	}
	r.Config = fmt.Sprintf("writer/bs%d/invalid%d", bs, invalid)
	r.Sig(uint64(L)<<16 | uint64(bs)<<8 | uint64(invalid))
	r.Detail = map[string]interface{}{"mode": "writer", "bs": bs, "len": L, "invalid_kind": invalid, "stream_len": len(stream), "sink_fail_at": sink.FailAt}
	w := padding.NewPKCS7PaddingWriter(sink, bs)
	werr, ok := feedWriter(c, w, stream, r, "PKCS7PaddingWriter.Write")
	if !ok {
		return
	}
	var ferr error
	if werr == nil {
		ferr = w.Final()
	}
	err := werr
	if err == nil {
		err = ferr
	}
	if fault {
		if sink.Failed {
			if sink.Short {
				r.Fault(idx(padFaults, "sink-short-write"))
			} else {
				r.Fault(idx(padFaults, "sink-error"))
			}
			if err == nil {
				r.Violate("error-swallowed", "PKCS7PaddingWriter", fmt.Sprintf("sink failed at %d but Write/Final reported success", sink.FailAt))
				return
			}
			r.Reach(idx(padReach, "error-surfaced"))
		} else if err != nil {
			r.Violate("spurious-error", "PKCS7PaddingWriter", "error without sink failure: "+err.Error())
			return
		}
		if len(sink.Buf) > len(data) || !bytes.Equal(sink.Buf, data[:len(sink.Buf)]) {
			r.Violate("not-prefix-under-fault", "PKCS7PaddingWriter", fmt.Sprintf("sink received %d bytes that are not a prefix of the original (first diff %d)", len(sink.Buf), firstDiff(sink.Buf, data)))
			return
		}
		r.Reach(idx(padReach, "prefix-under-fault"))
		r.Outcome = "fault-handled"
		return
	}
	if invalid != 0 {
		if err == nil {
			r.Violate("invalid-pad-accepted", "PKCS7PaddingWriter.Final", fmt.Sprintf("bs=%d stream of %d bytes with invalid final block (kind %d: 1=zero 2=>bs 3=inconsistent 4=short 5=empty) accepted; tail=% x", bs, len(stream), invalid, tail(stream, bs)))
			return
		}
		// never garbage: emitted bytes are a prefix of the stream fed
		if len(sink.Buf) > len(stream) || !bytes.Equal(sink.Buf, stream[:len(sink.Buf)]) {
			r.Violate("garbage-emitted", "PKCS7PaddingWriter", "bytes emitted before rejecting are not a prefix of the input")
			return
		}
		r.Reach(idx(padReach, "writer-final-rejected"))
		r.Outcome = "rejected"
		return
	}
	if err != nil {
		r.Violate("valid-pad-rejected", "PKCS7PaddingWriter", fmt.Sprintf("bs=%d len=%d: %v", bs, L, err))
		return
	}
	if d := firstDiff(sink.Buf, data); d >= 0 {
		r.Violate("stream-mismatch", "PKCS7PaddingWriter", fmt.Sprintf("bs=%d len=%d: sink got %d bytes, differs from original at %d", bs, L, len(sink.Buf), d))
		return
	}
	r.Reach(idx(padReach, "writer-final-ok"))
	r.Outcome = "ok"
}

func tail(b []byte, n int) []byte {
	if len(b) <= n {
		return b
	}
	return b[len(b)-n:]
}

func mkBlock(c *simkit.Choice, bs int) (cipher.Block, []byte) {
	key := drawData(c, 24)
	iv := drawData(c, bs)
	var blk cipher.Block
	var err error
	if bs == 16 {
		blk, err = aes.NewCipher(key[:16])
	} else {
		blk, err = des.NewCipher(key[:8])
	}
	if err != nil {
		panic(err)
	}
	return blk, iv
}

func padEncDecRun(c *simkit.Choice, r *simkit.Rec, fault bool) {
	bs := []int{16, 8}[c.Choose(2, simkit.LScen)]
	L := drawLen(c, bs)
	data := drawData(c, L)
	blk, iv := mkBlock(c, bs)
	r.Config = fmt.Sprintf("encdec/bs%d", bs)
	r.Sig(uint64(L)<<8 | uint64(bs) | 1<<40)
	// reference ciphertext
	padded := refpad.Pad(data, bs)
	wantCT := make([]byte, len(padded))
	cipher.NewCBCEncrypter(blk, iv).CryptBlocks(wantCT, padded)

	src := newSource(c, data, r)
	sink := &simkit.Sink{FailAt: -1}
	faultStage := 0
	if fault {
		faultStage = 1 + c.Choose(4, simkit.LFault)
		switch faultStage {
		case 1:
			src.FailAt = c.Range(0, L, simkit.LFault)
			src.FailWith = c.Bool(1, 2, simkit.LFault)
		case 2:
			sink.FailAt = c.Range(0, len(wantCT)-1, simkit.LFault)
		}
	}
	r.Detail = map[string]interface{}{"mode": "encdec", "bs": bs, "len": L, "fault_stage": faultStage}
	err := padding.P7BlockEnc(cipher.NewCBCEncrypter(blk, iv), src, sink)
	countSource(src, r)
	if faultStage == 1 || faultStage == 2 {
		fired := src.Failed || sink.Failed
		if src.Failed {
			r.Fault(idx(padFaults, "source-error"))
		}
		if sink.Failed {
			r.Fault(idx(padFaults, "sink-error"))
		}
		if fired && err == nil {
			r.Violate("error-swallowed", "P7BlockEnc", "injected I/O error but P7BlockEnc returned nil")
			return
		}
		if !fired && err != nil {
			r.Violate("spurious-error", "P7BlockEnc", err.Error())
			return
		}
		if fired {
			r.Reach(idx(padReach, "error-surfaced"))
			if len(sink.Buf) > len(wantCT) || !bytes.Equal(sink.Buf, wantCT[:len(sink.Buf)]) {
				r.Violate("not-prefix-under-fault", "P7BlockEnc", fmt.Sprintf("ciphertext emitted before the error (%d bytes) is not a prefix of the fault-free ciphertext (diff at %d)", len(sink.Buf), firstDiff(sink.Buf, wantCT)))
				return
			}
			r.Reach(idx(padReach, "prefix-under-fault"))
			r.Outcome = "enc-fault-handled"
			return
		}
	}
	if err != nil {
		r.Violate("spurious-error", "P7BlockEnc", err.Error())
		return
	}
	if d := firstDiff(sink.Buf, wantCT); d >= 0 {
		r.Violate("stream-mismatch", "P7BlockEnc", fmt.Sprintf("bs=%d len=%d: ciphertext (%d bytes) differs from CBC(src||pad) (%d bytes) at %d", bs, L, len(sink.Buf), len(wantCT), d))
		return
	}
	r.Reach(idx(padReach, "enc-matches-reference"))

	// decrypt through the helper with an independently chunked source
	ct := append([]byte(nil), sink.Buf...)
	tamper := 0
	if !fault && c.Bool(1, 5, simkit.LScen) {
		// make the final block's padding invalid by corrupting the plaintext pad:
		// re-encrypt a stream whose last block is invalid
		bad := append([]byte(nil), padded...)
		tamper = 1 + c.Choose(3, simkit.LFault)
		switch tamper {
		case 1:
			bad[len(bad)-1] = 0
		case 2:
			bad[len(bad)-1] = byte(bs + 1 + c.Choose(200, simkit.LFault))
		case 3:
			bad = bad[:len(bad)-bs] // whole final block missing: plaintext ends without pad
			if len(bad) >= bs {
				// ensure last byte is not accidentally a valid pad
				bad[len(bad)-1] = 0
			}
		}
		ct = make([]byte, len(bad))
		cipher.NewCBCEncrypter(blk, iv).CryptBlocks(ct, bad)
		r.Fault(idx(padFaults, "invalid-final-block"))
	}
	src2 := newSource(c, ct, r)
	sink2 := &simkit.Sink{FailAt: -1}
	switch faultStage {
	case 3:
		src2.FailAt = c.Range(0, len(ct), simkit.LFault)
		src2.FailWith = c.Bool(1, 2, simkit.LFault)
	case 4:
		sink2.FailAt = c.Range(0, L, simkit.LFault)
	}
	err = padding.P7BlockDecrypt(cipher.NewCBCDecrypter(blk, iv), src2, sink2)
	countSource(src2, r)
	if faultStage == 3 || faultStage == 4 {
		fired := src2.Failed || sink2.Failed
		if src2.Failed {
			r.Fault(idx(padFaults, "source-error"))
		}
		if sink2.Failed {
			r.Fault(idx(padFaults, "sink-error"))
		}
		if fired && err == nil {
			r.Violate("error-swallowed", "P7BlockDecrypt", "injected I/O error but P7BlockDecrypt returned nil")
			return
		}
		if !fired && err != nil {
			r.Violate("spurious-error", "P7BlockDecrypt", err.Error())
			return
		}
		if fired {
			r.Reach(idx(padReach, "error-surfaced"))
		}
		if len(sink2.Buf) > len(data) || !bytes.Equal(sink2.Buf, data[:len(sink2.Buf)]) {
			r.Violate("not-prefix-under-fault", "P7BlockDecrypt", fmt.Sprintf("plaintext emitted (%d bytes) is not a prefix of the original (diff at %d)", len(sink2.Buf), firstDiff(sink2.Buf, data)))
			return
		}
		if fired {
			r.Reach(idx(padReach, "prefix-under-fault"))
			r.Outcome = "dec-fault-handled"
			return
		}
	}
	if tamper != 0 {
		if err == nil {
			r.Violate("invalid-pad-accepted", "P7BlockDecrypt", fmt.Sprintf("bs=%d len=%d tamper kind %d (1=zero 2=>bs 3=no pad block) decrypted without error", bs, L, tamper))
			return
		}
		r.Reach(idx(padReach, "dec-invalid-rejected"))
		r.Outcome = "dec-rejected"
		return
	}
	if err != nil {
		r.Violate("spurious-error", "P7BlockDecrypt", err.Error())
		return
	}
	if d := firstDiff(sink2.Buf, data); d >= 0 {
		r.Violate("roundtrip-mismatch", "P7BlockDecrypt", fmt.Sprintf("bs=%d len=%d: decrypted stream (%d bytes) differs from the original at %d", bs, L, len(sink2.Buf), d))
		return
	}
	r.Reach(idx(padReach, "encdec-roundtrip"))
	r.Outcome = "ok"
}

func runPadBenign(c *simkit.Choice, r *simkit.Rec) {
	simkit.Guard(r, func() {
		switch c.Choose(3, simkit.LScen) {
		case 0:
			padReaderRun(c, r, false)
		case 1:
			padWriterRun(c, r, false)
		case 2:
			padEncDecRun(c, r, false)
		}
	})
	r.Nontrivial = true
}

func runPadFault(c *simkit.Choice, r *simkit.Rec) {
	simkit.Guard(r, func() {
		switch c.Choose(3, simkit.LScen) {
		case 0:
			padReaderRun(c, r, true)
		case 1:
			padWriterRun(c, r, true)
		case 2:
			padEncDecRun(c, r, true)
		}
	})
}
