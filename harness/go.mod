module github.com/tjfoc/gmsm/verifsim

go 1.18
