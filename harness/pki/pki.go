// Package pki loads the committed fixture PKI (/verif/fixtures, generated with
// OpenSSL). Nothing is generated at run time: certificate signing in gmsm draws
// from crypto/rand directly and would make runs irreproducible.
package pki

import (
	"crypto"
	stdx509 "crypto/x509"
	"encoding/asn1"
	"encoding/pem"
	"fmt"
	"math/big"
	"os"
	"path/filepath"
	"sort"
	"strings"

	"github.com/tjfoc/gmsm/gmtls"
	"github.com/tjfoc/gmsm/sm2"
	"github.com/tjfoc/gmsm/x509"
)

var (
	ders  = map[string][]byte{}
	keys  = map[string][]byte{} // PKCS#8 DER
	certs = map[string]*x509.Certificate{}
	names []string
)

// Dir returns the fixture directory.
func Dir() string {
	if d := os.Getenv("VERIF_FIXTURES"); d != "" {
		return d
	}
	return "/verif/fixtures"
}

// Load reads all fixtures; it panics on any problem (harness error).
func Load() {
	if len(ders) > 0 {
		return
	}
	files, _ := filepath.Glob(filepath.Join(Dir(), "*.pem"))
	sort.Strings(files)
	for _, f := range files {
		b, err := os.ReadFile(f)
		if err != nil {
			panic(err)
		}
		blk, _ := pem.Decode(b)
		if blk == nil {
			panic("pki: no PEM in " + f)
		}
		base := filepath.Base(f)
		switch {
		case strings.HasSuffix(base, ".cert.pem"):
			n := strings.TrimSuffix(base, ".cert.pem")
			ders[n] = blk.Bytes
			names = append(names, n)
		case strings.HasSuffix(base, ".key.pem"):
			keys[strings.TrimSuffix(base, ".key.pem")] = blk.Bytes
		}
	}
	if len(ders) == 0 {
		panic("pki: no fixtures in " + Dir())
	}
	// warm every cache now, outside any simulation: a lazily filled cache would
	// make the number of simulation points of a run depend on earlier runs.
	for _, n := range names {
		Cert(n)
	}
	for n := range keys {
		if _, err := stdx509.ParsePKCS8PrivateKey(keys[n]); err != nil {
			sm2keys[n] = SM2Key(n)
		}
	}
}

var sm2keys = map[string]*sm2.PrivateKey{}

// DER returns the certificate DER.
func DER(name string) []byte {
	Load()
	d, ok := ders[name]
	if !ok {
		panic("pki: no certificate " + name)
	}
	return d
}

// Cert returns the certificate parsed by gmsm's x509 (cached; parse happens
// outside simulation).
func Cert(name string) *x509.Certificate {
	if len(ders) == 0 {
		Load()
	}
	if c, ok := certs[name]; ok {
		return c
	}
	c, err := x509.ParseCertificate(DER(name))
	if err != nil {
		panic(fmt.Sprintf("pki: gmsm cannot parse fixture %s: %v", name, err))
	}
	certs[name] = c
	return c
}

type pkcs8 struct {
	Version int
	Algo    struct {
		Algorithm  asn1.ObjectIdentifier
		Parameters asn1.RawValue `asn1:"optional"`
	}
	PrivateKey []byte
}

type ecPrivateKey struct {
	Version       int
	PrivateKey    []byte
	NamedCurveOID asn1.ObjectIdentifier `asn1:"optional,explicit,tag:0"`
	PublicKey     asn1.BitString        `asn1:"optional,explicit,tag:1"`
}

// D returns the raw SM2 private scalar of a fixture key.
func D(name string) *big.Int {
	Load()
	k, ok := keys[name]
	if !ok {
		panic("pki: no key " + name)
	}
	var p pkcs8
	if _, err := asn1.Unmarshal(k, &p); err != nil {
		panic(fmt.Sprintf("pki: key %s: %v", name, err))
	}
	var e ecPrivateKey
	if _, err := asn1.Unmarshal(p.PrivateKey, &e); err != nil {
		panic(fmt.Sprintf("pki: key %s: %v", name, err))
	}
	return new(big.Int).SetBytes(e.PrivateKey)
}

// SM2Key returns the fixture key as a gmsm private key.
func SM2Key(name string) *sm2.PrivateKey {
	d := D(name)
	c := sm2.P256Sm2()
	k := &sm2.PrivateKey{D: d}
	k.PublicKey.Curve = c
	k.PublicKey.X, k.PublicKey.Y = c.ScalarBaseMult(d.Bytes())
	return k
}

// StdKey returns an RSA/ECDSA fixture key.
func StdKey(name string) crypto.PrivateKey {
	Load()
	k, err := stdx509.ParsePKCS8PrivateKey(keys[name])
	if err != nil {
		panic(fmt.Sprintf("pki: key %s: %v", name, err))
	}
	return k
}

// Pool builds a gmsm certificate pool.
func Pool(names ...string) *x509.CertPool {
	p := x509.NewCertPool()
	for _, n := range names {
		p.AddCert(Cert(n))
	}
	return p
}

// StdPool builds a standard-library pool.
func StdPool(names ...string) *stdx509.CertPool {
	p := stdx509.NewCertPool()
	for _, n := range names {
		c, err := stdx509.ParseCertificate(DER(n))
		if err != nil {
			panic(err)
		}
		p.AddCert(c)
	}
	return p
}

// GM returns a gmtls certificate (chain + key) for an SM2 fixture.
func GM(name string, chain ...string) gmtls.Certificate {
	c := gmtls.Certificate{Certificate: [][]byte{DER(name)}, PrivateKey: SM2Key(name)}
	for _, n := range chain {
		c.Certificate = append(c.Certificate, DER(n))
	}
	return c
}

// GMStd returns a gmtls certificate for an RSA/ECDSA fixture.
func GMStd(name string, chain ...string) gmtls.Certificate {
	c := gmtls.Certificate{Certificate: [][]byte{DER(name)}, PrivateKey: StdKey(name)}
	for _, n := range chain {
		c.Certificate = append(c.Certificate, DER(n))
	}
	return c
}

// Names lists certificate fixtures.
func Names() []string { Load(); return names }
