package reftls

// TLS 1.2 with RSA key exchange (RFC 5246), the part of plain TLS the
// reference endpoints speak so that they can script a TLS peer as well as a
// GM/T 0024 one. RSA is done with math/big (PKCS#1 v1.5, RFC 8017) so that all
// randomness comes from the caller's reader and a run replays exactly; only
// certificate parsing, AES and SHA come from the Go standard library.

import (
	"bytes"
	"crypto/rsa"
	"crypto/sha256"
	"crypto/x509"
	"errors"
	"io"
	"math/big"
)

// RSAKey is an RSA private key.
type RSAKey struct {
	N, D *big.Int
	E    int
}

// RSAFromStd converts a standard library key.
func RSAFromStd(k *rsa.PrivateKey) *RSAKey {
	return &RSAKey{N: k.N, D: k.D, E: k.E}
}

// RSAPubFromCert extracts (n, e) from a certificate.
func RSAPubFromCert(der []byte) (*big.Int, int, error) {
	c, err := x509.ParseCertificate(der)
	if err != nil {
		return nil, 0, err
	}
	p, ok := c.PublicKey.(*rsa.PublicKey)
	if !ok {
		return nil, 0, errors.New("reftls: certificate key is not RSA")
	}
	return p.N, p.E, nil
}

func rsaPublic(n *big.Int, e int, em []byte) []byte {
	k := (n.BitLen() + 7) / 8
	c := new(big.Int).Exp(new(big.Int).SetBytes(em), big.NewInt(int64(e)), n)
	return c.FillBytes(make([]byte, k))
}

func rsaPrivate(key *RSAKey, c []byte) ([]byte, bool) {
	k := (key.N.BitLen() + 7) / 8
	x := new(big.Int).SetBytes(c)
	if len(c) != k || x.Cmp(key.N) >= 0 {
		return nil, false
	}
	return new(big.Int).Exp(x, key.D, key.N).FillBytes(make([]byte, k)), true
}

// RSAEncrypt is RSAES-PKCS1-v1_5 encryption with padding bytes from r.
func RSAEncrypt(n *big.Int, e int, msg []byte, r io.Reader) ([]byte, error) {
	k := (n.BitLen() + 7) / 8
	if len(msg) > k-11 {
		return nil, errors.New("reftls: message too long for RSA key")
	}
	em := make([]byte, k)
	em[1] = 2
	ps := em[2 : k-len(msg)-1]
	io.ReadFull(r, ps)
	for i := range ps {
		for ps[i] == 0 {
			var t [2]byte
			io.ReadFull(r, t[:])
			ps[i] = t[0] | 1
		}
	}
	copy(em[k-len(msg):], msg)
	return rsaPublic(n, e, em), nil
}

// RSADecrypt is RSAES-PKCS1-v1_5 decryption.
func RSADecrypt(key *RSAKey, c []byte) ([]byte, bool) {
	em, ok := rsaPrivate(key, c)
	if !ok || em[0] != 0 || em[1] != 2 {
		return nil, false
	}
	i := bytes.IndexByte(em[2:], 0)
	if i < 8 {
		return nil, false
	}
	return em[2+i+1:], true
}

var sha256DigestInfo = []byte{0x30, 0x31, 0x30, 0x0d, 0x06, 0x09, 0x60, 0x86, 0x48, 0x01, 0x65, 0x03, 0x04, 0x02, 0x01, 0x05, 0x00, 0x04, 0x20}

func pkcs1SigEM(k int, msg []byte) []byte {
	h := sha256.Sum256(msg)
	t := append(append([]byte(nil), sha256DigestInfo...), h[:]...)
	em := make([]byte, k)
	em[1] = 1
	for i := 2; i < k-len(t)-1; i++ {
		em[i] = 0xff
	}
	copy(em[k-len(t):], t)
	return em
}

// RSASignSHA256 is RSASSA-PKCS1-v1_5 with SHA-256 over msg.
func RSASignSHA256(key *RSAKey, msg []byte) []byte {
	k := (key.N.BitLen() + 7) / 8
	s, _ := rsaPrivate(key, pkcs1SigEM(k, msg))
	return s
}

// RSAVerifySHA256 verifies RSASSA-PKCS1-v1_5 with SHA-256.
func RSAVerifySHA256(n *big.Int, e int, msg, sig []byte) bool {
	k := (n.BitLen() + 7) / 8
	if len(sig) != k || new(big.Int).SetBytes(sig).Cmp(n) >= 0 {
		return false
	}
	return bytes.Equal(rsaPublic(n, e, sig), pkcs1SigEM(k, msg))
}

// SigRSAPKCS1SHA256 is the TLS 1.2 SignatureAndHashAlgorithm {sha256, rsa}.
const SigRSAPKCS1SHA256 = 0x0401

// ExtSignatureAlgorithms is extension 13.
const ExtSignatureAlgorithms = 13

// Next protocol negotiation (draft-agl-tls-nextprotoneg-04) and certificate status (RFC 6066).
const (
	ExtNPN              = 13172
	ExtStatusRequest    = 5
	HsNextProtocol      = 67
	HsCertificateStatus = 22
)

// SigAlgsData builds the signature_algorithms extension data.
func SigAlgsData(algs ...uint16) []byte {
	var l bld
	for _, a := range algs {
		l.u16(a)
	}
	var w bld
	w.vec16(l.b)
	return w.b
}

// Marshal12 returns the TLS 1.2 form of the CertificateRequest body.
func (m *CertificateRequest) Marshal12() []byte {
	var w bld
	w.vec8(m.Types)
	var s bld
	for _, a := range m.SigAlgs {
		s.u16(a)
	}
	w.vec16(s.b)
	var l bld
	for _, ca := range m.CAs {
		l.vec16(ca)
	}
	w.vec16(l.b)
	return w.b
}

// ParseCertificateRequest12 parses the TLS 1.2 form.
func ParseCertificateRequest12(b []byte) (*CertificateRequest, error) {
	r := rd{b: b}
	m := &CertificateRequest{}
	m.Types = r.vec8()
	sr := rd{b: r.vec16()}
	for r.err == nil && len(sr.b) > 0 {
		a := sr.u16()
		if sr.err != nil {
			return nil, sr.err
		}
		m.SigAlgs = append(m.SigAlgs, a)
	}
	lr := rd{b: r.vec16()}
	for r.err == nil && len(lr.b) > 0 {
		ca := lr.vec16()
		if lr.err != nil {
			return nil, lr.err
		}
		m.CAs = append(m.CAs, ca)
	}
	if r.err == nil && len(r.b) != 0 {
		r.fail()
	}
	return m, r.err
}

// CertVerify12Body builds the TLS 1.2 CertificateVerify body.
func CertVerify12Body(alg uint16, sig []byte) []byte {
	var w bld
	w.u16(alg)
	w.vec16(sig)
	return w.b
}

// ParseCertVerify12 parses the TLS 1.2 CertificateVerify body.
func ParseCertVerify12(b []byte) (uint16, []byte, error) {
	r := rd{b: b}
	alg := r.u16()
	sig := r.vec16()
	if r.err == nil && len(r.b) != 0 {
		r.fail()
	}
	return alg, sig, r.err
}
