// Package reftls is an independent implementation of the GM/T 0024-2014 ECC
// cipher suites (ECC_SM4_CBC_SM3 0xe013, ECC_SM4_GCM_SM3 0xe053), written from
// the standard (and RFC 4346/5246/5288 where GM/T 0024 refers to them), sharing
// no code with gmsm: own record and handshake codec, PRF over refsm3, record
// protection over refsm4 + stdlib cipher modes, SM2 via refsm2. It is used as
// wire decoder (oracle) and as scriptable peer.
package reftls

import (
	"encoding/binary"
	"errors"
	"fmt"
)

// Protocol constants.
const (
	VersionGM = 0x0101

	RecCCS       = 20
	RecAlert     = 21
	RecHandshake = 22
	RecApp       = 23

	HsHelloRequest       = 0
	HsClientHello        = 1
	HsServerHello        = 2
	HsNewSessionTicket   = 4
	HsCertificate        = 11
	HsServerKeyExchange  = 12
	HsCertificateRequest = 13
	HsServerHelloDone    = 14
	HsCertificateVerify  = 15
	HsClientKeyExchange  = 16
	HsFinished           = 20

	SuiteCBC = 0xe013
	SuiteGCM = 0xe053

	AlertWarning = 1
	AlertFatal   = 2

	AlertCloseNotify       = 0
	AlertUnexpectedMessage = 10
	AlertBadRecordMAC      = 20
	AlertHandshakeFailure  = 40
	AlertBadCertificate    = 42
	AlertDecodeError       = 50
	AlertDecryptError      = 51
	AlertProtocolVersion   = 70
	AlertInternalError     = 80

	MaxPlaintext = 16384
)

// Record is one TLS record as found on the wire.
type Record struct {
	Type uint8
	Vers uint16
	Body []byte
	Off  int // offset of the header in the stream
}

// Bytes serialises the record.
func (r Record) Bytes() []byte {
	b := make([]byte, 5+len(r.Body))
	b[0] = r.Type
	binary.BigEndian.PutUint16(b[1:], r.Vers)
	binary.BigEndian.PutUint16(b[3:], uint16(len(r.Body)))
	copy(b[5:], r.Body)
	return b
}

// ParseRecords splits a byte stream into records; rest is an incomplete tail.
func ParseRecords(stream []byte) (recs []Record, rest []byte) {
	off := 0
	for {
		if len(stream)-off < 5 {
			return recs, stream[off:]
		}
		n := int(binary.BigEndian.Uint16(stream[off+3:]))
		if len(stream)-off-5 < n {
			return recs, stream[off:]
		}
		recs = append(recs, Record{Type: stream[off], Vers: binary.BigEndian.Uint16(stream[off+1:]), Body: stream[off+5 : off+5+n], Off: off})
		off += 5 + n
	}
}

// HsMsg is one handshake message.
type HsMsg struct {
	Type uint8
	Body []byte
	Raw  []byte // header + body
}

// Handshake builds the wire form of a handshake message.
func Handshake(typ uint8, body []byte) []byte {
	b := make([]byte, 4+len(body))
	b[0] = typ
	b[1] = byte(len(body) >> 16)
	b[2] = byte(len(body) >> 8)
	b[3] = byte(len(body))
	copy(b[4:], body)
	return b
}

// SplitHandshake splits concatenated handshake messages.
func SplitHandshake(data []byte) (msgs []HsMsg, rest []byte) {
	for len(data) >= 4 {
		n := int(data[1])<<16 | int(data[2])<<8 | int(data[3])
		if len(data)-4 < n {
			break
		}
		msgs = append(msgs, HsMsg{Type: data[0], Body: data[4 : 4+n], Raw: data[:4+n]})
		data = data[4+n:]
	}
	return msgs, data
}

// ---- little reader / builder ------------------------------------------

type rd struct {
	b   []byte
	err error
}

func (r *rd) fail() { r.err = errors.New("reftls: truncated or malformed message") }
func (r *rd) u8() uint8 {
	if r.err != nil || len(r.b) < 1 {
		r.fail()
		return 0
	}
	v := r.b[0]
	r.b = r.b[1:]
	return v
}
func (r *rd) u16() uint16 {
	if r.err != nil || len(r.b) < 2 {
		r.fail()
		return 0
	}
	v := binary.BigEndian.Uint16(r.b)
	r.b = r.b[2:]
	return v
}
func (r *rd) u24() int {
	if r.err != nil || len(r.b) < 3 {
		r.fail()
		return 0
	}
	v := int(r.b[0])<<16 | int(r.b[1])<<8 | int(r.b[2])
	r.b = r.b[3:]
	return v
}
func (r *rd) u32() uint32 {
	if r.err != nil || len(r.b) < 4 {
		r.fail()
		return 0
	}
	v := binary.BigEndian.Uint32(r.b)
	r.b = r.b[4:]
	return v
}
func (r *rd) bytes(n int) []byte {
	if r.err != nil || n < 0 || len(r.b) < n {
		r.fail()
		return nil
	}
	v := r.b[:n]
	r.b = r.b[n:]
	return v
}
func (r *rd) vec8() []byte  { return r.bytes(int(r.u8())) }
func (r *rd) vec16() []byte { return r.bytes(int(r.u16())) }
func (r *rd) vec24() []byte { return r.bytes(r.u24()) }

type bld struct{ b []byte }

func (w *bld) u8(v uint8)   { w.b = append(w.b, v) }
func (w *bld) u16(v uint16) { w.b = append(w.b, byte(v>>8), byte(v)) }
func (w *bld) u24(v int)    { w.b = append(w.b, byte(v>>16), byte(v>>8), byte(v)) }
func (w *bld) u32(v uint32) { w.b = append(w.b, byte(v>>24), byte(v>>16), byte(v>>8), byte(v)) }
func (w *bld) raw(v []byte) { w.b = append(w.b, v...) }
func (w *bld) vec8(v []byte) {
	w.u8(uint8(len(v)))
	w.raw(v)
}
func (w *bld) vec16(v []byte) {
	w.u16(uint16(len(v)))
	w.raw(v)
}
func (w *bld) vec24(v []byte) {
	w.u24(len(v))
	w.raw(v)
}

// ---- messages ------------------------------------------------------------

// Ext is a raw hello extension.
type Ext struct {
	Type uint16
	Data []byte
}

const (
	ExtServerName    = 0
	ExtSessionTicket = 35
	ExtRenegInfo     = 0xff01
)

// ClientHello message.
type ClientHello struct {
	Vers        uint16
	Random      []byte
	SessionID   []byte
	Suites      []uint16
	Compression []byte
	Exts        []Ext
	HasExts     bool
}

func marshalExts(w *bld, exts []Ext) {
	var e bld
	for _, x := range exts {
		e.u16(x.Type)
		e.vec16(x.Data)
	}
	w.vec16(e.b)
}

func parseExts(r *rd) ([]Ext, bool) {
	if len(r.b) == 0 {
		return nil, false
	}
	er := rd{b: r.vec16()}
	var out []Ext
	for r.err == nil && len(er.b) > 0 {
		t := er.u16()
		d := er.vec16()
		if er.err != nil {
			r.err = er.err
			break
		}
		out = append(out, Ext{t, d})
	}
	return out, true
}

// Marshal returns the handshake body.
func (m *ClientHello) Marshal() []byte {
	var w bld
	w.u16(m.Vers)
	w.raw(m.Random)
	w.vec8(m.SessionID)
	var s bld
	for _, id := range m.Suites {
		s.u16(id)
	}
	w.vec16(s.b)
	w.vec8(m.Compression)
	if m.HasExts || len(m.Exts) > 0 {
		marshalExts(&w, m.Exts)
	}
	return w.b
}

// ParseClientHello parses a ClientHello body.
func ParseClientHello(b []byte) (*ClientHello, error) {
	r := rd{b: b}
	m := &ClientHello{}
	m.Vers = r.u16()
	m.Random = r.bytes(32)
	m.SessionID = r.vec8()
	sr := rd{b: r.vec16()}
	for r.err == nil && len(sr.b) >= 2 {
		m.Suites = append(m.Suites, sr.u16())
	}
	if len(sr.b) != 0 {
		r.fail()
	}
	m.Compression = r.vec8()
	m.Exts, m.HasExts = parseExts(&r)
	if r.err == nil && len(r.b) != 0 {
		r.fail()
	}
	return m, r.err
}

// Ext returns the extension of the given type.
func FindExt(exts []Ext, t uint16) ([]byte, bool) {
	for _, e := range exts {
		if e.Type == t {
			return e.Data, true
		}
	}
	return nil, false
}

// ServerHello message.
type ServerHello struct {
	Vers        uint16
	Random      []byte
	SessionID   []byte
	Suite       uint16
	Compression uint8
	Exts        []Ext
	HasExts     bool
}

// Marshal returns the handshake body.
func (m *ServerHello) Marshal() []byte {
	var w bld
	w.u16(m.Vers)
	w.raw(m.Random)
	w.vec8(m.SessionID)
	w.u16(m.Suite)
	w.u8(m.Compression)
	if m.HasExts || len(m.Exts) > 0 {
		marshalExts(&w, m.Exts)
	}
	return w.b
}

// ParseServerHello parses a ServerHello body.
func ParseServerHello(b []byte) (*ServerHello, error) {
	r := rd{b: b}
	m := &ServerHello{}
	m.Vers = r.u16()
	m.Random = r.bytes(32)
	m.SessionID = r.vec8()
	m.Suite = r.u16()
	m.Compression = r.u8()
	m.Exts, m.HasExts = parseExts(&r)
	if r.err == nil && len(r.b) != 0 {
		r.fail()
	}
	return m, r.err
}

// MarshalCertificate builds a Certificate body.
func MarshalCertificate(certs [][]byte) []byte {
	var l bld
	for _, c := range certs {
		l.vec24(c)
	}
	var w bld
	w.vec24(l.b)
	return w.b
}

// ParseCertificate parses a Certificate body.
func ParseCertificate(b []byte) ([][]byte, error) {
	r := rd{b: b}
	lr := rd{b: r.vec24()}
	if r.err == nil && len(r.b) != 0 {
		r.fail()
	}
	var out [][]byte
	for r.err == nil && len(lr.b) > 0 {
		c := lr.vec24()
		if lr.err != nil {
			return nil, lr.err
		}
		out = append(out, c)
	}
	return out, r.err
}

// Vec16Body builds / parses bodies consisting of one opaque<0..2^16-1>
// (ServerKeyExchange of the ECC suites, ClientKeyExchange, CertificateVerify).
func Vec16Body(v []byte) []byte {
	var w bld
	w.vec16(v)
	return w.b
}

// ParseVec16Body parses a body consisting of exactly one opaque<0..2^16-1>.
func ParseVec16Body(b []byte) ([]byte, error) {
	r := rd{b: b}
	v := r.vec16()
	if r.err == nil && len(r.b) != 0 {
		r.fail()
	}
	return v, r.err
}

// CertificateRequest of GM/T 0024 (TLS 1.1 layout: types, authorities).
type CertificateRequest struct {
	Types   []byte
	SigAlgs []uint16 // TLS 1.2 form only
	CAs     [][]byte
}

// Marshal returns the handshake body.
func (m *CertificateRequest) Marshal() []byte {
	var w bld
	w.vec8(m.Types)
	var l bld
	for _, ca := range m.CAs {
		l.vec16(ca)
	}
	w.vec16(l.b)
	return w.b
}

// ParseCertificateRequest parses the body.
func ParseCertificateRequest(b []byte) (*CertificateRequest, error) {
	r := rd{b: b}
	m := &CertificateRequest{}
	m.Types = r.vec8()
	lr := rd{b: r.vec16()}
	for r.err == nil && len(lr.b) > 0 {
		ca := lr.vec16()
		if lr.err != nil {
			return nil, lr.err
		}
		m.CAs = append(m.CAs, ca)
	}
	if r.err == nil && len(r.b) != 0 {
		r.fail()
	}
	return m, r.err
}

// NewSessionTicket message.
type NewSessionTicket struct {
	Lifetime uint32
	Ticket   []byte
}

// Marshal returns the handshake body.
func (m *NewSessionTicket) Marshal() []byte {
	var w bld
	w.u32(m.Lifetime)
	w.vec16(m.Ticket)
	return w.b
}

// ParseNewSessionTicket parses the body.
func ParseNewSessionTicket(b []byte) (*NewSessionTicket, error) {
	r := rd{b: b}
	m := &NewSessionTicket{}
	m.Lifetime = r.u32()
	m.Ticket = r.vec16()
	if r.err == nil && len(r.b) != 0 {
		r.fail()
	}
	return m, r.err
}

// SNIData builds the server_name extension data for one host name.
func SNIData(host string) []byte {
	var n bld
	n.u8(0)
	n.vec16([]byte(host))
	var w bld
	w.vec16(n.b)
	return w.b
}

// HsName names a handshake type.
func HsName(t uint8) string {
	switch t {
	case HsHelloRequest:
		return "HelloRequest"
	case HsClientHello:
		return "ClientHello"
	case HsServerHello:
		return "ServerHello"
	case HsNewSessionTicket:
		return "NewSessionTicket"
	case HsCertificate:
		return "Certificate"
	case HsServerKeyExchange:
		return "ServerKeyExchange"
	case HsCertificateRequest:
		return "CertificateRequest"
	case HsServerHelloDone:
		return "ServerHelloDone"
	case HsCertificateVerify:
		return "CertificateVerify"
	case HsClientKeyExchange:
		return "ClientKeyExchange"
	case HsFinished:
		return "Finished"
	}
	return fmt.Sprintf("hs(%d)", t)
}

// LenField locates a length or count field inside a handshake body.
type LenField struct {
	Off, Width int
}

// LengthFields returns the positions of the vector length fields of a
// well-formed message body (used to perturb exactly one of them).
func LengthFields(typ uint8, b []byte) []LenField { return lengthFields(typ, b, false) }

// LengthFields12 is LengthFields for the TLS 1.2 message formats.
func LengthFields12(typ uint8, b []byte) []LenField { return lengthFields(typ, b, true) }

func lengthFields(typ uint8, b []byte, tls12 bool) []LenField {
	var out []LenField
	add := func(off, w int) bool {
		if off+w > len(b) {
			return false
		}
		out = append(out, LenField{off, w})
		return true
	}
	get := func(off, w int) int {
		v := 0
		for i := 0; i < w; i++ {
			v = v<<8 | int(b[off+i])
		}
		return v
	}
	exts := func(off int) {
		if !add(off, 2) {
			return
		}
		end := off + 2 + get(off, 2)
		off += 2
		for off+4 <= end && off+4 <= len(b) {
			if !add(off+2, 2) {
				return
			}
			off += 4 + get(off+2, 2)
		}
	}
	switch typ {
	case HsClientHello:
		off := 34
		if !add(off, 1) {
			return out
		}
		off += 1 + get(off, 1)
		if !add(off, 2) {
			return out
		}
		off += 2 + get(off, 2)
		if !add(off, 1) {
			return out
		}
		off += 1 + get(off, 1)
		if off < len(b) {
			exts(off)
		}
	case HsServerHello:
		off := 34
		if !add(off, 1) {
			return out
		}
		off += 1 + get(off, 1) + 3
		if off < len(b) {
			exts(off)
		}
	case HsCertificate:
		if !add(0, 3) {
			return out
		}
		off := 3
		for off+3 <= len(b) {
			add(off, 3)
			off += 3 + get(off, 3)
		}
	case HsServerKeyExchange, HsClientKeyExchange, HsCertificateVerify:
		if tls12 && typ == HsCertificateVerify {
			add(2, 2)
		} else {
			add(0, 2)
		}
	case HsCertificateRequest:
		if !add(0, 1) {
			return out
		}
		off := 1 + get(0, 1)
		if tls12 {
			if !add(off, 2) {
				return out
			}
			off += 2 + get(off, 2)
		}
		if !add(off, 2) {
			return out
		}
		end := off + 2 + get(off, 2)
		off += 2
		for off+2 <= end && off+2 <= len(b) {
			add(off, 2)
			off += 2 + get(off, 2)
		}
	case HsNewSessionTicket:
		add(4, 2)
	}
	return out
}
