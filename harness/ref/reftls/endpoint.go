package reftls

import (
	"bytes"
	"crypto/ecdh"
	"encoding/binary"
	"errors"
	"fmt"
	"io"
	"math/big"

	"github.com/tjfoc/gmsm/verifsim/ref/refsm2"
	"github.com/tjfoc/gmsm/verifsim/ref/refsm3"
)

// Deviation kinds of a scripted endpoint (applied to the At-th outgoing unit:
// handshake messages and ChangeCipherSpec are numbered in sending order).
const (
	DevNone             = iota
	DevReplaceType      // send the message with handshake type Val
	DevDuplicate        // send the message twice
	DevOmit             // do not send the message
	DevTruncBody        // cut the body to N bytes, handshake length adjusted
	DevTruncBodyKeepLen // cut the body to N bytes, handshake length left as is, then close
	DevSetByte          // body[N % len] = Val (length/count field perturbation)
	DevHsLen            // 24-bit handshake length field set to Val (body unchanged)
	DevInsertRecord     // send record (Typ, body RecBody) before the unit
	DevCloseBefore      // close the stream before the unit
	DevCloseInside      // send N bytes of the unit's record(s), then close
	DevStallBefore      // stop sending and keep the stream open
	DevFragment         // legal: split the unit's bytes over records at offset N
	DevCoalesce         // legal: send the unit together with the following one in a single record
	DevReplaceBody      // send body RecBody instead
	DevRecordVersion    // send the unit's record with version Val
	DevOversizeRecord   // send the unit inside one record padded to Val bytes (> 2^14+2048 allowed)
	DevWarnings         // send N warning alerts before the unit
	DevEmptyRecord      // send an empty handshake record before the unit
	DevLenField         // add Val to the N-th length/count field inside the message body (nothing else adjusted)
	DevFinishedEarly    // (on the last unit before ChangeCipherSpec, client only) the first 1+N%16 bytes of the Finished message travel in the clear in the same record as this message; the rest follows after ChangeCipherSpec
	DevPlainFinished    // (on the ChangeCipherSpec unit) no ChangeCipherSpec and no key switch: Finished follows in plaintext; with Val=1 a handshake message of type Typ is sent in its place
	DevSwapNext         // this unit changes places with the next one; the scripted peer hashes (and signs) in the order sent, so only the endpoint's state machine can object
	DevExtendBody       // RecBody is appended to the body, handshake length adjusted: a well-framed message with trailing bytes; the scripted peer hashes it as sent, so only the endpoint's parser can object
)

// Dev is one deviation.
type Dev struct {
	At      int
	Kind    int
	N       int
	Val     int
	Typ     uint8
	RecBody []byte
	Fired   bool
	Changed bool // the bytes on the wire differ from the honest ones (set when fired)
	// InTranscript (DevInsertRecord carrying handshake messages): the scripted peer
	// also hashes the inserted bytes, i.e. it is consistent about its extra message.
	// With DevLenField: the message is hashed as sent (with the perturbed field).
	InTranscript bool
}

// ErrAlert is returned when the peer sent a fatal alert or close_notify.
type ErrAlert struct {
	Level, Desc uint8
}

func (e ErrAlert) Error() string {
	return fmt.Sprintf("reftls: peer alert level %d desc %d", e.Level, e.Desc)
}

// ErrStalled is returned by a scripted endpoint that reached DevStallBefore.
var ErrStalled = errors.New("reftls: scripted stall")

// ErrClosedByScript is returned after a scripted close.
var ErrClosedByScript = errors.New("reftls: scripted close")

// Closer is implemented by transports that can end the stream.
type Closer interface {
	Close() error
}

// Conn is the record layer + handshake framing of a reference endpoint.
type Conn struct {
	RW            io.ReadWriter
	In, Out       *Half
	rbuf          []byte
	hsbuf         []byte
	Transcript    []byte
	Devs          []*Dev
	sent          int    // outgoing unit counter
	pending       []byte // DevCoalesce: bytes held back
	RecVers       uint16
	NoFragment    bool // deviation: payloads above 2^14 bytes go out in one record instead of being fragmented
	AlertsIn      [][2]byte
	PlainFinished bool // set by DevPlainFinished: the caller must not switch the outgoing keys
	SentUnits     []string
	closed        bool
	TLS12         bool // message formats of TLS 1.2 (set by the handshake functions)
	// EarlyFin, set by the client handshake once the master secret is known, returns
	// the Finished message for the transcript as it stands (DevFinishedEarly)
	EarlyFin func() []byte
	earlyK   int
	held     []byte // DevSwapNext: handshake message held back until the next unit has gone out
	heldName string
}

// NewConn wraps a transport.
func NewConn(rw io.ReadWriter) *Conn { return &Conn{RW: rw, RecVers: VersionGM} }

func (c *Conn) rawWrite(b []byte) error {
	_, err := c.RW.Write(b)
	return err
}

// WriteRecordRaw writes one record without protection.
func (c *Conn) WriteRecordRaw(typ uint8, vers uint16, body []byte) error {
	return c.rawWrite(Record{Type: typ, Vers: vers, Body: body}.Bytes())
}

// recordBytes builds the wire bytes for payload (fragmenting, protecting).
func (c *Conn) recordBytes(typ uint8, vers uint16, payload []byte, o *ProtectOpts) []byte {
	var out []byte
	for first := true; first || len(payload) > 0; first = false {
		n := len(payload)
		if n > MaxPlaintext && !c.NoFragment {
			n = MaxPlaintext
		}
		frag := payload[:n]
		payload = payload[n:]
		body := frag
		if c.Out != nil {
			body = c.Out.Protect(typ, vers, frag, o)
		}
		out = append(out, Record{Type: typ, Vers: vers, Body: body}.Bytes()...)
	}
	return out
}

// WriteRecord writes payload as (protected) records.
func (c *Conn) WriteRecord(typ uint8, payload []byte) error {
	return c.rawWrite(c.recordBytes(typ, c.RecVers, payload, nil))
}

// WriteRecordOpts writes one protected record with sender deviations.
func (c *Conn) WriteRecordOpts(typ uint8, payload []byte, o *ProtectOpts) error {
	return c.rawWrite(c.recordBytes(typ, c.RecVers, payload, o))
}

func (c *Conn) fill(n int) error {
	for len(c.rbuf) < n {
		tmp := make([]byte, 4096)
		m, err := c.RW.Read(tmp)
		c.rbuf = append(c.rbuf, tmp[:m]...)
		if err != nil {
			if len(c.rbuf) >= n {
				return nil
			}
			if err == io.EOF && len(c.rbuf) > 0 {
				return io.ErrUnexpectedEOF
			}
			return err
		}
	}
	return nil
}

// ReadRecord reads and unprotects one record.
func (c *Conn) ReadRecord() (uint8, []byte, error) {
	if err := c.fill(5); err != nil {
		return 0, nil, err
	}
	n := int(binary.BigEndian.Uint16(c.rbuf[3:]))
	if err := c.fill(5 + n); err != nil {
		return 0, nil, err
	}
	typ := c.rbuf[0]
	vers := binary.BigEndian.Uint16(c.rbuf[1:])
	body := append([]byte(nil), c.rbuf[5:5+n]...)
	c.rbuf = c.rbuf[5+n:]
	if c.In != nil {
		pt, _, err := c.In.Unprotect(typ, vers, body)
		if err != nil {
			return typ, nil, err
		}
		body = pt
	}
	return typ, body, nil
}

// unit delivery with deviations --------------------------------------------

func (c *Conn) devFor(idx int) *Dev {
	for _, d := range c.Devs {
		if d.At == idx && !d.Fired {
			return d
		}
	}
	return nil
}

func (c *Conn) closeTransport() {
	c.closed = true
	if cl, ok := c.RW.(Closer); ok {
		cl.Close()
	}
}

// sendUnit sends one outgoing unit (a handshake message or CCS) subject to
// the deviation configured for its index. plain is the unit's record payload.
func (c *Conn) sendUnit(recType uint8, name string, plain []byte) error {
	idx := c.sent
	c.sent++
	c.SentUnits = append(c.SentUnits, name)
	d := c.devFor(idx)
	if len(c.pending) > 0 && recType != RecHandshake {
		p := c.pending
		c.pending = nil
		if err := c.rawWrite(c.recordBytes(RecHandshake, c.RecVers, p, nil)); err != nil {
			return err
		}
	}
	if d == nil || d.Kind != DevCoalesce {
		// anything held back by an earlier coalesce goes out in front, in the same record
		plain = append(append([]byte(nil), c.pending...), plain...)
		c.pending = nil
	}
	if d == nil {
		return c.rawWrite(c.recordBytes(recType, c.RecVers, plain, nil))
	}
	d.Fired = true
	switch d.Kind {
	case DevFragment, DevCoalesce:
		d.Changed = false
	case DevRecordVersion:
		d.Changed = uint16(d.Val) != c.RecVers
	case DevReplaceType, DevTruncBody, DevTruncBodyKeepLen, DevSetByte, DevHsLen, DevReplaceBody, DevLenField, DevExtendBody:
		d.Changed = false // message-level deviation on a unit that is not a handshake message: not applicable
	default:
		d.Changed = true
	}
	switch d.Kind {
	case DevOmit:
		return nil
	case DevDuplicate:
		if err := c.rawWrite(c.recordBytes(recType, c.RecVers, plain, nil)); err != nil {
			return err
		}
		return c.rawWrite(c.recordBytes(recType, c.RecVers, plain, nil))
	case DevInsertRecord:
		if d.InTranscript && d.Typ == RecHandshake {
			if recType == RecHandshake && len(c.Transcript) >= len(plain) && bytes.HasSuffix(c.Transcript, plain) {
				// the unit itself is already in the transcript: put the insertion before it
				t := append([]byte(nil), c.Transcript[:len(c.Transcript)-len(plain)]...)
				c.Transcript = append(append(t, d.RecBody...), plain...)
			} else {
				c.Transcript = append(c.Transcript, d.RecBody...)
			}
		}
		if err := c.rawWrite(c.recordBytes(d.Typ, c.RecVers, d.RecBody, nil)); err != nil {
			return err
		}
	case DevWarnings:
		for i := 0; i < d.N; i++ {
			if err := c.rawWrite(c.recordBytes(RecAlert, c.RecVers, []byte{AlertWarning, byte(d.Val)}, nil)); err != nil {
				return err
			}
		}
	case DevEmptyRecord:
		if err := c.rawWrite(Record{Type: RecHandshake, Vers: c.RecVers}.Bytes()); err != nil {
			return err
		}
	case DevPlainFinished:
		c.PlainFinished = true
		if d.Val != 0 {
			return c.rawWrite(c.recordBytes(RecHandshake, c.RecVers, Handshake(d.Typ, nil), nil))
		}
		return nil
	case DevCloseBefore:
		c.closeTransport()
		return ErrClosedByScript
	case DevStallBefore:
		return ErrStalled
	case DevCloseInside:
		b := c.recordBytes(recType, c.RecVers, plain, nil)
		n := d.N % len(b)
		c.rawWrite(b[:n])
		c.closeTransport()
		return ErrClosedByScript
	case DevFragment:
		n := d.N % (len(plain) + 1)
		if n > 0 {
			if err := c.rawWrite(c.recordBytes(recType, c.RecVers, plain[:n], nil)); err != nil {
				return err
			}
		}
		if n < len(plain) {
			return c.rawWrite(c.recordBytes(recType, c.RecVers, plain[n:], nil))
		}
		return nil
	case DevCoalesce:
		c.pending = append(c.pending, plain...)
		return nil
	case DevRecordVersion:
		return c.rawWrite(c.recordBytes(recType, uint16(d.Val), plain, nil))
	case DevOversizeRecord:
		body := append([]byte(nil), plain...)
		for len(body) < d.Val {
			body = append(body, 0)
		}
		if c.Out != nil {
			body = c.Out.Protect(recType, c.RecVers, body, nil)
		}
		hdr := []byte{recType, byte(c.RecVers >> 8), byte(c.RecVers), byte(len(body) >> 8), byte(len(body))}
		return c.rawWrite(append(hdr, body...))
	}
	return c.rawWrite(c.recordBytes(recType, c.RecVers, plain, nil))
}

// WriteHandshake sends a handshake message (honest content: typ, body) and
// appends the honest form to the transcript. Message-level deviations are
// applied here, wire-level ones in sendUnit.
func (c *Conn) WriteHandshake(typ uint8, body []byte) error {
	if d := c.devFor(c.sent); d != nil && d.Kind == DevSwapNext && c.held == nil {
		d.Fired, d.Changed = true, true
		c.sent++
		c.held = Handshake(typ, body)
		c.heldName = HsName(typ)
		c.SentUnits = append(c.SentUnits, HsName(typ)+"(held back)")
		return nil
	}
	if c.held != nil {
		defer c.releaseHeld()
	}
	c.Transcript = append(c.Transcript, Handshake(typ, body)...)
	wire := Handshake(typ, body)
	if typ == HsFinished && c.earlyK > 0 {
		// the head of this message already went out in the clear (DevFinishedEarly)
		k := c.earlyK
		c.earlyK = 0
		c.sent++
		c.SentUnits = append(c.SentUnits, "Finished(tail)")
		if k >= len(wire) {
			return nil
		}
		return c.rawWrite(c.recordBytes(RecHandshake, c.RecVers, wire[k:], nil))
	}
	if d := c.devFor(c.sent); d != nil {
		if d.Kind == DevFinishedEarly && c.EarlyFin != nil && typ != HsFinished {
			fin := c.EarlyFin()
			k := 1 + d.N%len(fin)
			c.earlyK = k
			d.Fired, d.Changed = true, true
			c.sent++
			c.SentUnits = append(c.SentUnits, HsName(typ)+"+Finished(head, clear)")
			wire = append(append(append([]byte(nil), c.pending...), wire...), fin[:k]...)
			c.pending = nil
			return c.rawWrite(c.recordBytes(RecHandshake, c.RecVers, wire, nil))
		}
		switch d.Kind {
		case DevReplaceType:
			wire = Handshake(uint8(d.Val), body)
		case DevTruncBody:
			n := d.N % (len(body) + 1)
			wire = Handshake(typ, body[:n])
		case DevTruncBodyKeepLen:
			n := d.N % (len(body) + 1)
			wire = Handshake(typ, body)[:4+n]
			d.Fired = true
			d.Changed = true
			c.sent++
			c.SentUnits = append(c.SentUnits, HsName(typ)+"(truncated, stream closed)")
			wire = append(append([]byte(nil), c.pending...), wire...)
			c.pending = nil
			c.rawWrite(c.recordBytes(RecHandshake, c.RecVers, wire, nil))
			c.closeTransport()
			return ErrClosedByScript
		case DevSetByte:
			if len(body) > 0 {
				b := append([]byte(nil), body...)
				b[d.N%len(b)] = byte(d.Val)
				wire = Handshake(typ, b)
			}
		case DevHsLen:
			wire = append([]byte(nil), wire...)
			wire[1], wire[2], wire[3] = byte(d.Val>>16), byte(d.Val>>8), byte(d.Val)
		case DevReplaceBody:
			wire = Handshake(typ, d.RecBody)
		case DevLenField:
			fields := LengthFields(typ, body)
			if c.TLS12 {
				fields = LengthFields12(typ, body)
			}
			if len(fields) > 0 {
				f := fields[d.N%len(fields)]
				b := append([]byte(nil), body...)
				old := 0
				for i := 0; i < f.Width; i++ {
					old = old<<8 | int(b[f.Off+i])
				}
				nv := old + d.Val
				if nv < 0 {
					nv = 0
				}
				for i := f.Width - 1; i >= 0; i-- {
					b[f.Off+i] = byte(nv)
					nv >>= 8
				}
				wire = Handshake(typ, b)
				if d.InTranscript {
					// consistent about its own message: hashed as sent, so that only the
					// endpoint's parser (not the Finished check) can object
					orig := Handshake(typ, body)
					c.Transcript = append(c.Transcript[:len(c.Transcript)-len(orig)], wire...)
				}
			}
		}
		if d.Kind == DevExtendBody {
			orig := Handshake(typ, body)
			wire = Handshake(typ, append(append([]byte(nil), body...), d.RecBody...))
			// consistent about its own message: hashed as sent
			c.Transcript = append(c.Transcript[:len(c.Transcript)-len(orig)], wire...)
		}
		switch d.Kind {
		case DevReplaceType, DevTruncBody, DevSetByte, DevHsLen, DevReplaceBody, DevLenField, DevExtendBody:
			d.Fired = true
			d.Changed = !bytes.Equal(wire, Handshake(typ, body))
			c.sent++
			c.SentUnits = append(c.SentUnits, HsName(typ)+"(deviated)")
			wire = append(append([]byte(nil), c.pending...), wire...)
			c.pending = nil
			return c.rawWrite(c.recordBytes(RecHandshake, c.RecVers, wire, nil))
		}
	}
	return c.sendUnit(RecHandshake, HsName(typ), wire)
}

// PreUnit carries out a hashed insertion (DevInsertRecord with InTranscript)
// scheduled before the next unit right away, so that a Finished computed next
// covers it.
func (c *Conn) PreUnit() error {
	d := c.devFor(c.sent)
	if d == nil || d.Kind != DevInsertRecord || !d.InTranscript || d.Typ != RecHandshake {
		return nil
	}
	d.Fired, d.Changed = true, true
	c.Transcript = append(c.Transcript, d.RecBody...)
	c.SentUnits = append(c.SentUnits, "inserted(hashed)")
	return c.rawWrite(c.recordBytes(d.Typ, c.RecVers, d.RecBody, nil))
}

// releaseHeld sends the message held back by DevSwapNext (after the unit that
// overtook it) and hashes it at that position.
func (c *Conn) releaseHeld() {
	h := c.held
	if h == nil {
		return
	}
	c.held = nil
	c.Transcript = append(c.Transcript, h...)
	c.SentUnits = append(c.SentUnits, c.heldName+"(late)")
	c.rawWrite(c.recordBytes(RecHandshake, c.RecVers, h, nil))
}

// WriteCCS sends ChangeCipherSpec (a unit) and leaves protection switching to
// the caller.
func (c *Conn) WriteCCS() error {
	if d := c.devFor(c.sent); d != nil && d.Kind == DevSwapNext {
		d.Fired = true // (ChangeCipherSpec itself is not held back: handled as no deviation)
	}
	err := c.sendUnit(RecCCS, "ChangeCipherSpec", []byte{1})
	c.releaseHeld()
	return err
}

// ReadHandshake returns the next handshake message; ChangeCipherSpec is
// returned as type 255. Alerts end the handshake with ErrAlert.
func (c *Conn) ReadHandshake() (*HsMsg, error) {
	for {
		if msgs, _ := SplitHandshake(c.hsbuf); len(msgs) > 0 {
			raw := append([]byte(nil), msgs[0].Raw...)
			c.hsbuf = append([]byte(nil), c.hsbuf[len(raw):]...)
			c.Transcript = append(c.Transcript, raw...)
			return &HsMsg{Type: raw[0], Body: raw[4:], Raw: raw}, nil
		}
		typ, body, err := c.ReadRecord()
		if err != nil {
			return nil, err
		}
		switch typ {
		case RecHandshake:
			c.hsbuf = append(c.hsbuf, body...)
		case RecCCS:
			return &HsMsg{Type: 255}, nil
		case RecAlert:
			if len(body) == 2 {
				c.AlertsIn = append(c.AlertsIn, [2]byte{body[0], body[1]})
				if body[0] == AlertFatal || body[1] == AlertCloseNotify {
					return nil, ErrAlert{body[0], body[1]}
				}
				continue
			}
			return nil, errors.New("reftls: malformed alert")
		default:
			return nil, fmt.Errorf("reftls: unexpected record type %d during handshake", typ)
		}
	}
}

// ReadApp reads application data until close_notify/EOF or n bytes.
func (c *Conn) ReadApp() ([]byte, error) {
	for {
		typ, body, err := c.ReadRecord()
		if err != nil {
			return nil, err
		}
		switch typ {
		case RecApp:
			return body, nil
		case RecAlert:
			if len(body) == 2 {
				c.AlertsIn = append(c.AlertsIn, [2]byte{body[0], body[1]})
				if body[1] == AlertCloseNotify {
					return nil, io.EOF
				}
				if body[0] == AlertFatal {
					return nil, ErrAlert{body[0], body[1]}
				}
			}
		case RecHandshake:
			// e.g. HelloRequest: ignore
		}
	}
}

// CloseNotify sends close_notify.
func (c *Conn) CloseNotify() error {
	return c.WriteRecord(RecAlert, []byte{AlertWarning, AlertCloseNotify})
}

// ---- endpoints -----------------------------------------------------------

// Identity is a certificate (chain) with its private key (nil = not held).
type Identity struct {
	Chain [][]byte
	Key   *big.Int
	RSA   *RSAKey // TLS 1.2 identities
}

// ClientCfg configures the reference client.
type ClientCfg struct {
	Rand       io.Reader
	Suites     []uint16
	Vers       uint16 // 0 = 0x0101 unless VersSet
	VersSet    bool
	ServerName string
	Compress   []byte // nil = {0}
	Cert       *Identity
	ExtraExts  []Ext
	// resumption attempt
	Ticket      []byte
	Master      []byte
	ResumeSuite uint16
	// deviations in content
	PreMasterGuess []byte // use this pre-master instead of a fresh one (not encrypted to the server's key when nil key)
	OmitCertVerify bool
	CertVerifyKey  *big.Int // sign CertificateVerify with this key instead of Cert.Key
	CertVerifyOver []byte   // sign over this transcript instead of the real one
	CertVerifyRSA  *RSAKey  // TLS 1.2: sign CertificateVerify with this key instead of Cert.RSA
	SkipSKXCheck   bool
	NoSigAlgs      bool // TLS 1.2: do not send signature_algorithms
	// NPN: offer next_protocol_negotiation (extension 13172); when the server's
	// ServerHello carries it too, a NextProtocol message (type 67) naming NPNProto
	// is sent between ChangeCipherSpec and Finished (a unit of its own)
	NPN         bool
	NPNProto    string
	Curves      []uint16 // supported_groups to offer (needed for the ECDHE suites)
	ShareSuffix []byte   // ECDHE: bytes appended to the client's key share
	NPNSkip     bool     // offer NPN but behave as if the server had not selected it (no NextProtocol, consistent transcript)
	// IgnoreCertRequest: behave as if no CertificateRequest had been received (no
	// Certificate message at all, no CertificateVerify), with a consistent transcript.
	IgnoreCertRequest bool
}

// Result is the outcome of a reference handshake.
type Result struct {
	Suite       uint16
	Master      []byte
	Resumed     bool
	ServerCerts [][]byte
	ClientCerts [][]byte
	NewTicket   []byte
	CH          *ClientHello
	SH          *ServerHello
	CertReq     *CertificateRequest
	SKXSig      []byte
	CKXBody     []byte
	CVBody      []byte
	Complete    bool
	PeerFinOK   bool
	NPN         bool // next protocol negotiation took place
}

func randBytes(r io.Reader, n int) []byte {
	b := make([]byte, n)
	if n == 1 {
		var t [2]byte
		io.ReadFull(r, t[:])
		b[0] = t[0]
		return b
	}
	io.ReadFull(r, b)
	return b
}

func randScalar(r io.Reader) *big.Int {
	n := refsm2.N()
	for {
		k := new(big.Int).SetBytes(randBytes(r, 32))
		k.Mod(k, n)
		if k.Sign() > 0 {
			return k
		}
	}
}

func (c *Conn) switchKeys(master, cr, sr []byte, suite uint16, client bool, out bool) error {
	k, err := KeyBlock(master, cr, sr, suite)
	if err != nil {
		return err
	}
	var h *Half
	if client == out {
		h, err = NewHalf(suite, k.CKey, k.CMac, k.CIV)
	} else {
		h, err = NewHalf(suite, k.SKey, k.SMac, k.SIV)
	}
	if err != nil {
		return err
	}
	if out {
		c.Out = h
	} else {
		c.In = h
	}
	return nil
}

// ClientHandshake runs the client side.
func ClientHandshake(c *Conn, cfg *ClientCfg) (*Result, error) {
	res := &Result{}
	vers := cfg.Vers
	if vers == 0 && !cfg.VersSet {
		vers = VersionGM
	}
	if vers >= 0x0300 && c.RecVers == VersionGM {
		c.RecVers = vers
		if vers > VersionTLS12 {
			c.RecVers = VersionTLS12
		}
	}
	ch := &ClientHello{Vers: vers, Random: randBytes(cfg.Rand, 32), Suites: cfg.Suites, Compression: cfg.Compress}
	if ch.Compression == nil {
		ch.Compression = []byte{0}
	}
	if cfg.ServerName != "" {
		ch.Exts = append(ch.Exts, Ext{ExtServerName, SNIData(cfg.ServerName)})
	}
	if cfg.Ticket != nil {
		ch.SessionID = randBytes(cfg.Rand, 16)
	}
	ch.Exts = append(ch.Exts, Ext{ExtSessionTicket, cfg.Ticket})
	if cfg.NPN {
		ch.Exts = append(ch.Exts, Ext{ExtNPN, nil})
	}
	if vers >= VersionTLS12 && !cfg.NoSigAlgs {
		ch.Exts = append(ch.Exts, Ext{ExtSignatureAlgorithms, SigAlgsData(SigRSAPKCS1SHA256, 0x0403, 0x0501, 0x0503)})
	}
	if len(cfg.Curves) > 0 {
		ch.Exts = append(ch.Exts, Ext{ExtSupportedGroups, SupportedGroupsData(cfg.Curves...)}, Ext{ExtECPointFormats, []byte{1, 0}})
	}
	ch.Exts = append(ch.Exts, cfg.ExtraExts...)
	res.CH = ch
	if err := c.WriteHandshake(HsClientHello, ch.Marshal()); err != nil {
		return res, err
	}
	m, err := c.ReadHandshake()
	if err != nil {
		return res, err
	}
	if m.Type != HsServerHello {
		return res, fmt.Errorf("reftls client: got %s, want ServerHello", HsName(m.Type))
	}
	sh, err := ParseServerHello(m.Body)
	if err != nil {
		return res, err
	}
	res.SH = sh
	res.Suite = sh.Suite
	if _, _, _, ok := SuiteParams(sh.Suite); !ok {
		return res, fmt.Errorf("reftls client: server selected suite %04x", sh.Suite)
	}
	gm := Suite(sh.Suite).GM
	ecdhe := Suite(sh.Suite).ECDHE
	if !gm {
		if sh.Vers != VersionTLS12 {
			return res, fmt.Errorf("reftls client: server selected version %04x with a TLS 1.2 suite", sh.Vers)
		}
		c.TLS12 = true
		c.RecVers = VersionTLS12
	}
	readFinished := func() error {
		want := FinishedData(sh.Suite, res.Master, false, c.Transcript)
		m, err := c.ReadHandshake()
		if err != nil {
			return err
		}
		if m.Type != HsFinished {
			return fmt.Errorf("reftls client: got %s, want Finished", HsName(m.Type))
		}
		res.PeerFinOK = bytes.Equal(m.Body, want)
		if !res.PeerFinOK {
			return errors.New("reftls client: server Finished does not verify")
		}
		return nil
	}
	sendFinished := func() error {
		if err := c.WriteCCS(); err != nil {
			return err
		}
		if !c.PlainFinished {
			if err := c.switchKeys(res.Master, ch.Random, sh.Random, sh.Suite, true, true); err != nil {
				return err
			}
		}
		if err := c.PreUnit(); err != nil {
			return err
		}
		if _, ok := FindExt(sh.Exts, ExtNPN); ok && cfg.NPN && !cfg.NPNSkip {
			res.NPN = true
			var w bld
			w.vec8([]byte(cfg.NPNProto))
			w.vec8(make([]byte, 32-(len(cfg.NPNProto)+2)%32))
			if err := c.WriteHandshake(HsNextProtocol, w.b); err != nil {
				return err
			}
			if err := c.PreUnit(); err != nil {
				return err
			}
		}
		return c.WriteHandshake(HsFinished, FinishedData(sh.Suite, res.Master, true, c.Transcript))
	}
	// resumption?
	if cfg.Ticket != nil && len(ch.SessionID) > 0 && bytes.Equal(sh.SessionID, ch.SessionID) {
		res.Resumed = true
		res.Master = cfg.Master
		m, err := c.ReadHandshake()
		if err != nil {
			return res, err
		}
		if m.Type == HsNewSessionTicket {
			nst, err := ParseNewSessionTicket(m.Body)
			if err != nil {
				return res, err
			}
			res.NewTicket = nst.Ticket
			if m, err = c.ReadHandshake(); err != nil {
				return res, err
			}
		}
		if m.Type != 255 {
			return res, fmt.Errorf("reftls client: got %s, want ChangeCipherSpec (resumption)", HsName(m.Type))
		}
		if err := c.switchKeys(res.Master, ch.Random, sh.Random, sh.Suite, true, false); err != nil {
			return res, err
		}
		if err := readFinished(); err != nil {
			return res, err
		}
		if err := sendFinished(); err != nil {
			return res, err
		}
		res.Complete = true
		return res, nil
	}
	if m, err = c.ReadHandshake(); err != nil {
		return res, err
	}
	if m.Type != HsCertificate {
		return res, fmt.Errorf("reftls client: got %s, want Certificate", HsName(m.Type))
	}
	if res.ServerCerts, err = ParseCertificate(m.Body); err != nil {
		return res, err
	}
	if gm && len(res.ServerCerts) < 2 {
		return res, errors.New("reftls client: fewer than two server certificates")
	}
	if !gm && len(res.ServerCerts) < 1 {
		return res, errors.New("reftls client: empty server certificate list")
	}
	var ecParams *ECDHEParams
	if ecdhe {
		if m, err = c.ReadHandshake(); err != nil {
			return res, err
		}
		if m.Type != HsServerKeyExchange {
			return res, fmt.Errorf("reftls client: got %s, want ServerKeyExchange", HsName(m.Type))
		}
		if ecParams, err = ParseSKXECDHE(m.Body); err != nil {
			return res, err
		}
		res.SKXSig = ecParams.Sig
		if !cfg.SkipSKXCheck {
			signed := append(append(append([]byte(nil), ch.Random...), sh.Random...), ecParams.Params...)
			if checked, ok := VerifyTLS12Sig(res.ServerCerts[0], ecParams.SigAlg, signed, ecParams.Sig); checked && !ok {
				return res, errors.New("reftls client: ECDHE ServerKeyExchange signature invalid")
			}
		}
	}
	if gm {
		if m, err = c.ReadHandshake(); err != nil {
			return res, err
		}
		if m.Type != HsServerKeyExchange {
			return res, fmt.Errorf("reftls client: got %s, want ServerKeyExchange", HsName(m.Type))
		}
		if res.SKXSig, err = ParseVec16Body(m.Body); err != nil {
			return res, err
		}
		if !cfg.SkipSKXCheck {
			sp, err := PubFromCert(res.ServerCerts[0])
			if err != nil {
				return res, err
			}
			if !SM2Verify(sp, SKXSignedData(ch.Random, sh.Random, res.ServerCerts[1]), res.SKXSig) {
				return res, errors.New("reftls client: ServerKeyExchange signature invalid")
			}
		}
	}
	if m, err = c.ReadHandshake(); err != nil {
		return res, err
	}
	if m.Type == HsCertificateRequest {
		if gm {
			res.CertReq, err = ParseCertificateRequest(m.Body)
		} else {
			res.CertReq, err = ParseCertificateRequest12(m.Body)
		}
		if err != nil {
			return res, err
		}
		if m, err = c.ReadHandshake(); err != nil {
			return res, err
		}
	}
	if m.Type != HsServerHelloDone {
		return res, fmt.Errorf("reftls client: got %s, want ServerHelloDone", HsName(m.Type))
	}
	// client flight
	sentCert := false
	if res.CertReq != nil && !cfg.IgnoreCertRequest {
		var chain [][]byte
		if cfg.Cert != nil {
			chain = cfg.Cert.Chain
		}
		if err := c.WriteHandshake(HsCertificate, MarshalCertificate(chain)); err != nil {
			return res, err
		}
		sentCert = len(chain) > 0
		res.ClientCerts = chain
	}
	pre := cfg.PreMasterGuess
	if pre == nil {
		pre = append([]byte{byte(vers >> 8), byte(vers)}, randBytes(cfg.Rand, 46)...)
	}
	var enc []byte
	if ecdhe {
		k, err := ECDHEKey(ecParams.Curve, cfg.Rand)
		if err != nil {
			return res, err
		}
		if pre, err = ECDHEShared(k, ecParams.Point); err != nil {
			return res, fmt.Errorf("reftls client: server ECDHE point: %v", err)
		}
		// (ShareSuffix: extra bytes behind the genuine share, covered by the length byte
		// and hashed as sent - a share of the wrong size from a peer that goes on honestly)
		res.CKXBody = Vec8Body(append(append([]byte(nil), k.PublicKey().Bytes()...), cfg.ShareSuffix...))
	} else if gm {
		ep, err := PubFromCert(res.ServerCerts[1])
		if err != nil {
			return res, err
		}
		for {
			var ok bool
			if enc, ok = SM2Encrypt(ep, pre, randScalar(cfg.Rand)); ok {
				break
			}
		}
	} else {
		n, e, err := RSAPubFromCert(res.ServerCerts[0])
		if err != nil {
			return res, err
		}
		if enc, err = RSAEncrypt(n, e, pre, cfg.Rand); err != nil {
			return res, err
		}
	}
	if !ecdhe {
		res.CKXBody = Vec16Body(enc)
	}
	res.Master = MasterSecret(sh.Suite, pre, ch.Random, sh.Random)
	c.EarlyFin = func() []byte {
		return Handshake(HsFinished, FinishedData(sh.Suite, res.Master, true, c.Transcript))
	}
	if err := c.WriteHandshake(HsClientKeyExchange, res.CKXBody); err != nil {
		return res, err
	}
	if sentCert && !cfg.OmitCertVerify {
		key := cfg.Cert.Key
		if cfg.CertVerifyKey != nil {
			key = cfg.CertVerifyKey
		}
		over := c.Transcript
		if cfg.CertVerifyOver != nil {
			over = cfg.CertVerifyOver
		}
		if gm {
			if key == nil {
				return res, errors.New("reftls client: no SM2 key for CertificateVerify")
			}
			h := refsm3.Sum(over)
			var sig []byte
			for {
				var ok bool
				if sig, ok = SM2Sign(key, h[:], randScalar(cfg.Rand)); ok {
					break
				}
			}
			res.CVBody = Vec16Body(sig)
		} else {
			rk := cfg.Cert.RSA
			if cfg.CertVerifyRSA != nil {
				rk = cfg.CertVerifyRSA
			}
			if rk == nil {
				return res, errors.New("reftls client: no RSA key for CertificateVerify")
			}
			res.CVBody = CertVerify12Body(SigRSAPKCS1SHA256, RSASignSHA256(rk, over))
		}
		if err := c.WriteHandshake(HsCertificateVerify, res.CVBody); err != nil {
			return res, err
		}
	}
	if err := sendFinished(); err != nil {
		return res, err
	}
	if m, err = c.ReadHandshake(); err != nil {
		return res, err
	}
	if m.Type == HsNewSessionTicket {
		nst, err := ParseNewSessionTicket(m.Body)
		if err != nil {
			return res, err
		}
		res.NewTicket = nst.Ticket
		if m, err = c.ReadHandshake(); err != nil {
			return res, err
		}
	}
	if m.Type != 255 {
		return res, fmt.Errorf("reftls client: got %s, want ChangeCipherSpec", HsName(m.Type))
	}
	if err := c.switchKeys(res.Master, ch.Random, sh.Random, sh.Suite, true, false); err != nil {
		return res, err
	}
	if err := readFinished(); err != nil {
		return res, err
	}
	res.Complete = true
	return res, nil
}

// ServerCfg configures the reference server.
type ServerCfg struct {
	Rand        io.Reader
	Suites      []uint16 // preference order
	Sign, Enc   *Identity
	RequestCert bool
	CAs         [][]byte
	// content deviations (impostor behaviour)
	SKXKey       *big.Int  // sign ServerKeyExchange with this key instead of Sign.Key
	SKXRandoms   [2][]byte // sign over these randoms instead of the session's (replay)
	SKXOverCert  []byte    // sign over this certificate instead of Enc.Chain[0]
	SKXRaw       []byte    // send this signature verbatim
	OmitSKX      bool
	GuessPre     []byte   // the server does not hold the encryption key: assume this pre-master
	CertList     [][]byte // send this certificate list instead of sign+enc
	ChooseSuite  uint16   // select this suite regardless of the offer
	Vers         uint16
	Compression  uint8
	VerifyClient bool  // verify CertificateVerify (honest server); result in Result.PeerFinOK
	TLS12        bool  // speak TLS 1.2 even when the selected suite is unknown to the reference
	HelloExts    []Ext // extensions put into the ServerHello
	// ECDHE suites: curve to use (0 = first implemented one the client lists), and
	// deviations: named-curve id and point as sent (and signed)
	ECDHECurve, ECDHEWireCurve uint16
	ECDHEPoint                 []byte
	SKXRSA                     *RSAKey                                        // sign the ECDHE parameters with this key instead of Sign.RSA
	SKXBody                    func(clientRandom, serverRandom []byte) []byte // GM: send this ServerKeyExchange body verbatim
	SKXSigAlg                  uint16                                         // name this SignatureAndHashAlgorithm in the ECDHE ServerKeyExchange (the signature itself stays RSA PKCS#1 v1.5 / SHA-256)
	// session tickets (RFC 5077), reference-server side: IssueTicket is sent in a
	// NewSessionTicket message when the client offered the extension; Resume, when
	// the client offers exactly Resume.Ticket, makes the server do the abbreviated
	// handshake from Resume.Master - with Resume.Suite / Resume.Vers, which an
	// honest server sets to the original session's values
	IssueTicket []byte
	Resume      *ResumeState
	ResumeAny   bool // treat whatever non-empty ticket the client offers as Resume.Ticket
	// IgnoreClientFinished: an impostor without the pre-master cannot read the
	// client's Finished; it skips one record and answers with its own Finished.
	IgnoreClientFinished bool
}

// ResumeState is what the reference server remembers about a session it issued a ticket for.
type ResumeState struct {
	Ticket []byte
	Master []byte
	Suite  uint16
	Vers   uint16
	// SkipClientFinished: do not wait for the client's Finished (used with deviations
	// after which an honest client must already have aborted)
}

// ServerHandshake runs the server side.
func ServerHandshake(c *Conn, cfg *ServerCfg) (*Result, error) {
	res := &Result{}
	m, err := c.ReadHandshake()
	if err != nil {
		return res, err
	}
	if m.Type != HsClientHello {
		return res, fmt.Errorf("reftls server: got %s, want ClientHello", HsName(m.Type))
	}
	ch, err := ParseClientHello(m.Body)
	if err != nil {
		return res, err
	}
	res.CH = ch
	suite := cfg.ChooseSuite
	if suite == 0 {
		for _, s := range cfg.Suites {
			for _, o := range ch.Suites {
				if s == o && suite == 0 {
					suite = s
				}
			}
		}
	}
	if suite == 0 {
		c.WriteRecord(RecAlert, []byte{AlertFatal, AlertHandshakeFailure})
		return res, errors.New("reftls server: no common suite")
	}
	gm := !cfg.TLS12
	if d := Suite(suite); d != nil && !cfg.TLS12 {
		gm = d.GM
	}
	vers := cfg.Vers
	if vers == 0 {
		vers = VersionGM
		if !gm {
			vers = VersionTLS12
		}
	}
	if !gm {
		c.TLS12 = true
	}
	if vers >= 0x0300 {
		c.RecVers = vers
	}
	sh := &ServerHello{Vers: vers, Random: randBytes(cfg.Rand, 32), SessionID: randBytes(cfg.Rand, 32), Suite: suite, Compression: cfg.Compression, Exts: cfg.HelloExts}
	offeredTicket, ticketExt := FindExt(ch.Exts, ExtSessionTicket)
	if rs := cfg.Resume; rs != nil && ticketExt && len(offeredTicket) > 0 && (cfg.ResumeAny || bytes.Equal(offeredTicket, rs.Ticket)) {
		// abbreviated handshake (RFC 5077 figure 2): ServerHello echoing the session
		// id, ChangeCipherSpec, Finished; then the client's ChangeCipherSpec, Finished
		sh.SessionID = ch.SessionID
		sh.Suite = rs.Suite
		if rs.Vers != 0 {
			sh.Vers = rs.Vers
		}
		suite = sh.Suite
		res.SH, res.Suite, res.Resumed, res.Master = sh, suite, true, rs.Master
		if d := Suite(suite); d != nil {
			c.TLS12 = !d.GM
		}
		if err := c.WriteHandshake(HsServerHello, sh.Marshal()); err != nil {
			return res, err
		}
		if err := c.WriteCCS(); err != nil {
			return res, err
		}
		if err := c.switchKeys(res.Master, ch.Random, sh.Random, suite, false, true); err != nil {
			return res, err
		}
		if err := c.WriteHandshake(HsFinished, FinishedData(suite, res.Master, false, c.Transcript)); err != nil {
			return res, err
		}
		m, err := c.ReadHandshake()
		if err != nil {
			return res, err
		}
		if m.Type != 255 {
			return res, fmt.Errorf("reftls server: got %s, want ChangeCipherSpec (resumption)", HsName(m.Type))
		}
		if err := c.switchKeys(res.Master, ch.Random, sh.Random, suite, false, false); err != nil {
			return res, err
		}
		want := FinishedData(suite, res.Master, true, c.Transcript)
		if m, err = c.ReadHandshake(); err != nil {
			return res, err
		}
		if m.Type != HsFinished || !bytes.Equal(m.Body, want) {
			c.WriteRecord(RecAlert, []byte{AlertFatal, AlertDecryptError})
			return res, errors.New("reftls server: client Finished does not verify (resumption)")
		}
		res.PeerFinOK, res.Complete = true, true
		return res, nil
	}
	issue := cfg.IssueTicket != nil && ticketExt
	if issue {
		sh.Exts = append(append([]Ext(nil), sh.Exts...), Ext{ExtSessionTicket, nil})
	}
	res.SH = sh
	res.Suite = suite
	if err := c.WriteHandshake(HsServerHello, sh.Marshal()); err != nil {
		return res, err
	}
	list := cfg.CertList
	if list == nil {
		if gm {
			list = append(append([][]byte(nil), cfg.Sign.Chain[0]), cfg.Enc.Chain[0])
			list = append(list, cfg.Sign.Chain[1:]...)
		} else {
			list = cfg.Sign.Chain
		}
	}
	res.ServerCerts = list
	if err := c.WriteHandshake(HsCertificate, MarshalCertificate(list)); err != nil {
		return res, err
	}
	var ecKey *ecdh.PrivateKey
	if d := Suite(suite); d != nil && d.ECDHE && !gm {
		curve := cfg.ECDHECurve
		if curve == 0 {
			if g, ok := FindExt(ch.Exts, ExtSupportedGroups); ok && len(g) >= 2 {
				for i := 2; i+1 < len(g) && curve == 0; i += 2 {
					if id := uint16(g[i])<<8 | uint16(g[i+1]); curveByID(id) != nil {
						curve = id
					}
				}
			}
			if curve == 0 {
				curve = CurveP256
			}
		}
		if ecKey, err = ECDHEKey(curve, cfg.Rand); err != nil {
			return res, err
		}
		if !cfg.OmitSKX {
			point := ecKey.PublicKey().Bytes()
			if cfg.ECDHEPoint != nil {
				point = cfg.ECDHEPoint
			}
			wireCurve := curve
			if cfg.ECDHEWireCurve != 0 {
				wireCurve = cfg.ECDHEWireCurve
			}
			cr, sr := ch.Random, sh.Random
			if cfg.SKXRandoms[0] != nil {
				cr, sr = cfg.SKXRandoms[0], cfg.SKXRandoms[1]
			}
			signed := append(append(append([]byte(nil), cr...), sr...), ECDHEParamBytes(wireCurve, point)...)
			key := cfg.Sign.RSA
			if cfg.SKXRSA != nil {
				key = cfg.SKXRSA
			}
			body := cfg.SKXRaw
			if body == nil {
				if key == nil {
					return res, errors.New("reftls server: no RSA key to sign the ECDHE parameters")
				}
				res.SKXSig = RSASignSHA256(key, signed)
				alg := uint16(SigRSAPKCS1SHA256)
				if cfg.SKXSigAlg != 0 {
					alg = cfg.SKXSigAlg
				}
				body = MarshalSKXECDHE(wireCurve, point, alg, res.SKXSig)
			}
			if err := c.WriteHandshake(HsServerKeyExchange, body); err != nil {
				return res, err
			}
		}
	}
	if !cfg.OmitSKX && gm && cfg.SKXBody != nil {
		if err := c.WriteHandshake(HsServerKeyExchange, cfg.SKXBody(ch.Random, sh.Random)); err != nil {
			return res, err
		}
	} else if !cfg.OmitSKX && gm {
		sig := cfg.SKXRaw
		if sig == nil {
			cr, sr := ch.Random, sh.Random
			if cfg.SKXRandoms[0] != nil {
				cr, sr = cfg.SKXRandoms[0], cfg.SKXRandoms[1]
			}
			over := cfg.Enc.Chain[0]
			if cfg.SKXOverCert != nil {
				over = cfg.SKXOverCert
			}
			key := cfg.Sign.Key
			if cfg.SKXKey != nil {
				key = cfg.SKXKey
			}
			for {
				var ok bool
				if sig, ok = SM2Sign(key, SKXSignedData(cr, sr, over), randScalar(cfg.Rand)); ok {
					break
				}
			}
		}
		res.SKXSig = sig
		if err := c.WriteHandshake(HsServerKeyExchange, Vec16Body(sig)); err != nil {
			return res, err
		}
	}
	if cfg.RequestCert {
		cr := &CertificateRequest{Types: []byte{1, 64}, CAs: cfg.CAs}
		res.CertReq = cr
		body := cr.Marshal()
		if !gm {
			cr.SigAlgs = []uint16{SigRSAPKCS1SHA256}
			body = cr.Marshal12()
		}
		if err := c.WriteHandshake(HsCertificateRequest, body); err != nil {
			return res, err
		}
	}
	if err := c.WriteHandshake(HsServerHelloDone, nil); err != nil {
		return res, err
	}
	// client flight
	if m, err = c.ReadHandshake(); err != nil {
		return res, err
	}
	if m.Type == HsCertificate {
		if res.ClientCerts, err = ParseCertificate(m.Body); err != nil {
			return res, err
		}
		if m, err = c.ReadHandshake(); err != nil {
			return res, err
		}
	}
	if m.Type != HsClientKeyExchange {
		return res, fmt.Errorf("reftls server: got %s, want ClientKeyExchange", HsName(m.Type))
	}
	res.CKXBody = m.Body
	var enc, pre []byte
	if ecKey != nil {
		pt, err := ParseVec8Body(m.Body)
		if err != nil {
			return res, err
		}
		if pre, err = ECDHEShared(ecKey, pt); err != nil {
			c.WriteRecord(RecAlert, []byte{AlertFatal, AlertDecryptError})
			return res, fmt.Errorf("reftls server: client ECDHE point: %v", err)
		}
	} else if enc, err = ParseVec16Body(m.Body); err != nil {
		return res, err
	}
	if ecKey != nil {
	} else if !gm && cfg.Sign != nil && cfg.Sign.RSA != nil {
		var ok bool
		if pre, ok = RSADecrypt(cfg.Sign.RSA, enc); !ok || len(pre) != 48 {
			c.WriteRecord(RecAlert, []byte{AlertFatal, AlertDecryptError})
			return res, errors.New("reftls server: cannot decrypt the pre-master secret")
		}
	} else if gm && cfg.Enc != nil && cfg.Enc.Key != nil {
		var ok bool
		if pre, ok = SM2Decrypt(cfg.Enc.Key, enc); !ok {
			c.WriteRecord(RecAlert, []byte{AlertFatal, AlertDecryptError})
			return res, errors.New("reftls server: cannot decrypt the pre-master secret")
		}
	} else {
		pre = cfg.GuessPre
	}
	res.Master = MasterSecret(suite, pre, ch.Random, sh.Random)
	transcriptBeforeCV := append([]byte(nil), c.Transcript...)
	if m, err = c.ReadHandshake(); err != nil {
		return res, err
	}
	if m.Type == HsCertificateVerify {
		res.CVBody = m.Body
		if cfg.VerifyClient && len(res.ClientCerts) > 0 {
			if gm {
				sig, err := ParseVec16Body(m.Body)
				if err != nil {
					return res, err
				}
				cp, err := PubFromCert(res.ClientCerts[0])
				if err != nil {
					return res, err
				}
				h := refsm3.Sum(transcriptBeforeCV)
				if !SM2Verify(cp, h[:], sig) {
					return res, errors.New("reftls server: CertificateVerify invalid")
				}
			} else {
				alg, sig, err := ParseCertVerify12(m.Body)
				if err != nil {
					return res, err
				}
				n, e, err := RSAPubFromCert(res.ClientCerts[0])
				if err != nil {
					return res, err
				}
				if alg != SigRSAPKCS1SHA256 || !RSAVerifySHA256(n, e, transcriptBeforeCV, sig) {
					return res, errors.New("reftls server: CertificateVerify invalid")
				}
			}
		}
		if m, err = c.ReadHandshake(); err != nil {
			return res, err
		}
	}
	if m.Type != 255 {
		return res, fmt.Errorf("reftls server: got %s, want ChangeCipherSpec", HsName(m.Type))
	}
	if cfg.IgnoreClientFinished {
		if _, _, err := c.ReadRecord(); err != nil { // still unprotected: the bytes are opaque to us
			return res, err
		}
		// pretend we saw the Finished the client would send under our guessed secret
		c.Transcript = append(c.Transcript, Handshake(HsFinished, FinishedData(suite, res.Master, true, c.Transcript))...)
	} else {
		if err := c.switchKeys(res.Master, ch.Random, sh.Random, suite, false, false); err != nil {
			return res, err
		}
		want := FinishedData(suite, res.Master, true, c.Transcript)
		if m, err = c.ReadHandshake(); err != nil {
			return res, err
		}
		if m.Type != HsFinished {
			return res, fmt.Errorf("reftls server: got %s, want Finished", HsName(m.Type))
		}
		res.PeerFinOK = bytes.Equal(m.Body, want)
		if !res.PeerFinOK {
			c.WriteRecord(RecAlert, []byte{AlertFatal, AlertDecryptError})
			return res, errors.New("reftls server: client Finished does not verify")
		}
	}
	if issue {
		nst := &NewSessionTicket{Lifetime: 7200, Ticket: cfg.IssueTicket}
		if err := c.WriteHandshake(HsNewSessionTicket, nst.Marshal()); err != nil {
			return res, err
		}
		res.NewTicket = cfg.IssueTicket
	}
	if err := c.WriteCCS(); err != nil {
		return res, err
	}
	if !c.PlainFinished {
		if err := c.switchKeys(res.Master, ch.Random, sh.Random, suite, false, true); err != nil {
			return res, err
		}
	}
	if err := c.PreUnit(); err != nil {
		return res, err
	}
	if err := c.WriteHandshake(HsFinished, FinishedData(suite, res.Master, false, c.Transcript)); err != nil {
		return res, err
	}
	res.Complete = true
	return res, nil
}
