package reftls

import (
	"bytes"
	"encoding/asn1"
	"encoding/binary"
	"encoding/hex"
	"errors"
	"fmt"
	"math/big"
	"strings"

	"github.com/tjfoc/gmsm/verifsim/ref/refsm2"
	"github.com/tjfoc/gmsm/verifsim/ref/refsm3"
)

type spkiASN struct {
	Algo asn1.RawValue
	Key  asn1.BitString
}

type tbsASN struct {
	Version  int `asn1:"optional,explicit,default:0,tag:0"`
	Serial   *big.Int
	SigAlg   asn1.RawValue
	Issuer   asn1.RawValue
	Validity asn1.RawValue
	Subject  asn1.RawValue
	SPKI     spkiASN
}

type certASN struct {
	TBS tbsASN
}

// PubFromCert extracts the SM2 public key point from a certificate.
func PubFromCert(der []byte) (refsm2.Point, error) {
	var c certASN
	if _, err := asn1.Unmarshal(der, &c); err != nil {
		return refsm2.Point{}, err
	}
	k := c.TBS.SPKI.Key.Bytes
	if len(k) != 65 || k[0] != 4 {
		return refsm2.Point{}, errors.New("reftls: not an uncompressed 256-bit EC point")
	}
	p := refsm2.Point{X: new(big.Int).SetBytes(k[1:33]), Y: new(big.Int).SetBytes(k[33:])}
	if !refsm2.OnCurve(p) {
		return refsm2.Point{}, errors.New("reftls: public key not on the SM2 curve")
	}
	return p, nil
}

// SubjectFromCert returns the raw subject DN.
func SubjectFromCert(der []byte) []byte {
	var c certASN
	if _, err := asn1.Unmarshal(der, &c); err != nil {
		return nil
	}
	return c.TBS.Subject.FullBytes
}

// ParseKeyLog parses NSS key log lines into client_random(hex) -> master.
func ParseKeyLog(b []byte) map[string][]byte {
	m := map[string][]byte{}
	for _, ln := range strings.Split(string(b), "\n") {
		f := strings.Fields(ln)
		if len(f) == 3 && f[0] == "CLIENT_RANDOM" {
			if ms, err := hex.DecodeString(f[2]); err == nil {
				m[strings.ToLower(f[1])] = ms
			}
		}
	}
	return m
}

// RecInfo describes one record seen on the wire.
type RecInfo struct {
	Type      uint8
	Protected bool
	Seq       uint64
	Explicit  []byte
	LastCT    []byte
	PadLen    int
	PlainLen  int
	WireLen   int
}

// DecodeOpts parameterises Decode.
type DecodeOpts struct {
	KeyLog map[string][]byte // client_random hex -> master secret (from either endpoint's key log)
	EncD   *big.Int          // server's encryption private key: if set, the pre-master is decrypted independently
	RSAD   *RSAKey           // TLS 1.2 RSA key exchange: the server key, same purpose
	// Tolerant: stop at the first record that does not authenticate instead of
	// failing (used when the capture contains injected faults).
	Tolerant bool
}

// Session is the independent view of a captured connection.
type Session struct {
	CH          *ClientHello
	SH          *ServerHello
	Suite       uint16
	Resumed     bool
	ServerCerts [][]byte
	ClientCerts [][]byte
	CertReq     *CertificateRequest
	HasCertReq  bool
	Ticket      []byte // NewSessionTicket issued by the server (nil if none)
	Master      []byte
	PreMaster   []byte
	Msgs        [2][]HsMsg // handshake messages per direction (0 = c2s, 1 = s2c), in order
	App         [2][]byte  // application data plaintext per direction
	Recs        [2][]RecInfo
	Alerts      [2][][2]byte // plaintext or decrypted alerts
	CloseNotify [2]bool
	Complete    bool      // both Finished verified
	Stopped     [2]string // Tolerant: why decoding of a direction stopped
	Transcript  []byte
	ECDHECurve  uint16
	CVChecked   bool // TLS 1.2: the CertificateVerify signature was of a kind the reference verifies
}

type dirState struct {
	recs    []Record
	i       int
	half    *Half
	hsBuf   []byte
	queue   []HsMsg
	stopped string
}

// nextHS returns the next handshake message of a direction, reading records
// as needed; CCS switches protection on. ok=false when the stream has no more.
func (s *Session) next(d int, st *dirState, keys func() (*Half, error), tolerant bool) (*HsMsg, error) {
	for {
		if len(st.queue) > 0 {
			m := st.queue[0]
			st.queue = st.queue[1:]
			return &m, nil
		}
		if st.i >= len(st.recs) || st.stopped != "" {
			return nil, nil
		}
		r := st.recs[st.i]
		st.i++
		body := r.Body
		info := RecInfo{Type: r.Type, WireLen: len(r.Body)}
		if s.SH == nil && r.Vers >= 0x0301 && r.Vers <= VersionTLS12 {
			// TLS: records before the version is negotiated may carry 0x0301..0x0303
		} else if want := s.recVers(); r.Vers != want {
			return nil, fmt.Errorf("record %d of direction %d has version %04x, want %04x", st.i-1, d, r.Vers, want)
		}
		if st.half != nil {
			info.Protected = true
			info.Seq = st.half.Seq
			pt, ui, err := st.half.Unprotect(r.Type, r.Vers, r.Body)
			if err != nil {
				if tolerant {
					st.stopped = fmt.Sprintf("record %d does not authenticate", st.i-1)
					s.Recs[d] = append(s.Recs[d], info)
					return nil, nil
				}
				return nil, fmt.Errorf("direction %d record %d (type %d, %d bytes, seq %d) does not decrypt/authenticate under the independently derived keys", d, st.i-1, r.Type, len(r.Body), info.Seq)
			}
			body = pt
			info.Explicit, info.LastCT, info.PadLen = ui.Explicit, ui.LastCT, ui.PadLen
		}
		info.PlainLen = len(body)
		s.Recs[d] = append(s.Recs[d], info)
		switch r.Type {
		case RecHandshake:
			st.hsBuf = append(st.hsBuf, body...)
			var msgs []HsMsg
			msgs, st.hsBuf = SplitHandshake(st.hsBuf)
			// copy: hsBuf may be reallocated
			for _, m := range msgs {
				raw := append([]byte(nil), m.Raw...)
				st.queue = append(st.queue, HsMsg{Type: m.Type, Body: raw[4:], Raw: raw})
			}
		case RecCCS:
			if len(body) != 1 || body[0] != 1 {
				return nil, fmt.Errorf("direction %d: malformed ChangeCipherSpec", d)
			}
			if len(st.hsBuf) != 0 {
				return nil, fmt.Errorf("direction %d: ChangeCipherSpec in the middle of a handshake message", d)
			}
			h, err := keys()
			if err != nil {
				return nil, err
			}
			st.half = h
			return &HsMsg{Type: 255}, nil // marker
		case RecAlert:
			if len(body) == 2 {
				s.Alerts[d] = append(s.Alerts[d], [2]byte{body[0], body[1]})
				if body[1] == AlertCloseNotify {
					s.CloseNotify[d] = true
				}
			}
		case RecApp:
			if st.half == nil {
				return nil, fmt.Errorf("direction %d: application data before ChangeCipherSpec", d)
			}
			s.App[d] = append(s.App[d], body...)
		default:
			return nil, fmt.Errorf("direction %d: unknown record type %d", d, r.Type)
		}
	}
}

func (s *Session) recVers() uint16 {
	if s.SH != nil {
		return s.SH.Vers
	}
	return VersionGM
}

// GM reports whether the session negotiated a GM/T 0024 suite.
func (s *Session) GM() bool {
	d := Suite(s.Suite)
	return d == nil || d.GM
}

// Decodable reports whether Decode can follow a session with these parameters:
// GM/T 0024 ECC suites, TLS 1.2 with RSA key exchange, and abbreviated TLS 1.2
// handshakes of the ECDHE AES suites (with the master secret from a key log).
func Decodable(vers, suite uint16, resumed bool) bool {
	d := Suite(suite)
	if d == nil {
		return false
	}
	if d.GM {
		return vers == VersionGM
	}
	return vers == VersionTLS12
}

// Decode replays a captured GMSSL (or TLS 1.2 RSA key exchange) connection independently.
func Decode(c2s, s2c []byte, o DecodeOpts) (*Session, error) {
	s := &Session{}
	var st [2]*dirState
	rc, _ := ParseRecords(c2s)
	rs, _ := ParseRecords(s2c)
	st[0] = &dirState{recs: rc}
	st[1] = &dirState{recs: rs}
	var keys Keys
	haveKeys := false
	getKeys := func() error {
		if haveKeys {
			return nil
		}
		if s.Master == nil {
			return errors.New("master secret not known at ChangeCipherSpec")
		}
		var err error
		keys, err = KeyBlock(s.Master, s.CH.Random, s.SH.Random, s.Suite)
		haveKeys = err == nil
		return err
	}
	kc := func() (*Half, error) {
		if err := getKeys(); err != nil {
			return nil, err
		}
		return NewHalf(s.Suite, keys.CKey, keys.CMac, keys.CIV)
	}
	ks := func() (*Half, error) {
		if err := getKeys(); err != nil {
			return nil, err
		}
		return NewHalf(s.Suite, keys.SKey, keys.SMac, keys.SIV)
	}
	kf := [2]func() (*Half, error){kc, ks}
	next := func(d int) (*HsMsg, error) {
		m, err := s.next(d, st[d], kf[d], o.Tolerant)
		if err != nil {
			return nil, err
		}
		if m != nil && m.Type != 255 {
			s.Msgs[d] = append(s.Msgs[d], *m)
		}
		return m, nil
	}
	expect := func(d int, typ uint8) (*HsMsg, error) {
		m, err := next(d)
		if err != nil {
			return nil, err
		}
		if m == nil {
			return nil, fmt.Errorf("direction %d ended, expected %s", d, HsName(typ))
		}
		if m.Type != typ {
			if m.Type == 255 {
				return nil, fmt.Errorf("direction %d: ChangeCipherSpec where %s was expected", d, HsName(typ))
			}
			return nil, fmt.Errorf("direction %d: %s where %s was expected", d, HsName(m.Type), HsName(typ))
		}
		return m, nil
	}
	tr := func(m *HsMsg) { s.Transcript = append(s.Transcript, m.Raw...) }

	m, err := expect(0, HsClientHello)
	if err != nil {
		return s, err
	}
	if s.CH, err = ParseClientHello(m.Body); err != nil {
		return s, fmt.Errorf("ClientHello: %v", err)
	}
	tr(m)
	if s.CH.Vers != VersionGM && s.CH.Vers != VersionTLS12 {
		return s, fmt.Errorf("ClientHello version %04x", s.CH.Vers)
	}
	if m, err = expect(1, HsServerHello); err != nil {
		return s, err
	}
	if s.SH, err = ParseServerHello(m.Body); err != nil {
		return s, fmt.Errorf("ServerHello: %v", err)
	}
	tr(m)
	// both randoms carry 28 bytes from the endpoint's entropy source (whatever read
	// sizes that source delivers): a run of 8 zero bytes does not happen by chance
	for _, hr := range []struct {
		who string
		r   []byte
	}{{"ClientHello", s.CH.Random}, {"ServerHello", s.SH.Random}} {
		if n := longestZeroRun(hr.r); len(hr.r) == 32 && n >= 8 {
			return s, fmt.Errorf("%s.random holds %d consecutive zero bytes: the field was not filled from the entropy source", hr.who, n)
		}
	}
	if s.SH.Vers != s.CH.Vers {
		return s, fmt.Errorf("ServerHello version %04x, ClientHello version %04x", s.SH.Vers, s.CH.Vers)
	}
	s.Suite = s.SH.Suite
	offered := false
	for _, id := range s.CH.Suites {
		if id == s.Suite {
			offered = true
		}
	}
	if !offered {
		return s, fmt.Errorf("server selected suite %04x which the client did not offer", s.Suite)
	}
	if _, _, _, ok := SuiteParams(s.Suite); !ok {
		return s, fmt.Errorf("suite %04x not decodable by the reference", s.Suite)
	}
	if VersionOf(s.Suite) != s.SH.Vers {
		return s, fmt.Errorf("suite %04x selected under version %04x", s.Suite, s.SH.Vers)
	}
	gm := s.GM()
	if s.SH.Compression != 0 {
		return s, errors.New("non-null compression selected")
	}
	if o.KeyLog != nil {
		s.Master = o.KeyLog[hex.EncodeToString(s.CH.Random)]
	}

	// what follows the ServerHello decides full vs abbreviated handshake
	m, err = next(1)
	if err != nil {
		return s, err
	}
	if m == nil {
		return s, errors.New("server flight ended after ServerHello")
	}
	verifyFinished := func(d int, client bool) error {
		fm, err := expect(d, HsFinished)
		if err != nil {
			return err
		}
		want := FinishedData(s.Suite, s.Master, client, s.Transcript)
		if !bytes.Equal(fm.Body, want) {
			return fmt.Errorf("Finished of direction %d does not match PRF(master, label, SM3(transcript)): got %x want %x", d, fm.Body, want)
		}
		tr(fm)
		return nil
	}
	if m.Type == HsNewSessionTicket || m.Type == 255 {
		// abbreviated handshake
		s.Resumed = true
		if s.Master == nil {
			return s, errors.New("resumed session but no master secret in the key log")
		}
		if m.Type == HsNewSessionTicket {
			nst, err := ParseNewSessionTicket(m.Body)
			if err != nil {
				return s, err
			}
			s.Ticket = nst.Ticket
			tr(m)
			if m, err = next(1); err != nil {
				return s, err
			}
			if m == nil || m.Type != 255 {
				return s, errors.New("expected server ChangeCipherSpec after NewSessionTicket")
			}
		}
		if err := verifyFinished(1, false); err != nil {
			return s, err
		}
		if m, err = next(0); err != nil {
			return s, err
		}
		if m == nil || m.Type != 255 {
			return s, errors.New("expected client ChangeCipherSpec in abbreviated handshake")
		}
		if err := verifyFinished(0, true); err != nil {
			return s, err
		}
	} else {
		if m.Type != HsCertificate {
			return s, fmt.Errorf("%s after ServerHello, expected Certificate", HsName(m.Type))
		}
		if s.ServerCerts, err = ParseCertificate(m.Body); err != nil {
			return s, err
		}
		tr(m)
		ecdhe := Suite(s.Suite).ECDHE
		if ecdhe {
			// the key exchange itself is not re-done (the ephemeral keys are gone): the
			// parameters' signature is verified and the master secret comes from the key log
			if s.Master == nil {
				return s, fmt.Errorf("full ECDHE handshake (suite %04x) but no master secret in the key log", s.Suite)
			}
			if len(s.ServerCerts) < 1 {
				return s, errors.New("server Certificate message is empty")
			}
			if m, err = expect(1, HsServerKeyExchange); err != nil {
				return s, err
			}
			ep, err := ParseSKXECDHE(m.Body)
			if err != nil {
				return s, fmt.Errorf("ServerKeyExchange: %v", err)
			}
			signed := append(append(append([]byte(nil), s.CH.Random...), s.SH.Random...), ep.Params...)
			if checked, ok := VerifyTLS12Sig(s.ServerCerts[0], ep.SigAlg, signed, ep.Sig); checked && !ok {
				return s, errors.New("ECDHE ServerKeyExchange signature does not verify over client_random||server_random||params under the server certificate")
			}
			s.ECDHECurve = ep.Curve
			tr(m)
		} else if gm {
			if len(s.ServerCerts) < 2 {
				return s, errors.New("server Certificate message carries fewer than two certificates")
			}
			if m, err = expect(1, HsServerKeyExchange); err != nil {
				return s, err
			}
			sig, err := ParseVec16Body(m.Body)
			if err != nil {
				return s, fmt.Errorf("ServerKeyExchange: %v", err)
			}
			signPub, err := PubFromCert(s.ServerCerts[0])
			if err != nil {
				return s, fmt.Errorf("signing certificate: %v", err)
			}
			if !SM2Verify(signPub, SKXSignedData(s.CH.Random, s.SH.Random, s.ServerCerts[1]), sig) {
				return s, errors.New("ServerKeyExchange signature does not verify over client_random||server_random||encryption certificate under the signing certificate")
			}
			tr(m)
		} else if len(s.ServerCerts) < 1 {
			return s, errors.New("server Certificate message is empty")
		}
		if m, err = next(1); err != nil {
			return s, err
		}
		if m != nil && m.Type == HsCertificateRequest {
			if gm {
				s.CertReq, err = ParseCertificateRequest(m.Body)
			} else {
				s.CertReq, err = ParseCertificateRequest12(m.Body)
			}
			if err != nil {
				return s, fmt.Errorf("CertificateRequest: %v", err)
			}
			s.HasCertReq = true
			tr(m)
			if m, err = next(1); err != nil {
				return s, err
			}
		}
		if m == nil || m.Type != HsServerHelloDone || len(m.Body) != 0 {
			return s, errors.New("expected empty ServerHelloDone")
		}
		tr(m)
		// client flight
		if m, err = next(0); err != nil {
			return s, err
		}
		if m != nil && m.Type == HsCertificate {
			if !s.HasCertReq {
				return s, errors.New("client Certificate without CertificateRequest")
			}
			if s.ClientCerts, err = ParseCertificate(m.Body); err != nil {
				return s, err
			}
			tr(m)
			if m, err = next(0); err != nil {
				return s, err
			}
		}
		if m == nil || m.Type != HsClientKeyExchange {
			return s, errors.New("expected ClientKeyExchange")
		}
		var enc []byte
		if ecdhe {
			if _, err := ParseVec8Body(m.Body); err != nil {
				return s, fmt.Errorf("ClientKeyExchange: %v", err)
			}
		} else if enc, err = ParseVec16Body(m.Body); err != nil {
			return s, fmt.Errorf("ClientKeyExchange: %v", err)
		}
		tr(m)
		if (gm && o.EncD != nil) || (!gm && !ecdhe && o.RSAD != nil) {
			var pre []byte
			var ok bool
			if gm {
				pre, ok = SM2Decrypt(o.EncD, enc)
			} else {
				pre, ok = RSADecrypt(o.RSAD, enc)
			}
			if !ok {
				return s, errors.New("ClientKeyExchange does not decrypt under the server's encryption key (GM/T 0009 SM2Cipher / RSAES-PKCS1-v1_5)")
			}
			if len(pre) != 48 {
				return s, fmt.Errorf("pre-master secret is %d bytes, want 48", len(pre))
			}
			if binary.BigEndian.Uint16(pre) != s.CH.Vers {
				return s, fmt.Errorf("pre-master secret version %04x != ClientHello version %04x", binary.BigEndian.Uint16(pre), s.CH.Vers)
			}
			s.PreMaster = pre
			ms := MasterSecret(s.Suite, pre, s.CH.Random, s.SH.Random)
			if s.Master != nil && !bytes.Equal(ms, s.Master) {
				return s, fmt.Errorf("PRF-SM3(pre-master, \"master secret\", randoms) = %x but the endpoint logged %x", ms, s.Master)
			}
			s.Master = ms
		}
		if s.Master == nil {
			return s, errors.New("no master secret (no key log entry and no encryption key)")
		}
		if m, err = next(0); err != nil {
			return s, err
		}
		if len(s.ClientCerts) > 0 {
			if m == nil || m.Type != HsCertificateVerify {
				return s, errors.New("client sent a certificate but no CertificateVerify")
			}
			if gm {
				cvSig, err := ParseVec16Body(m.Body)
				if err != nil {
					return s, fmt.Errorf("CertificateVerify: %v", err)
				}
				cpub, err := PubFromCert(s.ClientCerts[0])
				if err != nil {
					return s, fmt.Errorf("client certificate: %v", err)
				}
				h := refsm3.Sum(s.Transcript)
				if !SM2Verify(cpub, h[:], cvSig) {
					return s, errors.New("CertificateVerify does not verify over SM3(handshake messages) under the client certificate")
				}
			} else {
				alg, cvSig, err := ParseCertVerify12(m.Body)
				if err != nil {
					return s, fmt.Errorf("CertificateVerify: %v", err)
				}
				// only RSA PKCS#1 v1.5 / SHA-256 client signatures are checked; others are left to the stdlib peer runs
				if n, e, err := RSAPubFromCert(s.ClientCerts[0]); err == nil && alg == SigRSAPKCS1SHA256 {
					if !RSAVerifySHA256(n, e, s.Transcript, cvSig) {
						return s, errors.New("CertificateVerify does not verify over the handshake messages under the client certificate")
					}
					s.CVChecked = true
				}
			}
			tr(m)
			if m, err = next(0); err != nil {
				return s, err
			}
		}
		if m == nil || m.Type != 255 {
			return s, errors.New("expected client ChangeCipherSpec")
		}
		if err := verifyFinished(0, true); err != nil {
			return s, err
		}
		// server: [NewSessionTicket] CCS Finished
		if m, err = next(1); err != nil {
			return s, err
		}
		if m != nil && m.Type == HsNewSessionTicket {
			nst, err := ParseNewSessionTicket(m.Body)
			if err != nil {
				return s, err
			}
			s.Ticket = nst.Ticket
			tr(m)
			if m, err = next(1); err != nil {
				return s, err
			}
		}
		if m == nil || m.Type != 255 {
			return s, errors.New("expected server ChangeCipherSpec")
		}
		if err := verifyFinished(1, false); err != nil {
			return s, err
		}
	}
	s.Complete = true
	// drain application phase
	for d := 0; d < 2; d++ {
		for {
			m, err := next(d)
			if err != nil {
				return s, err
			}
			if m == nil {
				break
			}
			return s, fmt.Errorf("direction %d: handshake message %s after Finished", d, HsName(m.Type))
		}
		s.Stopped[d] = st[d].stopped
	}
	return s, nil
}

// AuditNonces checks the IV/nonce/sequence discipline of the protected
// records of one direction.
func (s *Session) AuditNonces(d int) error {
	seen := map[string]int{}
	var prevLast, prevIV []byte
	var want uint64
	first := true
	for i, r := range s.Recs[d] {
		if !r.Protected || r.Explicit == nil {
			continue
		}
		if Suite(s.Suite).AEAD {
			got := binary.BigEndian.Uint64(r.Explicit)
			if first {
				want = got
				first = false
				if got != 0 {
					// RFC 5288 allows any unique value; the property demands the sequence number
					return fmt.Errorf("direction %d record %d: first explicit nonce is %d, not 0", d, i, got)
				}
			}
			if got != want {
				return fmt.Errorf("direction %d record %d: explicit nonce %d, expected %d", d, i, got, want)
			}
			want++
		} else {
			if prevIV != nil && len(prevIV) == len(r.Explicit) {
				same := 0
				for x := range prevIV {
					if prevIV[x] == r.Explicit[x] {
						same++
					}
				}
				if same >= 6 {
					return fmt.Errorf("direction %d record %d: %d of the %d explicit IV bytes equal the previous record's IV at the same positions (stale bytes, not fresh randomness)", d, i, same, len(prevIV))
				}
			}
			prevIV = r.Explicit
			k := string(r.Explicit)
			if j, dup := seen[k]; dup {
				return fmt.Errorf("direction %d: records %d and %d use the same explicit IV", d, j, i)
			}
			seen[k] = i
			if prevLast != nil && bytes.Equal(prevLast, r.Explicit) {
				return fmt.Errorf("direction %d record %d: explicit IV equals the previous record's last ciphertext block", d, i)
			}
			prevLast = r.LastCT
		}
	}
	return nil
}

func longestZeroRun(b []byte) int {
	best, cur := 0, 0
	for _, x := range b {
		if x == 0 {
			cur++
			if cur > best {
				best = cur
			}
		} else {
			cur = 0
		}
	}
	return best
}
