package reftls

import (
	"crypto/aes"
	"crypto/cipher"
	"crypto/hmac"
	"crypto/sha1"
	"crypto/sha256"
	"crypto/sha512"
	"crypto/subtle"
	"encoding/binary"
	"errors"
	"hash"
	"io"
	"math/big"

	"github.com/tjfoc/gmsm/verifsim/ref/refsm2"
	"github.com/tjfoc/gmsm/verifsim/ref/refsm3"
	"github.com/tjfoc/gmsm/verifsim/ref/refsm4"
)

// Additional suites: TLS 1.2 with RSA key exchange (RFC 5246), so that the
// reference endpoints can also play a plain TLS peer. AES and SHA come from the
// Go standard library.
const (
	VersionTLS12       = 0x0303
	SuiteRSAAES128CBC  = 0x002f // TLS_RSA_WITH_AES_128_CBC_SHA
	SuiteRSAAES128GCM  = 0x009c // TLS_RSA_WITH_AES_128_GCM_SHA256
	SuiteRSAAES128CBC2 = 0x003c // TLS_RSA_WITH_AES_128_CBC_SHA256
	SuiteRSAAES256CBC  = 0x0035 // TLS_RSA_WITH_AES_256_CBC_SHA
	SuiteRSAAES256GCM  = 0x009d // TLS_RSA_WITH_AES_256_GCM_SHA384
)

// SuiteDef describes how a suite protects records and derives keys.
type SuiteDef struct {
	ID                    uint16
	MacLen, KeyLen, IVLen int
	AEAD                  bool
	GM                    bool // GM/T 0024 ECC suite (SM2 key exchange, SM3 PRF, SM4); otherwise TLS 1.2 RSA/AES
	ECDHE                 bool // ECDHE key exchange (RSA or ECDSA authenticated); otherwise RSA key exchange
	prfHash, macHash      func() hash.Hash
	newBlock              func(key []byte) (cipher.Block, error)
}

var suiteDefs = []SuiteDef{
	{ID: SuiteCBC, MacLen: 32, KeyLen: 16, IVLen: 16, GM: true, prfHash: refsm3.New, macHash: refsm3.New, newBlock: refsm4.NewCipher},
	{ID: SuiteGCM, MacLen: 0, KeyLen: 16, IVLen: 4, AEAD: true, GM: true, prfHash: refsm3.New, newBlock: refsm4.NewCipher},
	{ID: SuiteRSAAES128CBC, MacLen: 20, KeyLen: 16, IVLen: 16, prfHash: sha256.New, macHash: sha1.New, newBlock: aes.NewCipher},
	{ID: SuiteRSAAES128CBC2, MacLen: 32, KeyLen: 16, IVLen: 16, prfHash: sha256.New, macHash: sha256.New, newBlock: aes.NewCipher},
	{ID: SuiteRSAAES128GCM, MacLen: 0, KeyLen: 16, IVLen: 4, AEAD: true, prfHash: sha256.New, newBlock: aes.NewCipher},
	{ID: SuiteRSAAES256CBC, MacLen: 20, KeyLen: 32, IVLen: 16, prfHash: sha256.New, macHash: sha1.New, newBlock: aes.NewCipher},
	{ID: SuiteRSAAES256GCM, MacLen: 0, KeyLen: 32, IVLen: 4, AEAD: true, prfHash: sha512.New384, newBlock: aes.NewCipher},
	// TLS_ECDHE_{RSA,ECDSA}_WITH_AES_{128_GCM_SHA256,256_GCM_SHA384,128_CBC_SHA,256_CBC_SHA}
	{ID: 0xc02f, ECDHE: true, MacLen: 0, KeyLen: 16, IVLen: 4, AEAD: true, prfHash: sha256.New, newBlock: aes.NewCipher},
	{ID: 0xc02b, ECDHE: true, MacLen: 0, KeyLen: 16, IVLen: 4, AEAD: true, prfHash: sha256.New, newBlock: aes.NewCipher},
	{ID: 0xc030, ECDHE: true, MacLen: 0, KeyLen: 32, IVLen: 4, AEAD: true, prfHash: sha512.New384, newBlock: aes.NewCipher},
	{ID: 0xc02c, ECDHE: true, MacLen: 0, KeyLen: 32, IVLen: 4, AEAD: true, prfHash: sha512.New384, newBlock: aes.NewCipher},
	{ID: 0xc013, ECDHE: true, MacLen: 20, KeyLen: 16, IVLen: 16, prfHash: sha256.New, macHash: sha1.New, newBlock: aes.NewCipher},
	{ID: 0xc009, ECDHE: true, MacLen: 20, KeyLen: 16, IVLen: 16, prfHash: sha256.New, macHash: sha1.New, newBlock: aes.NewCipher},
	{ID: 0xc014, ECDHE: true, MacLen: 20, KeyLen: 32, IVLen: 16, prfHash: sha256.New, macHash: sha1.New, newBlock: aes.NewCipher},
	{ID: 0xc00a, ECDHE: true, MacLen: 20, KeyLen: 32, IVLen: 16, prfHash: sha256.New, macHash: sha1.New, newBlock: aes.NewCipher},
}

// Suite returns the definition of a suite the reference implements.
func Suite(id uint16) *SuiteDef {
	for i := range suiteDefs {
		if suiteDefs[i].ID == id {
			return &suiteDefs[i]
		}
	}
	return nil
}

// VersionOf returns the protocol version a suite belongs to.
func VersionOf(id uint16) uint16 {
	if d := Suite(id); d != nil && !d.GM {
		return VersionTLS12
	}
	return VersionGM
}

func prfHashOf(suite uint16) func() hash.Hash {
	if d := Suite(suite); d != nil {
		return d.prfHash
	}
	return refsm3.New
}

// PRF is the TLS 1.2 style P_hash with HMAC-SM3 (GM/T 0024 §5.2.3 / RFC 5246 §5).
func PRF(secret []byte, label string, seed []byte, n int) []byte {
	return PRFWith(refsm3.New, secret, label, seed, n)
}

// PRFWith is P_hash over an arbitrary hash.
func PRFWith(hf func() hash.Hash, secret []byte, label string, seed []byte, n int) []byte {
	ls := append([]byte(label), seed...)
	h := hmac.New(hf, secret)
	h.Write(ls)
	a := h.Sum(nil)
	var out []byte
	for len(out) < n {
		h.Reset()
		h.Write(a)
		h.Write(ls)
		out = h.Sum(out)
		h.Reset()
		h.Write(a)
		a = h.Sum(nil)
	}
	return out[:n]
}

// MasterSecret derives the 48-byte master secret (PRF of the suite's family).
func MasterSecret(suite uint16, pre, clientRandom, serverRandom []byte) []byte {
	seed := append(append([]byte(nil), clientRandom...), serverRandom...)
	return PRFWith(prfHashOf(suite), pre, "master secret", seed, 48)
}

// Keys is the partitioned key block.
type Keys struct {
	CMac, SMac, CKey, SKey, CIV, SIV []byte
}

// SuiteParams returns (macLen, keyLen, ivLen) of a suite.
func SuiteParams(suite uint16) (mac, key, iv int, ok bool) {
	if d := Suite(suite); d != nil {
		return d.MacLen, d.KeyLen, d.IVLen, true
	}
	return 0, 0, 0, false
}

// KeyBlock derives and partitions the key block.
func KeyBlock(master, clientRandom, serverRandom []byte, suite uint16) (Keys, error) {
	ml, kl, il, ok := SuiteParams(suite)
	if !ok {
		return Keys{}, errors.New("reftls: unknown suite")
	}
	seed := append(append([]byte(nil), serverRandom...), clientRandom...)
	kb := PRFWith(prfHashOf(suite), master, "key expansion", seed, 2*ml+2*kl+2*il)
	var k Keys
	k.CMac, kb = kb[:ml], kb[ml:]
	k.SMac, kb = kb[:ml], kb[ml:]
	k.CKey, kb = kb[:kl], kb[kl:]
	k.SKey, kb = kb[:kl], kb[kl:]
	k.CIV, kb = kb[:il], kb[il:]
	k.SIV = kb[:il]
	return k, nil
}

// FinishedData computes verify_data over the transcript (concatenated
// handshake messages).
func FinishedData(suite uint16, master []byte, client bool, transcript []byte) []byte {
	label := "server finished"
	if client {
		label = "client finished"
	}
	hf := prfHashOf(suite)
	h := hf()
	h.Write(transcript)
	return PRFWith(hf, master, label, h.Sum(nil), 12)
}

// TranscriptHash hashes the transcript with the suite family's hash.
func TranscriptHash(suite uint16, transcript []byte) []byte {
	h := prfHashOf(suite)()
	h.Write(transcript)
	return h.Sum(nil)
}

// Half is the protection state of one direction.
type Half struct {
	Suite uint16
	Key   []byte
	Mac   []byte
	IV    []byte // implicit nonce part for GCM
	Seq   uint64
	blk   cipher.Block
	aead  cipher.AEAD
	def   *SuiteDef
}

// NewHalf creates the protection state.
func NewHalf(suite uint16, key, mac, iv []byte) (*Half, error) {
	d := Suite(suite)
	if d == nil {
		return nil, errors.New("reftls: unknown suite")
	}
	b, err := d.newBlock(key)
	if err != nil {
		return nil, err
	}
	h := &Half{Suite: suite, Key: key, Mac: mac, IV: iv, blk: b, def: d}
	if d.AEAD {
		h.aead, err = cipher.NewGCM(b)
		if err != nil {
			return nil, err
		}
	}
	return h, nil
}

func (h *Half) macOf(seq uint64, typ uint8, vers uint16, content []byte) []byte {
	m := hmac.New(h.def.macHash, h.Mac)
	var hdr [13]byte
	binary.BigEndian.PutUint64(hdr[:], seq)
	hdr[8] = typ
	binary.BigEndian.PutUint16(hdr[9:], vers)
	binary.BigEndian.PutUint16(hdr[11:], uint16(len(content)))
	m.Write(hdr[:])
	m.Write(content)
	return m.Sum(nil)
}

// ProtectOpts lets a scripted sender deviate.
type ProtectOpts struct {
	ExplicitIV []byte // CBC: 16 bytes (nil = derived from seq, distinct per record); GCM: 8-byte explicit nonce (nil = seq)
	PadLen     int    // CBC: number of padding bytes excluding the length byte; -1 = minimal
	BadPadAt   int    // CBC: if >= 0, corrupt this padding byte (index within the padding, 0-based)
	BadMAC     bool   // flip one MAC/tag bit
}

// Protect builds a protected record body and advances the sequence number.
func (h *Half) Protect(typ uint8, vers uint16, content []byte, o *ProtectOpts) []byte {
	if o == nil {
		o = &ProtectOpts{PadLen: -1, BadPadAt: -1}
	}
	seq := h.Seq
	h.Seq++
	switch {
	case h.def.AEAD:
		explicit := o.ExplicitIV
		if explicit == nil {
			explicit = make([]byte, 8)
			binary.BigEndian.PutUint64(explicit, seq)
		}
		nonce := append(append([]byte(nil), h.IV...), explicit...)
		var aad [13]byte
		binary.BigEndian.PutUint64(aad[:], seq)
		aad[8] = typ
		binary.BigEndian.PutUint16(aad[9:], vers)
		binary.BigEndian.PutUint16(aad[11:], uint16(len(content)))
		ct := h.aead.Seal(nil, nonce, content, aad[:])
		if o.BadMAC {
			ct[len(ct)-1] ^= 1
		}
		return append(append([]byte(nil), explicit...), ct...)
	default:
		mac := h.macOf(seq, typ, vers, content)
		if o.BadMAC {
			mac[0] ^= 1
		}
		pt := append(append([]byte(nil), content...), mac...)
		macLen := h.def.MacLen
		_ = macLen
		pad := o.PadLen
		min := 15 - len(pt)%16 // pad so that len(pt)+pad+1 is a multiple of 16
		if pad < 0 {
			pad = min
		} else {
			// round to a legal value: pad ≡ min (mod 16), pad <= 255
			pad = min + 16*((pad-min+15)/16)
			for pad > 255 {
				pad -= 16
			}
			if pad < 0 {
				pad = min
			}
		}
		start := len(pt)
		for i := 0; i <= pad; i++ {
			pt = append(pt, byte(pad))
		}
		if o.BadPadAt >= 0 && pad > 0 {
			pt[start+o.BadPadAt%pad] ^= 0x01 // a padding byte other than the final length byte
		}
		iv := o.ExplicitIV
		if iv == nil {
			iv = make([]byte, 16)
			// unpredictable enough for a reference sender and distinct per record
			x := refsm3.Sum(append([]byte("reftls-iv"), append(h.Key, byte(seq), byte(seq>>8), byte(seq>>16), byte(seq>>24))...))
			copy(iv, x[:16])
		}
		out := make([]byte, len(pt))
		cipher.NewCBCEncrypter(h.blk, iv).CryptBlocks(out, pt)
		return append(append([]byte(nil), iv...), out...)
	}
}

// ErrBadRecord is returned when a record fails to authenticate.
var ErrBadRecord = errors.New("reftls: bad record MAC")

// UnprotectInfo describes a decoded record.
type UnprotectInfo struct {
	Explicit []byte // explicit IV (CBC) or explicit nonce (GCM)
	PadLen   int
	LastCT   []byte // last ciphertext block (CBC)
}

// Unprotect verifies and decrypts a record body and advances the sequence
// number (only on success).
func (h *Half) Unprotect(typ uint8, vers uint16, body []byte) ([]byte, *UnprotectInfo, error) {
	seq := h.Seq
	info := &UnprotectInfo{}
	switch {
	case h.def.AEAD:
		if len(body) < 8+16 {
			return nil, nil, ErrBadRecord
		}
		explicit := body[:8]
		info.Explicit = explicit
		nonce := append(append([]byte(nil), h.IV...), explicit...)
		ctLen := len(body) - 8 - 16
		var aad [13]byte
		binary.BigEndian.PutUint64(aad[:], seq)
		aad[8] = typ
		binary.BigEndian.PutUint16(aad[9:], vers)
		binary.BigEndian.PutUint16(aad[11:], uint16(ctLen))
		pt, err := h.aead.Open(nil, nonce, body[8:], aad[:])
		if err != nil {
			return nil, nil, ErrBadRecord
		}
		h.Seq++
		return pt, info, nil
	default:
		ml := h.def.MacLen
		if len(body) < 16+ml+1 || len(body)%16 != 0 {
			return nil, nil, ErrBadRecord
		}
		iv := body[:16]
		info.Explicit = iv
		info.LastCT = body[len(body)-16:]
		pt := make([]byte, len(body)-16)
		cipher.NewCBCDecrypter(h.blk, iv).CryptBlocks(pt, body[16:])
		pad := int(pt[len(pt)-1])
		if pad+1+ml > len(pt) {
			return nil, nil, ErrBadRecord
		}
		for i := len(pt) - 1 - pad; i < len(pt); i++ {
			if int(pt[i]) != pad {
				return nil, nil, ErrBadRecord
			}
		}
		info.PadLen = pad
		content := pt[:len(pt)-1-pad-ml]
		mac := pt[len(pt)-1-pad-ml : len(pt)-1-pad]
		if subtle.ConstantTimeCompare(mac, h.macOf(seq, typ, vers, content)) != 1 {
			return nil, nil, ErrBadRecord
		}
		h.Seq++
		return content, info, nil
	}
}

// ---- SM2 helpers -----------------------------------------------------

var defaultUID = []byte("1234567812345678")

// SKXSignedData is what the ECC ServerKeyExchange signature covers:
// client_random || server_random || opaque ASN.1Cert<1..2^24-1> (the
// encryption certificate with its 3-byte length).
func SKXSignedData(clientRandom, serverRandom, encCertDER []byte) []byte {
	var w bld
	w.raw(clientRandom)
	w.raw(serverRandom)
	w.vec24(encCertDER)
	return w.b
}

// SM2Sign signs msg (ZA with the default ID) using nonce k.
func SM2Sign(d *big.Int, msg []byte, k *big.Int) ([]byte, bool) {
	r, s, ok := refsm2.SignWithK(d, defaultUID, msg, k)
	if !ok {
		return nil, false
	}
	return refsm2.MarshalSignatureASN1(r, s), true
}

// SM2SignDefault signs msg (default user id) with nonces drawn from r.
func SM2SignDefault(d *big.Int, msg []byte, r io.Reader) []byte {
	n := refsm2.N()
	for {
		b := make([]byte, 32)
		io.ReadFull(r, b)
		k := new(big.Int).SetBytes(b)
		k.Mod(k, n)
		if k.Sign() == 0 {
			continue
		}
		if sig, ok := SM2Sign(d, msg, k); ok {
			return sig
		}
	}
}

// SM2BasePointMult returns the uncompressed encoding of [k]G on the SM2 curve.
func SM2BasePointMult(k []byte) []byte {
	x := new(big.Int).SetBytes(k)
	x.Mod(x, refsm2.N())
	if x.Sign() == 0 {
		x.SetInt64(1)
	}
	p := refsm2.ScalarBaseMult(x)
	out := make([]byte, 65)
	out[0] = 4
	p.X.FillBytes(out[1:33])
	p.Y.FillBytes(out[33:])
	return out
}

// SM2Verify verifies a DER signature over msg.
func SM2Verify(pub refsm2.Point, msg, sig []byte) bool {
	r, s, err := refsm2.UnmarshalSignatureASN1(sig)
	if err != nil {
		return false
	}
	return refsm2.Verify(pub, defaultUID, msg, r, s)
}

// SM2Encrypt encrypts msg to pub with nonce k, GM/T 0009 ASN.1 encoding.
func SM2Encrypt(pub refsm2.Point, msg []byte, k *big.Int) ([]byte, bool) {
	x, y, c3, c2, ok := refsm2.EncryptWithK(pub, msg, k)
	if !ok {
		return nil, false
	}
	return refsm2.MarshalCiphertextASN1(x, y, c3[:], c2), true
}

// SM2Decrypt decrypts a GM/T 0009 ASN.1 ciphertext.
func SM2Decrypt(d *big.Int, der []byte) ([]byte, bool) {
	x, y, c3, c2, err := refsm2.UnmarshalCiphertextASN1(der)
	if err != nil {
		return nil, false
	}
	return refsm2.Decrypt(d, x, y, c3, c2)
}
