package reftls

// ECDHE key exchange for TLS 1.2 (RFC 4492 / RFC 8422) on the NIST curves, so
// that the reference endpoints can also play an ECDHE_RSA / ECDHE_ECDSA peer.
// Curve arithmetic and signature verification come from the Go standard
// library (crypto/ecdh, crypto/rsa, crypto/ecdsa) - independent of gmsm. Keys
// are derived deterministically from the caller's reader.

import (
	"crypto"
	"crypto/ecdh"
	"crypto/ecdsa"
	"crypto/rsa"
	"crypto/sha1"
	"crypto/sha256"
	"crypto/sha512"
	"crypto/x509"
	"errors"
	"fmt"
	"io"
)

// Named curves.
const (
	CurveP256   = 23
	CurveP384   = 24
	CurveP521   = 25
	CurveX25519 = 29

	ExtSupportedGroups = 10
	ExtECPointFormats  = 11
)

func curveByID(id uint16) ecdh.Curve {
	switch id {
	case CurveP256:
		return ecdh.P256()
	case CurveP384:
		return ecdh.P384()
	case CurveP521:
		return ecdh.P521()
	case CurveX25519:
		return ecdh.X25519()
	}
	return nil
}

// ECDHEKey derives a private key on the curve from r (deterministic).
func ECDHEKey(id uint16, r io.Reader) (*ecdh.PrivateKey, error) {
	c := curveByID(id)
	if c == nil {
		return nil, fmt.Errorf("reftls: curve %d not implemented", id)
	}
	n := map[uint16]int{CurveP256: 32, CurveP384: 48, CurveP521: 66, CurveX25519: 32}[id]
	for i := 0; i < 100; i++ {
		b := randBytes(r, n)
		if id == CurveP521 {
			b[0] &= 1
		}
		if k, err := c.NewPrivateKey(b); err == nil {
			return k, nil
		}
	}
	return nil, errors.New("reftls: cannot derive an ECDHE key")
}

// ECDHEShared computes the pre-master secret (x coordinate, field size).
func ECDHEShared(k *ecdh.PrivateKey, peer []byte) ([]byte, error) {
	p, err := k.Curve().NewPublicKey(peer)
	if err != nil {
		return nil, err
	}
	return k.ECDH(p)
}

// ECDHEParams is a parsed ECDHE ServerKeyExchange.
type ECDHEParams struct {
	Curve  uint16
	Point  []byte
	Params []byte // the signed ServerECDHParams bytes
	SigAlg uint16
	Sig    []byte
}

// ParseSKXECDHE parses a TLS 1.2 ECDHE ServerKeyExchange body.
func ParseSKXECDHE(b []byte) (*ECDHEParams, error) {
	r := rd{b: b}
	p := &ECDHEParams{}
	if t := r.u8(); r.err == nil && t != 3 {
		return nil, fmt.Errorf("reftls: ECDHE curve type %d", t)
	}
	p.Curve = r.u16()
	p.Point = r.vec8()
	if r.err != nil {
		return nil, r.err
	}
	p.Params = b[:len(b)-len(r.b)]
	p.SigAlg = r.u16()
	p.Sig = r.vec16()
	if r.err == nil && len(r.b) != 0 {
		r.fail()
	}
	return p, r.err
}

// MarshalSKXECDHE builds the body.
func MarshalSKXECDHE(curve uint16, point []byte, alg uint16, sig []byte) []byte {
	var w bld
	w.raw(ECDHEParamBytes(curve, point))
	w.u16(alg)
	w.vec16(sig)
	return w.b
}

// ECDHEParamBytes is ServerECDHParams.
func ECDHEParamBytes(curve uint16, point []byte) []byte {
	var w bld
	w.u8(3)
	w.u16(curve)
	w.vec8(point)
	return w.b
}

// VerifyTLS12Sig verifies a TLS 1.2 digitally-signed value under the
// certificate's key. checked=false: algorithm not handled by the reference.
func VerifyTLS12Sig(certDER []byte, alg uint16, msg, sig []byte) (checked, ok bool) {
	c, err := x509.ParseCertificate(certDER)
	if err != nil {
		return false, false
	}
	var h crypto.Hash
	var sum []byte
	switch alg >> 8 {
	case 2:
		h = crypto.SHA1
		s := sha1.Sum(msg)
		sum = s[:]
	case 4:
		h = crypto.SHA256
		s := sha256.Sum256(msg)
		sum = s[:]
	case 5:
		h = crypto.SHA384
		s := sha512.Sum384(msg)
		sum = s[:]
	case 6:
		h = crypto.SHA512
		s := sha512.Sum512(msg)
		sum = s[:]
	default:
		return false, false
	}
	switch alg & 0xff {
	case 1:
		k, isRSA := c.PublicKey.(*rsa.PublicKey)
		if !isRSA {
			return true, false
		}
		return true, rsa.VerifyPKCS1v15(k, h, sum, sig) == nil
	case 3:
		k, isEC := c.PublicKey.(*ecdsa.PublicKey)
		if !isEC {
			return true, false
		}
		return true, ecdsa.VerifyASN1(k, sum, sig)
	}
	return false, false
}

// SupportedGroupsData builds the supported_groups extension data.
func SupportedGroupsData(ids ...uint16) []byte {
	var l bld
	for _, a := range ids {
		l.u16(a)
	}
	var w bld
	w.vec16(l.b)
	return w.b
}

// Vec8Body wraps v in a one-byte length prefix (ECDHE ClientKeyExchange).
func Vec8Body(v []byte) []byte {
	var w bld
	w.vec8(v)
	return w.b
}

// ParseVec8Body parses a body consisting of one vec8.
func ParseVec8Body(b []byte) ([]byte, error) {
	r := rd{b: b}
	v := r.vec8()
	if r.err == nil && len(r.b) != 0 {
		r.fail()
	}
	return v, r.err
}
