package refsm2

import (
	"bytes"
	"encoding/hex"
	"math/big"
	"strings"
	"testing"

	"github.com/tjfoc/gmsm/verifsim/ref/refsm3"
)

// pattern is the deterministic test-input generator shared with
// ../gen_vectors.sh.
func pattern(seed uint32, n int) []byte {
	out := make([]byte, n)
	x := seed
	for i := range out {
		x = x*1664525 + 1013904223
		out[i] = byte(x >> 24)
	}
	return out
}

// nonceFromSeed maps the pattern generator to a scalar in [1, n-1].
func nonceFromSeed(seed uint32) *big.Int {
	k := new(big.Int).SetBytes(pattern(seed, 40))
	k.Mod(k, new(big.Int).Sub(curveN, one))
	return k.Add(k, one)
}

func hx(s string) *big.Int { return mustHex(strings.ReplaceAll(s, " ", "")) }

func unhex(t testing.TB, s string) []byte {
	t.Helper()
	b, err := hex.DecodeString(strings.ReplaceAll(s, " ", ""))
	if err != nil {
		t.Fatal(err)
	}
	return b
}

func TestCurveParameters(t *testing.T) {
	if !curveP.ProbablyPrime(32) || !curveN.ProbablyPrime(32) {
		t.Fatal("p or n not prime")
	}
	if new(big.Int).Add(curveA, big.NewInt(3)).Cmp(curveP) != 0 {
		t.Fatal("a != p-3")
	}
	if !OnCurve(G()) {
		t.Fatal("base point not on curve")
	}
	if OnCurve(Infinity()) {
		t.Fatal("infinity reported on curve")
	}
	if !ScalarBaseMult(curveN).IsInfinity() {
		t.Fatal("n*G is not infinity")
	}
	if !ScalarBaseMult(new(big.Int)).IsInfinity() {
		t.Fatal("0*G is not infinity")
	}
	if !ScalarBaseMult(one).Equal(G()) {
		t.Fatal("1*G != G")
	}
	// (n-1)*G = -G and (n+1)*G = G.
	neg := ScalarBaseMult(new(big.Int).Sub(curveN, one))
	if neg.X.Cmp(curveGx) != 0 || new(big.Int).Add(neg.Y, curveGy).Cmp(curveP) != 0 {
		t.Fatal("(n-1)*G != -G")
	}
	if !Add(neg, G()).IsInfinity() {
		t.Fatal("-G + G != infinity")
	}
	if !ScalarBaseMult(new(big.Int).Add(curveN, one)).Equal(G()) {
		t.Fatal("(n+1)*G != G")
	}
	// Hasse bound sanity: |n - (p+1)| <= 2 sqrt(p)  (cofactor 1).
	diff := new(big.Int).Sub(curveN, new(big.Int).Add(curveP, one))
	diff.Abs(diff)
	diff.Mul(diff, diff)
	if diff.Cmp(new(big.Int).Lsh(curveP, 2)) > 0 {
		t.Fatal("n violates the Hasse bound for cofactor 1")
	}
	// 2G by Add equals 2G by ScalarMult; not on curve if a coordinate is
	// off by one or out of range.
	g2 := Add(G(), G())
	if !g2.Equal(ScalarBaseMult(big.NewInt(2))) || !OnCurve(g2) {
		t.Fatal("doubling")
	}
	bad := G()
	bad.Y.Add(bad.Y, one)
	if OnCurve(bad) {
		t.Fatal("G + (0,1) on curve")
	}
	big1 := G()
	big1.X.Add(big1.X, curveP)
	if OnCurve(big1) {
		t.Fatal("unreduced coordinate accepted")
	}
	negc := G()
	negc.X.Sub(negc.X, curveP)
	if OnCurve(negc) {
		t.Fatal("negative coordinate accepted")
	}
}

func TestGroupLaws(t *testing.T) {
	for i := 0; i < 8; i++ {
		a := nonceFromSeed(uint32(100 + i))
		b := nonceFromSeed(uint32(200 + i))
		pa, pb := ScalarBaseMult(a), ScalarBaseMult(b)
		if !OnCurve(pa) || !OnCurve(pb) {
			t.Fatal("multiple not on curve")
		}
		sum := new(big.Int).Add(a, b)
		if !Add(pa, pb).Equal(ScalarBaseMult(sum)) {
			t.Fatal("aG + bG != (a+b)G")
		}
		if !Add(pa, pb).Equal(Add(pb, pa)) {
			t.Fatal("not commutative")
		}
		prod := new(big.Int).Mul(a, b)
		if !ScalarMult(pa, b).Equal(ScalarBaseMult(prod)) {
			t.Fatal("b(aG) != (ab)G")
		}
		prod.Mod(prod, curveN)
		if !ScalarMult(pb, a).Equal(ScalarBaseMult(prod)) {
			t.Fatal("a(bG) != (ab mod n)G")
		}
		if !Add(pa, Infinity()).Equal(pa) || !Add(Infinity(), pa).Equal(pa) {
			t.Fatal("identity")
		}
	}
	// The accessors hand out copies.
	p := P()
	p.SetInt64(0)
	g := G()
	g.X.SetInt64(0)
	if curveP.Sign() == 0 || curveGx.Sign() == 0 {
		t.Fatal("accessor leaked internal parameter")
	}
}

// Worked example of GM/T 0003.5-2012 annex A.2 (signature on the recommended
// curve), including the intermediate values ZA, e and x1.
func TestStandardSignatureExample(t *testing.T) {
	d := hx("3945208F 7B2144B1 3F36E38A C6D39F95 88939369 2860B51A 42FB81EF 4DF7C5B8")
	uid := []byte("1234567812345678")
	msg := []byte("message digest")
	k := hx("59276E27 D506861A 16680F3A D9C02DCC EF3CC1FA 3CDBE4CE 6D54B80D EAC1BC21")

	pub := ScalarBaseMult(d)
	if pub.X.Cmp(hx("09F9DF31 1E5421A1 50DD7D16 1E4BC5C6 72179FAD 1833FC07 6BB08FF3 56F35020")) != 0 ||
		pub.Y.Cmp(hx("CCEA490C E26775A5 2DC6EA71 8CC1AA60 0AED05FB F35E084A 6632F607 2DA9AD13")) != 0 {
		t.Fatalf("public key = %X, %X", pub.X, pub.Y)
	}
	za := ZA(pub, uid)
	if !bytes.Equal(za[:], unhex(t, "B2E14C5C 79C6DF5B 85F4FE7E D8DB7A26 2B9DA7E0 7CCB0EA9 F4747B8C CDA8A4F3")) {
		t.Fatalf("ZA = %X", za)
	}
	e := Digest(pub, uid, msg)
	if !bytes.Equal(e[:], unhex(t, "F0B43E94 BA45ACCA ACE692ED 534382EB 17E6AB5A 19CE7B31 F4486FDF C0D28640")) {
		t.Fatalf("e = %X", e)
	}
	kg := ScalarBaseMult(k)
	if kg.X.Cmp(hx("04EBFC71 8E8D1798 62043226 8E77FEB6 415E2EDE 0E073C0F 4F640ECD 2E149A73")) != 0 ||
		kg.Y.Cmp(hx("E858F9D8 1E5430A5 7B36DAAB 8F950A3C 64E6EE6A 63094D99 283AFF76 7E124DF0")) != 0 {
		t.Fatalf("kG = %X, %X", kg.X, kg.Y)
	}
	r, s, ok := SignWithK(d, uid, msg, k)
	if !ok {
		t.Fatal("SignWithK failed")
	}
	wantR := hx("F5A03B06 48D2C463 0EEAC513 E1BB81A1 5944DA38 27D5B741 43AC7EAC EEE720B3")
	wantS := hx("B1B6AA29 DF212FD8 763182BC 0D421CA1 BB9038FD 1F7F42D4 840B69C4 85BBC1AA")
	if r.Cmp(wantR) != 0 || s.Cmp(wantS) != 0 {
		t.Fatalf("r = %X\ns = %X", r, s)
	}
	if !Verify(pub, uid, msg, r, s) {
		t.Fatal("standard signature rejected")
	}
}

// Worked example of GM/T 0003.5-2012 annex C.2 (encryption on the
// recommended curve), including the intermediate values.
func TestStandardEncryptionExample(t *testing.T) {
	d := hx("3945208F 7B2144B1 3F36E38A C6D39F95 88939369 2860B51A 42FB81EF 4DF7C5B8")
	msg := []byte("encryption standard")
	k := hx("59276E27 D506861A 16680F3A D9C02DCC EF3CC1FA 3CDBE4CE 6D54B80D EAC1BC21")
	pub := ScalarBaseMult(d)

	kp := ScalarMult(pub, k)
	x2 := unhex(t, "335E18D7 51E51F04 0E27D468 138B7AB1 DC86AD7F 981D7D41 6222FD6A B3ED230D")
	y2 := unhex(t, "AB743EBC FB22D64F 7B6AB791 F70658F2 5B48FA93 E54064FD BFBED3F0 BD847AC9")
	if !bytes.Equal(bytes32(kp.X), x2) || !bytes.Equal(bytes32(kp.Y), y2) {
		t.Fatalf("kP = %X, %X", kp.X, kp.Y)
	}
	tt := KDF(append(append([]byte(nil), x2...), y2...), len(msg))
	if !bytes.Equal(tt, unhex(t, "44E60F DBF0BAE8 14376653 74BEF267 49046C9E")) {
		t.Fatalf("t = %X", tt)
	}

	c1x, c1y, c3, c2, ok := EncryptWithK(pub, msg, k)
	if !ok {
		t.Fatal("EncryptWithK failed")
	}
	if c1x.Cmp(hx("04EBFC71 8E8D1798 62043226 8E77FEB6 415E2EDE 0E073C0F 4F640ECD 2E149A73")) != 0 ||
		c1y.Cmp(hx("E858F9D8 1E5430A5 7B36DAAB 8F950A3C 64E6EE6A 63094D99 283AFF76 7E124DF0")) != 0 {
		t.Fatalf("C1 = %X, %X", c1x, c1y)
	}
	if !bytes.Equal(c2, unhex(t, "21886C A989CA9C 7D580873 07CA9309 2D651EFA")) {
		t.Fatalf("C2 = %X", c2)
	}
	if !bytes.Equal(c3[:], unhex(t, "59983C18 F809E262 923C53AE C295D303 83B54E39 D609D160 AFCB1908 D0BD8766")) {
		t.Fatalf("C3 = %X", c3)
	}
	m, ok := Decrypt(d, c1x, c1y, c3[:], c2)
	if !ok || !bytes.Equal(m, msg) {
		t.Fatalf("Decrypt = %q, %v", m, ok)
	}
}

func TestKDF(t *testing.T) {
	z := []byte("some shared secret")
	long := KDF(z, 100)
	if len(long) != 100 {
		t.Fatal("length")
	}
	for _, n := range []int{0, 1, 31, 32, 33, 64, 65, 99} {
		if !bytes.Equal(KDF(z, n), long[:n]) {
			t.Fatalf("KDF(%d) is not a prefix of KDF(100)", n)
		}
	}
	// Block i is SM3(z || be32(i)), i from 1.
	for i := 1; i <= 3; i++ {
		h := refsm3.Sum(append(append([]byte(nil), z...), 0, 0, 0, byte(i)))
		if !bytes.Equal(long[32*(i-1):32*i], h[:]) {
			t.Fatalf("block %d", i)
		}
	}
}

func TestZAEncoding(t *testing.T) {
	// ZA spelled out by hand for a 3-byte uid: ENTL = 0x0018.
	pub := ScalarBaseMult(big.NewInt(7))
	var in []byte
	in = append(in, 0x00, 0x18, 'a', 'b', 'c')
	for _, v := range []*big.Int{curveA, curveB, curveGx, curveGy, pub.X, pub.Y} {
		in = append(in, bytes32(v)...)
	}
	want := refsm3.Sum(in)
	if got := ZA(pub, []byte("abc")); got != want {
		t.Fatalf("ZA = %x, want %x", got, want)
	}
	// 4096-byte uid: ENTL = 0x8000 (checks that the high byte is used).
	uid := pattern(9, 4096)
	in = append([]byte{0x80, 0x00}, uid...)
	for _, v := range []*big.Int{curveA, curveB, curveGx, curveGy, pub.X, pub.Y} {
		in = append(in, bytes32(v)...)
	}
	want = refsm3.Sum(in)
	if got := ZA(pub, uid); got != want {
		t.Fatal("ZA with long uid")
	}
	// Coordinates are left-padded to 32 bytes: find a key with a short x.
	// (5 bytes of leading zeros is too rare; just check bytes32 directly.)
	if b := bytes32(big.NewInt(0x1234)); len(b) != 32 || b[30] != 0x12 || b[31] != 0x34 || b[0] != 0 {
		t.Fatal("bytes32")
	}
}

func TestOpenSSLKeys(t *testing.T) {
	if len(opensslKeys) < 5 {
		t.Fatalf("only %d keys", len(opensslKeys))
	}
	for i, k := range opensslKeys {
		pub := ScalarBaseMult(hx(k.d))
		if pub.X.Cmp(hx(k.x)) != 0 || pub.Y.Cmp(hx(k.y)) != 0 {
			t.Errorf("key %d: d*G differs from OpenSSL's public key", i)
		}
		if !OnCurve(Point{hx(k.x), hx(k.y)}) {
			t.Errorf("key %d: OpenSSL public key not on curve", i)
		}
	}
}

func keyPub(i int) Point { return Point{hx(opensslKeys[i].x), hx(opensslKeys[i].y)} }

func TestOpenSSLSignatures(t *testing.T) {
	if len(opensslSigs) < 15 {
		t.Fatalf("only %d signatures", len(opensslSigs))
	}
	for i, v := range opensslSigs {
		pub := keyPub(v.key)
		msg := pattern(v.seed, v.n)
		uid := []byte(v.uid)
		der := unhex(t, v.der)
		r, s, err := UnmarshalSignatureASN1(der)
		if err != nil {
			t.Fatalf("sig %d: %v", i, err)
		}
		if !bytes.Equal(MarshalSignatureASN1(r, s), der) {
			t.Errorf("sig %d: DER does not round-trip", i)
		}
		if !Verify(pub, uid, msg, r, s) {
			t.Errorf("sig %d: OpenSSL signature rejected", i)
			continue
		}
		// Modified inputs must be rejected.
		if Verify(pub, uid, append(append([]byte(nil), msg...), 0), r, s) {
			t.Errorf("sig %d: accepted with extended message", i)
		}
		if len(msg) > 0 {
			m2 := append([]byte(nil), msg...)
			m2[len(m2)/2] ^= 0x01
			if Verify(pub, uid, m2, r, s) {
				t.Errorf("sig %d: accepted with modified message", i)
			}
		}
		if Verify(pub, append(append([]byte(nil), uid...), 'x'), msg, r, s) {
			t.Errorf("sig %d: accepted with other uid", i)
		}
		if Verify(pub, nil, msg, r, s) {
			t.Errorf("sig %d: accepted with empty uid", i)
		}
		r2 := new(big.Int).Xor(r, one)
		if Verify(pub, uid, msg, r2, s) {
			t.Errorf("sig %d: accepted with modified r", i)
		}
		s2 := new(big.Int).Xor(s, big.NewInt(0x100))
		if Verify(pub, uid, msg, r, s2) {
			t.Errorf("sig %d: accepted with modified s", i)
		}
		if Verify(pub, uid, msg, s, r) {
			t.Errorf("sig %d: accepted with r and s swapped", i)
		}
		other := keyPub((v.key + 1) % len(opensslKeys))
		if Verify(other, uid, msg, r, s) {
			t.Errorf("sig %d: accepted under another key", i)
		}
		// Out-of-range encodings of the same residues.
		if Verify(pub, uid, msg, new(big.Int).Add(r, curveN), s) ||
			Verify(pub, uid, msg, r, new(big.Int).Add(s, curveN)) ||
			Verify(pub, uid, msg, new(big.Int).Sub(r, curveN), s) {
			t.Errorf("sig %d: accepted with unreduced r or s", i)
		}
	}
}

func TestVerifyRangeChecks(t *testing.T) {
	d := hx(opensslKeys[0].d)
	pub := keyPub(0)
	uid, msg := DefaultUID(), []byte("range checks")
	r, s, ok := SignWithK(d, uid, msg, nonceFromSeed(1))
	if !ok || !Verify(pub, uid, msg, r, s) {
		t.Fatal("setup")
	}
	zero := new(big.Int)
	for name, c := range map[string][2]*big.Int{
		"r=0":   {zero, s},
		"s=0":   {r, zero},
		"r=n":   {curveN, s},
		"s=n":   {r, curveN},
		"r<0":   {new(big.Int).Neg(r), s},
		"s<0":   {r, new(big.Int).Neg(s)},
		"r+s=n": {r, new(big.Int).Sub(curveN, r)},
		"nil r": {nil, s},
		"nil s": {r, nil},
	} {
		if Verify(pub, uid, msg, c[0], c[1]) {
			t.Errorf("%s accepted", name)
		}
	}
	// Bad public keys.
	if Verify(Infinity(), uid, msg, r, s) {
		t.Error("infinity public key accepted")
	}
	off := keyPub(0)
	off.Y.Add(off.Y, one)
	if Verify(off, uid, msg, r, s) {
		t.Error("off-curve public key accepted")
	}
}

func TestSignWithKFailureCases(t *testing.T) {
	uid, msg := DefaultUID(), []byte("m")
	d := hx(opensslKeys[0].d)
	nm1 := new(big.Int).Sub(curveN, one)
	for name, c := range map[string][2]*big.Int{
		"k=0":   {d, new(big.Int)},
		"k=n":   {d, curveN},
		"k<0":   {d, big.NewInt(-5)},
		"d=0":   {new(big.Int), one},
		"d=n-1": {nm1, one},
		"d=n":   {curveN, one},
	} {
		if _, _, ok := SignWithK(c[0], uid, msg, c[1]); ok {
			t.Errorf("%s: ok", name)
		}
	}
	// k = n-1 and d = n-2 are legal.
	if _, _, ok := SignWithK(d, uid, msg, nm1); !ok {
		t.Error("k=n-1 refused")
	}
	dmax := new(big.Int).Sub(curveN, big.NewInt(2))
	r, s, ok := SignWithK(dmax, uid, msg, nonceFromSeed(3))
	if !ok || !Verify(ScalarBaseMult(dmax), uid, msg, r, s) {
		t.Error("d=n-2 sign/verify")
	}
	// r + k == n: choose k, then it is the message that would have to
	// cooperate, which cannot be arranged; instead check the algebra the
	// condition protects: with r+k = n we would get s = (k - r d)/(1+d) =
	// (k + k d)/(1+d) = k, i.e. s + r = n = 0 and verification impossible.
	// Nothing to execute here; the branch is covered by inspection.

	// Determinism and independence from argument mutation.
	k := nonceFromSeed(4)
	kc, dc := new(big.Int).Set(k), new(big.Int).Set(d)
	r1, s1, _ := SignWithK(d, uid, msg, k)
	r2, s2, _ := SignWithK(d, uid, msg, k)
	if r1.Cmp(r2) != 0 || s1.Cmp(s2) != 0 {
		t.Error("SignWithK not deterministic")
	}
	if k.Cmp(kc) != 0 || d.Cmp(dc) != 0 {
		t.Error("SignWithK modified its arguments")
	}
}

func TestOpenSSLCiphertexts(t *testing.T) {
	if len(opensslCiphertexts) < 5 {
		t.Fatalf("only %d ciphertexts", len(opensslCiphertexts))
	}
	for i, v := range opensslCiphertexts {
		d := hx(opensslKeys[v.key].d)
		msg := pattern(v.seed, v.n)
		der := unhex(t, v.der)
		c1x, c1y, c3, c2, err := UnmarshalCiphertextASN1(der)
		if err != nil {
			t.Fatalf("ct %d: %v", i, err)
		}
		if !bytes.Equal(MarshalCiphertextASN1(c1x, c1y, c3, c2), der) {
			t.Errorf("ct %d: DER does not round-trip", i)
		}
		m, ok := Decrypt(d, c1x, c1y, c3, c2)
		if !ok || !bytes.Equal(m, msg) {
			t.Errorf("ct %d: Decrypt failed (ok=%v)", i, ok)
			continue
		}
		// Tampering.
		c2b := append([]byte(nil), c2...)
		c2b[0] ^= 1
		if _, ok := Decrypt(d, c1x, c1y, c3, c2b); ok {
			t.Errorf("ct %d: modified C2 accepted", i)
		}
		c3b := append([]byte(nil), c3...)
		c3b[31] ^= 0x80
		if _, ok := Decrypt(d, c1x, c1y, c3b, c2); ok {
			t.Errorf("ct %d: modified C3 accepted", i)
		}
		if _, ok := Decrypt(d, c1x, c1y, c3[:31], c2); ok {
			t.Errorf("ct %d: short C3 accepted", i)
		}
		if _, ok := Decrypt(d, c1x, new(big.Int).Xor(c1y, one), c3, c2); ok {
			t.Errorf("ct %d: off-curve C1 accepted", i)
		}
		// -C1 is on the curve but gives another shared point.
		if _, ok := Decrypt(d, c1x, new(big.Int).Sub(curveP, c1y), c3, c2); ok {
			t.Errorf("ct %d: negated C1 accepted", i)
		}
		if _, ok := Decrypt(new(big.Int).Add(d, one), c1x, c1y, c3, c2); ok {
			t.Errorf("ct %d: wrong key accepted", i)
		}
		if _, ok := Decrypt(d, c1x, c1y, c3, append(c2b[:0:0], c2[:len(c2)-1]...)); ok && len(c2) > 1 {
			t.Errorf("ct %d: truncated C2 accepted", i)
		}
	}
}

func TestEncryptDecryptRoundTrip(t *testing.T) {
	for i := 0; i < 6; i++ {
		d := hx(opensslKeys[i%len(opensslKeys)].d)
		pub := keyPub(i % len(opensslKeys))
		for _, n := range []int{0, 1, 31, 32, 33, 200} {
			msg := pattern(uint32(300+i), n)
			k := nonceFromSeed(uint32(400 + 10*i + n))
			c1x, c1y, c3, c2, ok := EncryptWithK(pub, msg, k)
			if !ok {
				t.Fatalf("encrypt failed")
			}
			if len(c2) != n || !OnCurve(Point{c1x, c1y}) {
				t.Fatal("shape")
			}
			m, ok := Decrypt(d, c1x, c1y, c3[:], c2)
			if !ok || !bytes.Equal(m, msg) {
				t.Fatalf("round trip key %d len %d", i, n)
			}
			der := MarshalCiphertextASN1(c1x, c1y, c3[:], c2)
			x, y, h, c, err := UnmarshalCiphertextASN1(der)
			if err != nil || x.Cmp(c1x) != 0 || y.Cmp(c1y) != 0 || !bytes.Equal(h, c3[:]) || !bytes.Equal(c, c2) {
				t.Fatalf("ASN.1 round trip: %v", err)
			}
		}
	}
	pub := keyPub(0)
	if _, _, _, _, ok := EncryptWithK(pub, []byte("x"), new(big.Int)); ok {
		t.Error("k=0 accepted")
	}
	if _, _, _, _, ok := EncryptWithK(pub, []byte("x"), curveN); ok {
		t.Error("k=n accepted")
	}
	if _, _, _, _, ok := EncryptWithK(Infinity(), []byte("x"), one); ok {
		t.Error("infinity key accepted")
	}
	off := keyPub(0)
	off.X.Add(off.X, one)
	if _, _, _, _, ok := EncryptWithK(off, []byte("x"), one); ok {
		t.Error("off-curve key accepted")
	}
	if _, ok := Decrypt(new(big.Int), curveGx, curveGy, make([]byte, 32), []byte{1}); ok {
		t.Error("d=0 accepted")
	}
}

func TestASN1Strictness(t *testing.T) {
	r, s := hx("7F"), hx("80")
	der := MarshalSignatureASN1(r, s)
	if !bytes.Equal(der, []byte{0x30, 0x07, 0x02, 0x01, 0x7F, 0x02, 0x02, 0x00, 0x80}) {
		t.Fatalf("sig DER = %x", der)
	}
	for name, bad := range map[string][]byte{
		"trailing":      append(append([]byte(nil), der...), 0),
		"truncated":     der[:len(der)-1],
		"negative s":    {0x30, 0x06, 0x02, 0x01, 0x7F, 0x02, 0x01, 0x80},
		"padded r":      {0x30, 0x08, 0x02, 0x02, 0x00, 0x7F, 0x02, 0x02, 0x00, 0x80},
		"long-form len": {0x30, 0x81, 0x07, 0x02, 0x01, 0x7F, 0x02, 0x02, 0x00, 0x80},
		"three ints":    {0x30, 0x0a, 0x02, 0x01, 0x7F, 0x02, 0x02, 0x00, 0x80, 0x02, 0x01, 0x01},
		"one int":       {0x30, 0x03, 0x02, 0x01, 0x7F},
		"empty":         {},
		"not a seq":     {0x02, 0x01, 0x01},
	} {
		if _, _, err := UnmarshalSignatureASN1(bad); err == nil {
			t.Errorf("signature %s: accepted", name)
		}
	}

	c3 := pattern(1, 32)
	cder := MarshalCiphertextASN1(big.NewInt(1), big.NewInt(0x80), c3, []byte{0xAB})
	want := append([]byte{0x30, 0x2c, 0x02, 0x01, 0x01, 0x02, 0x02, 0x00, 0x80, 0x04, 0x20}, c3...)
	want = append(want, 0x04, 0x01, 0xAB)
	if !bytes.Equal(cder, want) {
		t.Fatalf("ciphertext DER = %x", cder)
	}
	if _, _, _, _, err := UnmarshalCiphertextASN1(cder); err != nil {
		t.Fatal(err)
	}
	if _, _, _, _, err := UnmarshalCiphertextASN1(append(append([]byte(nil), cder...), 0)); err == nil {
		t.Error("ciphertext with trailing byte accepted")
	}
	short := MarshalCiphertextASN1(big.NewInt(1), big.NewInt(2), c3[:31], []byte{0xAB})
	if _, _, _, _, err := UnmarshalCiphertextASN1(short); err == nil {
		t.Error("ciphertext with 31-byte hash accepted")
	}
	// Empty C2 and nil slices encode as empty OCTET STRINGs.
	e1 := MarshalCiphertextASN1(big.NewInt(1), big.NewInt(2), c3, nil)
	e2 := MarshalCiphertextASN1(big.NewInt(1), big.NewInt(2), c3, []byte{})
	if !bytes.Equal(e1, e2) || e1[len(e1)-2] != 0x04 || e1[len(e1)-1] != 0x00 {
		t.Errorf("empty C2 encoding: %x", e1)
	}
	if _, _, _, c2, err := UnmarshalCiphertextASN1(e1); err != nil || len(c2) != 0 {
		t.Errorf("empty C2 decoding: %v", err)
	}
}

// Offline part of the reverse-direction check: the signatures and
// ciphertexts in vectors_self_test.go were produced by this package and
// accepted by OpenSSL (see TestSelfVectorsAgainstOpenSSL); here we make sure
// the package still produces exactly those bytes.
func TestSelfVectors(t *testing.T) {
	if len(selfSigs) < 5 || len(selfCiphertexts) < 5 {
		t.Fatalf("self vectors missing: %d sigs, %d ciphertexts", len(selfSigs), len(selfCiphertexts))
	}
	plannedS, plannedC := selfPlan()
	if len(plannedS) != len(selfSigs) || len(plannedC) != len(selfCiphertexts) {
		t.Fatal("committed self vectors do not match the plan; rerun gen_vectors.sh")
	}
	for i, v := range selfSigs {
		if v.key != plannedS[i].key || v.uid != plannedS[i].uid || v.seed != plannedS[i].seed ||
			v.n != plannedS[i].n || v.k != plannedS[i].k {
			t.Fatalf("self sig %d does not match the plan", i)
		}
		if got := computeSelfSig(t, v); got != v.der {
			t.Errorf("self sig %d: now %s, committed %s", i, got, v.der)
		}
		r, s, err := UnmarshalSignatureASN1(unhex(t, v.der))
		if err != nil || !Verify(keyPub(v.key), unhex(t, v.uid), pattern(v.seed, v.n), r, s) {
			t.Errorf("self sig %d does not verify", i)
		}
	}
	for i, v := range selfCiphertexts {
		if v.key != plannedC[i].key || v.seed != plannedC[i].seed || v.n != plannedC[i].n || v.k != plannedC[i].k {
			t.Fatalf("self ciphertext %d does not match the plan", i)
		}
		if got := computeSelfCiphertext(t, v); got != v.der {
			t.Errorf("self ciphertext %d: now %s, committed %s", i, got, v.der)
		}
	}
}
