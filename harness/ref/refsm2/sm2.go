// Package refsm2 is a small, deliberately slow and plain reference
// implementation of SM2 signatures and public-key encryption (GM/T 0003-2012
// parts 2 and 4, recommended curve of part 5), written from the text of the
// standard for use as an independent test oracle.
//
// All arithmetic is affine-coordinate math/big arithmetic; nothing here is
// constant time and nothing here must ever be used to protect real secrets.
// Every function is deterministic given its inputs: nonces are parameters.
//
// The package imports only the Go standard library plus the sibling refsm3
// package, and shares no code with the library under test.
package refsm2

import (
	"bytes"
	"crypto/subtle"
	"encoding/asn1"
	"encoding/binary"
	"errors"
	"math/big"

	"github.com/tjfoc/gmsm/verifsim/ref/refsm3"
)

func mustHex(s string) *big.Int {
	v, ok := new(big.Int).SetString(s, 16)
	if !ok {
		panic("refsm2: bad hex constant")
	}
	return v
}

// Curve parameters of GM/T 0003.5. These are unexported and handed out only
// as copies, so no caller can modify them.
var (
	curveP  = mustHex("FFFFFFFEFFFFFFFFFFFFFFFFFFFFFFFFFFFFFFFF00000000FFFFFFFFFFFFFFFF")
	curveA  = mustHex("FFFFFFFEFFFFFFFFFFFFFFFFFFFFFFFFFFFFFFFF00000000FFFFFFFFFFFFFFFC")
	curveB  = mustHex("28E9FA9E9D9F5E344D5A9E4BCF6509A7F39789F515AB8F92DDBCBD414D940E93")
	curveN  = mustHex("FFFFFFFEFFFFFFFFFFFFFFFFFFFFFFFF7203DF6B21C6052B53BBF40939D54123")
	curveGx = mustHex("32C4AE2C1F1981195F9904466A39C9948FE30BBFF2660BE1715A4589334C74C7")
	curveGy = mustHex("BC3736A2F4F6779C59BDCEE36B692153D0A9877CC62A474002DF32E52139F0A0")
)

// P returns a copy of the field prime.
func P() *big.Int { return new(big.Int).Set(curveP) }

// A returns a copy of the curve coefficient a (= p-3).
func A() *big.Int { return new(big.Int).Set(curveA) }

// B returns a copy of the curve coefficient b.
func B() *big.Int { return new(big.Int).Set(curveB) }

// N returns a copy of the group order.
func N() *big.Int { return new(big.Int).Set(curveN) }

// G returns a copy of the base point.
func G() Point {
	return Point{X: new(big.Int).Set(curveGx), Y: new(big.Int).Set(curveGy)}
}

// Point is an affine point. The point at infinity is represented by
// X == nil && Y == nil.
type Point struct{ X, Y *big.Int }

// Infinity returns the point at infinity.
func Infinity() Point { return Point{} }

// IsInfinity reports whether P is the point at infinity.
func (P Point) IsInfinity() bool { return P.X == nil && P.Y == nil }

// Equal reports whether two points are the same point.
func (P Point) Equal(Q Point) bool {
	if P.IsInfinity() || Q.IsInfinity() {
		return P.IsInfinity() && Q.IsInfinity()
	}
	if P.X == nil || P.Y == nil || Q.X == nil || Q.Y == nil {
		return false
	}
	return P.X.Cmp(Q.X) == 0 && P.Y.Cmp(Q.Y) == 0
}

func mod(x *big.Int) *big.Int { return x.Mod(x, curveP) }

// OnCurve reports whether P is a finite point with both coordinates in
// [0, p-1] that satisfies y^2 = x^3 + a*x + b (mod p). The point at
// infinity is reported as not on the curve.
func OnCurve(P Point) bool {
	if P.X == nil || P.Y == nil {
		return false
	}
	if P.X.Sign() < 0 || P.X.Cmp(curveP) >= 0 || P.Y.Sign() < 0 || P.Y.Cmp(curveP) >= 0 {
		return false
	}
	lhs := new(big.Int).Mul(P.Y, P.Y)
	mod(lhs)
	rhs := new(big.Int).Mul(P.X, P.X)
	rhs.Mul(rhs, P.X)
	ax := new(big.Int).Mul(curveA, P.X)
	rhs.Add(rhs, ax)
	rhs.Add(rhs, curveB)
	mod(rhs)
	return lhs.Cmp(rhs) == 0
}

// Add returns P+Q using the affine chord-and-tangent formulas. Inputs must
// be on the curve or infinity.
func Add(P, Q Point) Point {
	if P.IsInfinity() {
		return copyPoint(Q)
	}
	if Q.IsInfinity() {
		return copyPoint(P)
	}
	var lambda *big.Int
	if P.X.Cmp(Q.X) == 0 {
		// Either Q = -P (sum is infinity) or Q = P (doubling).
		ysum := new(big.Int).Add(P.Y, Q.Y)
		mod(ysum)
		if ysum.Sign() == 0 {
			return Infinity()
		}
		if P.Y.Cmp(Q.Y) != 0 {
			panic("refsm2: Add: same x, unrelated y (input not on curve)")
		}
		// lambda = (3x^2 + a) / (2y)
		num := new(big.Int).Mul(P.X, P.X)
		num.Mul(num, big.NewInt(3))
		num.Add(num, curveA)
		mod(num)
		den := new(big.Int).Lsh(P.Y, 1)
		mod(den)
		den.ModInverse(den, curveP)
		lambda = num.Mul(num, den)
		mod(lambda)
	} else {
		// lambda = (y2 - y1) / (x2 - x1)
		num := new(big.Int).Sub(Q.Y, P.Y)
		mod(num)
		den := new(big.Int).Sub(Q.X, P.X)
		mod(den)
		den.ModInverse(den, curveP)
		lambda = num.Mul(num, den)
		mod(lambda)
	}
	// x3 = lambda^2 - x1 - x2 ; y3 = lambda (x1 - x3) - y1
	x3 := new(big.Int).Mul(lambda, lambda)
	x3.Sub(x3, P.X)
	x3.Sub(x3, Q.X)
	mod(x3)
	y3 := new(big.Int).Sub(P.X, x3)
	y3.Mul(y3, lambda)
	y3.Sub(y3, P.Y)
	mod(y3)
	return Point{X: x3, Y: y3}
}

func copyPoint(P Point) Point {
	if P.IsInfinity() {
		return Infinity()
	}
	return Point{X: new(big.Int).Set(P.X), Y: new(big.Int).Set(P.Y)}
}

// ScalarMult returns k*P by left-to-right double-and-add. k must be
// non-negative; it is NOT reduced modulo n, so ScalarMult(G, n) really walks
// the whole way round to infinity.
func ScalarMult(P Point, k *big.Int) Point {
	if k.Sign() < 0 {
		panic("refsm2: negative scalar")
	}
	R := Infinity()
	for i := k.BitLen() - 1; i >= 0; i-- {
		R = Add(R, R)
		if k.Bit(i) == 1 {
			R = Add(R, P)
		}
	}
	return R
}

// ScalarBaseMult returns k*G.
func ScalarBaseMult(k *big.Int) Point { return ScalarMult(G(), k) }

// bytes32 is the 32-byte big-endian encoding of a field element.
func bytes32(x *big.Int) []byte {
	if x.Sign() < 0 || x.BitLen() > 256 {
		panic("refsm2: value does not fit 32 bytes")
	}
	out := make([]byte, 32)
	x.FillBytes(out)
	return out
}

// DefaultUID is the default distinguishing identifier "1234567812345678".
var defaultUID = []byte("1234567812345678")

// DefaultUID returns a copy of the conventional default user id.
func DefaultUID() []byte { return append([]byte(nil), defaultUID...) }

// ZA computes SM3(ENTL || uid || a || b || Gx || Gy || xA || yA)
// (GM/T 0003.2 section 5.5). ENTL is the bit length of uid as two bytes, so
// uid must be shorter than 8192 bytes; ZA panics otherwise, and if pub is
// the point at infinity.
func ZA(pub Point, uid []byte) [32]byte {
	if len(uid) >= 8192 {
		panic("refsm2: uid too long for 16-bit ENTL")
	}
	if pub.X == nil || pub.Y == nil {
		panic("refsm2: ZA of the point at infinity")
	}
	var in []byte
	var entl [2]byte
	binary.BigEndian.PutUint16(entl[:], uint16(len(uid)*8))
	in = append(in, entl[:]...)
	in = append(in, uid...)
	in = append(in, bytes32(curveA)...)
	in = append(in, bytes32(curveB)...)
	in = append(in, bytes32(curveGx)...)
	in = append(in, bytes32(curveGy)...)
	in = append(in, bytes32(pub.X)...)
	in = append(in, bytes32(pub.Y)...)
	return refsm3.Sum(in)
}

// Digest computes e = SM3(ZA || msg).
func Digest(pub Point, uid, msg []byte) [32]byte {
	za := ZA(pub, uid)
	in := append(append([]byte(nil), za[:]...), msg...)
	return refsm3.Sum(in)
}

var one = big.NewInt(1)

// SignWithK is the signature generation algorithm of GM/T 0003.2 section 6.1
// with the nonce supplied by the caller. ok is false when the standard says
// to pick another k (r == 0, r+k == n or s == 0), and when d is outside
// [1, n-2] or k outside [1, n-1].
func SignWithK(d *big.Int, uid, msg []byte, k *big.Int) (r, s *big.Int, ok bool) {
	nMinus1 := new(big.Int).Sub(curveN, one)
	if d.Sign() <= 0 || d.Cmp(nMinus1) >= 0 {
		return nil, nil, false
	}
	if k.Sign() <= 0 || k.Cmp(curveN) >= 0 {
		return nil, nil, false
	}
	pub := ScalarBaseMult(d)
	eb := Digest(pub, uid, msg)
	e := new(big.Int).SetBytes(eb[:])

	x1 := ScalarBaseMult(k).X
	r = new(big.Int).Add(e, x1)
	r.Mod(r, curveN)
	if r.Sign() == 0 {
		return nil, nil, false
	}
	if new(big.Int).Add(r, k).Cmp(curveN) == 0 {
		return nil, nil, false
	}
	// s = (1+d)^-1 * (k - r*d) mod n
	inv := new(big.Int).Add(one, d)
	inv.ModInverse(inv, curveN)
	s = new(big.Int).Mul(r, d)
	s.Sub(k, s)
	s.Mul(s, inv)
	s.Mod(s, curveN)
	if s.Sign() == 0 {
		return nil, nil, false
	}
	return r, s, true
}

// Verify is the signature verification algorithm of GM/T 0003.2 section 7.1.
// It additionally requires pub to be a finite point on the curve.
func Verify(pub Point, uid, msg []byte, r, s *big.Int) bool {
	if !OnCurve(pub) {
		return false
	}
	if r == nil || s == nil {
		return false
	}
	if r.Sign() <= 0 || r.Cmp(curveN) >= 0 {
		return false
	}
	if s.Sign() <= 0 || s.Cmp(curveN) >= 0 {
		return false
	}
	eb := Digest(pub, uid, msg)
	e := new(big.Int).SetBytes(eb[:])
	t := new(big.Int).Add(r, s)
	t.Mod(t, curveN)
	if t.Sign() == 0 {
		return false
	}
	pt := Add(ScalarBaseMult(s), ScalarMult(pub, t))
	if pt.IsInfinity() {
		return false
	}
	R := new(big.Int).Add(e, pt.X)
	R.Mod(R, curveN)
	return R.Cmp(r) == 0
}

// KDF is the key derivation function of GM/T 0003.4 section 5.4.3:
// SM3(z || ct) for a 32-bit big-endian counter ct = 1, 2, ..., truncated to
// klen bytes.
func KDF(z []byte, klen int) []byte {
	if klen < 0 {
		panic("refsm2: negative KDF length")
	}
	out := make([]byte, 0, klen+32)
	for ct := uint32(1); len(out) < klen; ct++ {
		in := make([]byte, 0, len(z)+4)
		in = append(in, z...)
		var c [4]byte
		binary.BigEndian.PutUint32(c[:], ct)
		in = append(in, c[:]...)
		h := refsm3.Sum(in)
		out = append(out, h[:]...)
	}
	return out[:klen]
}

func allZero(b []byte) bool {
	var acc byte
	for _, v := range b {
		acc |= v
	}
	return acc == 0
}

// EncryptWithK is the encryption algorithm of GM/T 0003.4 section 6.1 with
// the nonce supplied by the caller. ok is false if pub is not a finite curve
// point, k is outside [1, n-1], or the derived key stream t is all zero (the
// standard then asks for another k). For an empty message the key stream is
// empty and is not regarded as "all zero".
func EncryptWithK(pub Point, msg []byte, k *big.Int) (c1x, c1y *big.Int, c3 [32]byte, c2 []byte, ok bool) {
	if !OnCurve(pub) {
		return nil, nil, c3, nil, false
	}
	if k.Sign() <= 0 || k.Cmp(curveN) >= 0 {
		return nil, nil, c3, nil, false
	}
	c1 := ScalarBaseMult(k)
	// Cofactor h = 1, so S = [h]P is infinity only if P is, excluded above.
	kp := ScalarMult(pub, k)
	if kp.IsInfinity() {
		return nil, nil, c3, nil, false
	}
	x2, y2 := bytes32(kp.X), bytes32(kp.Y)
	t := KDF(append(append([]byte(nil), x2...), y2...), len(msg))
	if len(msg) > 0 && allZero(t) {
		return nil, nil, c3, nil, false
	}
	c2 = make([]byte, len(msg))
	for i := range msg {
		c2[i] = msg[i] ^ t[i]
	}
	var in []byte
	in = append(in, x2...)
	in = append(in, msg...)
	in = append(in, y2...)
	c3 = refsm3.Sum(in)
	return c1.X, c1.Y, c3, c2, true
}

// Decrypt is the decryption algorithm of GM/T 0003.4 section 7.1. It returns
// false if C1 is not on the curve, d is outside [1, n-1], c3 is not 32
// bytes, the key stream is all zero, or the hash check fails.
func Decrypt(d *big.Int, c1x, c1y *big.Int, c3 []byte, c2 []byte) ([]byte, bool) {
	if d == nil || d.Sign() <= 0 || d.Cmp(curveN) >= 0 {
		return nil, false
	}
	if len(c3) != 32 {
		return nil, false
	}
	c1 := Point{X: c1x, Y: c1y}
	if !OnCurve(c1) {
		return nil, false
	}
	dp := ScalarMult(c1, d)
	if dp.IsInfinity() {
		return nil, false
	}
	x2, y2 := bytes32(dp.X), bytes32(dp.Y)
	t := KDF(append(append([]byte(nil), x2...), y2...), len(c2))
	if len(c2) > 0 && allZero(t) {
		return nil, false
	}
	m := make([]byte, len(c2))
	for i := range c2 {
		m[i] = c2[i] ^ t[i]
	}
	var in []byte
	in = append(in, x2...)
	in = append(in, m...)
	in = append(in, y2...)
	u := refsm3.Sum(in)
	if subtle.ConstantTimeCompare(u[:], c3) != 1 {
		return nil, false
	}
	return m, true
}

// ciphertextASN1 is the GM/T 0009 SM2Cipher structure (order C1, C3, C2).
type ciphertextASN1 struct {
	X, Y   *big.Int
	Hash   []byte
	Cipher []byte
}

// MarshalCiphertextASN1 DER-encodes
// SEQUENCE { INTEGER x, INTEGER y, OCTET STRING hash, OCTET STRING ciphertext }.
func MarshalCiphertextASN1(c1x, c1y *big.Int, c3 []byte, c2 []byte) []byte {
	if c1x.Sign() < 0 || c1y.Sign() < 0 {
		panic("refsm2: negative coordinate")
	}
	// encoding/asn1 encodes a nil []byte as an empty OCTET STRING too, but
	// be explicit.
	if c3 == nil {
		c3 = []byte{}
	}
	if c2 == nil {
		c2 = []byte{}
	}
	der, err := asn1.Marshal(ciphertextASN1{X: c1x, Y: c1y, Hash: c3, Cipher: c2})
	if err != nil {
		panic("refsm2: " + err.Error())
	}
	return der
}

// UnmarshalCiphertextASN1 parses the structure written by
// MarshalCiphertextASN1. It is strict: canonical DER only (the input must
// equal the re-encoding of what was parsed), no trailing bytes, no surplus
// elements, non-negative integers, 32-byte hash.
func UnmarshalCiphertextASN1(der []byte) (c1x, c1y *big.Int, c3, c2 []byte, err error) {
	var c ciphertextASN1
	rest, err := asn1.Unmarshal(der, &c)
	if err != nil {
		return nil, nil, nil, nil, err
	}
	if len(rest) != 0 {
		return nil, nil, nil, nil, errors.New("refsm2: trailing data after ciphertext")
	}
	if c.X.Sign() < 0 || c.Y.Sign() < 0 {
		return nil, nil, nil, nil, errors.New("refsm2: negative coordinate in ciphertext")
	}
	if len(c.Hash) != 32 {
		return nil, nil, nil, nil, errors.New("refsm2: ciphertext hash is not 32 bytes")
	}
	// encoding/asn1 tolerates surplus elements inside the SEQUENCE; insist
	// on the canonical encoding by re-encoding and comparing.
	if !bytes.Equal(MarshalCiphertextASN1(c.X, c.Y, c.Hash, c.Cipher), der) {
		return nil, nil, nil, nil, errors.New("refsm2: ciphertext is not canonical DER")
	}
	return c.X, c.Y, c.Hash, c.Cipher, nil
}

type signatureASN1 struct {
	R, S *big.Int
}

// MarshalSignatureASN1 DER-encodes SEQUENCE { INTEGER r, INTEGER s }.
func MarshalSignatureASN1(r, s *big.Int) []byte {
	if r.Sign() < 0 || s.Sign() < 0 {
		panic("refsm2: negative signature component")
	}
	der, err := asn1.Marshal(signatureASN1{R: r, S: s})
	if err != nil {
		panic("refsm2: " + err.Error())
	}
	return der
}

// UnmarshalSignatureASN1 parses SEQUENCE { INTEGER r, INTEGER s }. It is
// strict: canonical DER only (the input must equal the re-encoding of what
// was parsed), no trailing bytes, no surplus elements, non-negative integers.
// Range checks against n are left to Verify.
func UnmarshalSignatureASN1(der []byte) (r, s *big.Int, err error) {
	var sig signatureASN1
	rest, err := asn1.Unmarshal(der, &sig)
	if err != nil {
		return nil, nil, err
	}
	if len(rest) != 0 {
		return nil, nil, errors.New("refsm2: trailing data after signature")
	}
	if sig.R.Sign() < 0 || sig.S.Sign() < 0 {
		return nil, nil, errors.New("refsm2: negative signature component")
	}
	// encoding/asn1 tolerates surplus elements inside the SEQUENCE; insist
	// on the canonical encoding by re-encoding and comparing.
	if !bytes.Equal(MarshalSignatureASN1(sig.R, sig.S), der) {
		return nil, nil, errors.New("refsm2: signature is not canonical DER")
	}
	return sig.R, sig.S, nil
}
