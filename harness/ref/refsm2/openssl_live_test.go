package refsm2

import (
	"bytes"
	"encoding/base64"
	"encoding/hex"
	"fmt"
	"math/big"
	"os"
	"os/exec"
	"path/filepath"
	"strings"
	"testing"
)

// Reverse-direction vectors: produced by THIS package, judged by OpenSSL.
//
// selfPlan lists what is produced (key, uid, message, nonce); the resulting
// DER is committed in vectors_self_test.go. TestSelfVectors (always run)
// checks the package still produces the committed bytes;
// TestSelfVectorsAgainstOpenSSL (only with REF_OPENSSL=1, needs the openssl
// binary) hands every one of them to "openssl pkeyutl -verify" /
// "openssl pkeyutl -decrypt", and with REF_UPDATE=1 rewrites
// vectors_self_test.go with what OpenSSL accepted.

type selfSig struct {
	key  int    // index into opensslKeys
	uid  string // hex
	seed uint32 // msg = pattern(seed, n)
	n    int
	k    string // nonce, hex
	der  string // MarshalSignatureASN1(SignWithK(...)), hex
}

type selfCiphertext struct {
	key  int
	seed uint32
	n    int
	k    string
	der  string // MarshalCiphertextASN1(EncryptWithK(...)), hex
}

func selfPlan() (sigs []selfSig, cts []selfCiphertext) {
	uids := [][]byte{
		[]byte("1234567812345678"),
		[]byte("1234567812345678"),
		[]byte("ALICE123@YAHOO.COM"),
		{0x00, 0xff, 0x80, 0x0a, 0x20}, // binary uid, passed as hexdistid
	}
	v := 0
	for key := range opensslKeys {
		for _, n := range []int{0, 14, 333} {
			sigs = append(sigs, selfSig{
				key:  key,
				uid:  hex.EncodeToString(uids[v%len(uids)]),
				seed: uint32(8000 + v),
				n:    n,
				k:    fmt.Sprintf("%064x", nonceFromSeed(uint32(8500+v))),
			})
			v++
		}
	}
	v = 0
	for key := range opensslKeys {
		for _, n := range []int{1 + v%7, 32 + 31*(v%5), 1000} {
			cts = append(cts, selfCiphertext{
				key:  key,
				seed: uint32(9000 + v),
				n:    n,
				k:    fmt.Sprintf("%064x", nonceFromSeed(uint32(9500+v))),
			})
			v++
		}
	}
	return sigs, cts
}

func computeSelfSig(t testing.TB, v selfSig) string {
	t.Helper()
	r, s, ok := SignWithK(hx(opensslKeys[v.key].d), unhex(t, v.uid), pattern(v.seed, v.n), hx(v.k))
	if !ok {
		t.Fatalf("SignWithK refused nonce %s", v.k)
	}
	return hex.EncodeToString(MarshalSignatureASN1(r, s))
}

func computeSelfCiphertext(t testing.TB, v selfCiphertext) string {
	t.Helper()
	c1x, c1y, c3, c2, ok := EncryptWithK(keyPub(v.key), pattern(v.seed, v.n), hx(v.k))
	if !ok {
		t.Fatalf("EncryptWithK refused nonce %s", v.k)
	}
	return hex.EncodeToString(MarshalCiphertextASN1(c1x, c1y, c3[:], c2))
}

func pemBlock(kind string, der []byte) []byte {
	var b bytes.Buffer
	fmt.Fprintf(&b, "-----BEGIN %s-----\n", kind)
	s := base64.StdEncoding.EncodeToString(der)
	for len(s) > 64 {
		b.WriteString(s[:64] + "\n")
		s = s[64:]
	}
	b.WriteString(s + "\n")
	fmt.Fprintf(&b, "-----END %s-----\n", kind)
	return b.Bytes()
}

// sm2OID is the DER of OBJECT IDENTIFIER 1.2.156.10197.1.301 (sm2p256v1).
var sm2OID = []byte{0x06, 0x08, 0x2a, 0x81, 0x1c, 0xcf, 0x55, 0x01, 0x82, 0x2d}

// privPEM builds a SEC1 ECPrivateKey (version 1, 32-byte scalar, [0] curve
// OID, no public key) for the SM2 curve.
func privPEM(d *big.Int) []byte {
	body := []byte{0x02, 0x01, 0x01, 0x04, 0x20}
	body = append(body, bytes32(d)...)
	body = append(body, 0xa0, byte(len(sm2OID)))
	body = append(body, sm2OID...)
	der := append([]byte{0x30, byte(len(body))}, body...)
	return pemBlock("EC PRIVATE KEY", der)
}

// pubPEM builds a SubjectPublicKeyInfo {id-ecPublicKey, sm2p256v1} with an
// uncompressed point.
func pubPEM(p Point) []byte {
	alg := []byte{0x06, 0x07, 0x2a, 0x86, 0x48, 0xce, 0x3d, 0x02, 0x01}
	alg = append(alg, sm2OID...)
	alg = append([]byte{0x30, byte(len(alg))}, alg...)
	bits := []byte{0x00, 0x04}
	bits = append(bits, bytes32(p.X)...)
	bits = append(bits, bytes32(p.Y)...)
	bits = append([]byte{0x03, byte(len(bits))}, bits...)
	body := append(alg, bits...)
	der := append([]byte{0x30, byte(len(body))}, body...)
	return pemBlock("PUBLIC KEY", der)
}

func TestSelfVectorsAgainstOpenSSL(t *testing.T) {
	if os.Getenv("REF_OPENSSL") == "" {
		t.Skip("set REF_OPENSSL=1 to submit this package's signatures and ciphertexts to the openssl binary")
	}
	ver, err := exec.Command("openssl", "version").Output()
	if err != nil {
		t.Fatalf("openssl: %v", err)
	}
	version := strings.TrimSpace(string(ver))
	t.Logf("arbiter: %s", version)
	dir := t.TempDir()
	write := func(name string, data []byte) string {
		p := filepath.Join(dir, name)
		if err := os.WriteFile(p, data, 0o600); err != nil {
			t.Fatal(err)
		}
		return p
	}
	var privs, pubs []string
	for i, k := range opensslKeys {
		privs = append(privs, write(fmt.Sprintf("priv%d.pem", i), privPEM(hx(k.d))))
		pubs = append(pubs, write(fmt.Sprintf("pub%d.pem", i), pubPEM(keyPub(i))))
		// OpenSSL must derive the same public key from our private PEM.
		out, err := exec.Command("openssl", "pkey", "-in", privs[i], "-pubout", "-outform", "DER").Output()
		if err != nil {
			t.Fatalf("openssl pkey on generated PEM: %v", err)
		}
		want := append(bytes32(hx(k.x)), bytes32(hx(k.y))...)
		if len(out) < 64 || !bytes.Equal(out[len(out)-64:], want) {
			t.Fatalf("key %d: OpenSSL derives a different public key from the private PEM", i)
		}
	}

	sigs, cts := selfPlan()
	verify := func(v selfSig, msgFile, sigFile string) error {
		out, err := exec.Command("openssl", "pkeyutl", "-verify", "-rawin", "-digest", "sm3",
			"-pkeyopt", "hexdistid:"+v.uid, "-pubin", "-inkey", pubs[v.key],
			"-in", msgFile, "-sigfile", sigFile).CombinedOutput()
		if err != nil {
			return fmt.Errorf("%v: %s", err, out)
		}
		if !strings.Contains(string(out), "Signature Verified Successfully") {
			return fmt.Errorf("unexpected output: %s", out)
		}
		return nil
	}
	for i := range sigs {
		v := &sigs[i]
		v.der = computeSelfSig(t, *v)
		msgFile := write("msg", pattern(v.seed, v.n))
		der := unhex(t, v.der)
		if err := verify(*v, msgFile, write("sig", der)); err != nil {
			t.Errorf("self sig %d REJECTED by OpenSSL: %v", i, err)
		}
		// Control: OpenSSL really checks. Flip one bit in s.
		bad := append([]byte(nil), der...)
		bad[len(bad)-1] ^= 0x04
		if err := verify(*v, msgFile, write("badsig", bad)); err == nil {
			t.Errorf("self sig %d: OpenSSL accepted a corrupted signature", i)
		}
		// Control: the uid matters to OpenSSL too.
		other := *v
		other.uid += "00"
		if err := verify(other, msgFile, write("sig", der)); err == nil {
			t.Errorf("self sig %d: OpenSSL accepted a wrong uid", i)
		}
	}
	for i := range cts {
		v := &cts[i]
		v.der = computeSelfCiphertext(t, *v)
		ctFile := write("ct", unhex(t, v.der))
		out, err := exec.Command("openssl", "pkeyutl", "-decrypt", "-inkey", privs[v.key], "-in", ctFile).Output()
		if err != nil {
			t.Errorf("self ciphertext %d REJECTED by OpenSSL: %v", i, err)
			continue
		}
		if !bytes.Equal(out, pattern(v.seed, v.n)) {
			t.Errorf("self ciphertext %d: OpenSSL decrypted to something else", i)
		}
	}
	t.Logf("%d signatures and %d ciphertexts produced by refsm2 accepted by %s", len(sigs), len(cts), version)
	if t.Failed() {
		return
	}

	if os.Getenv("REF_UPDATE") != "" {
		var b bytes.Buffer
		fmt.Fprintf(&b, "// Code generated by TestSelfVectorsAgainstOpenSSL (REF_OPENSSL=1 REF_UPDATE=1); DO NOT EDIT.\n")
		fmt.Fprintf(&b, "// Every entry below was produced by this package and ACCEPTED by:\n// %s\n", version)
		fmt.Fprintf(&b, "//   signatures:  openssl pkeyutl -verify -rawin -digest sm3 -pkeyopt hexdistid:UID -pubin -inkey pub.pem -in msg -sigfile sig\n")
		fmt.Fprintf(&b, "//   ciphertexts: openssl pkeyutl -decrypt -inkey priv.pem -in ct   (output compared with msg)\n\n")
		fmt.Fprintf(&b, "package refsm2\n\n")
		fmt.Fprintf(&b, "var selfSigs = []selfSig{\n")
		for _, v := range sigs {
			fmt.Fprintf(&b, "\t{%d, %q, %d, %d,\n\t\t%q,\n\t\t%q},\n", v.key, v.uid, v.seed, v.n, v.k, v.der)
		}
		fmt.Fprintf(&b, "}\n\nvar selfCiphertexts = []selfCiphertext{\n")
		for _, v := range cts {
			fmt.Fprintf(&b, "\t{%d, %d, %d,\n\t\t%q,\n\t\t%q},\n", v.key, v.seed, v.n, v.k, v.der)
		}
		fmt.Fprintf(&b, "}\n")
		if err := os.WriteFile("vectors_self_test.go", b.Bytes(), 0o644); err != nil {
			t.Fatal(err)
		}
		t.Logf("vectors_self_test.go rewritten")
		return
	}
	// Not updating: the committed constants must be what we just checked.
	if len(selfSigs) != len(sigs) || len(selfCiphertexts) != len(cts) {
		t.Fatal("committed self vectors out of date; rerun with REF_UPDATE=1")
	}
	for i := range sigs {
		if sigs[i] != selfSigs[i] {
			t.Errorf("self sig %d differs from committed constant", i)
		}
	}
	for i := range cts {
		if cts[i] != selfCiphertexts[i] {
			t.Errorf("self ciphertext %d differs from committed constant", i)
		}
	}
}
