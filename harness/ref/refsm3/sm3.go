// Package refsm3 is a small, deliberately plain reference implementation of
// the SM3 hash function (GM/T 0004-2012), written from the text of the
// standard for use as an independent test oracle.
//
// It imports only the Go standard library and shares no code with the
// library under test.
package refsm3

import (
	"encoding/binary"
	"hash"
	"math/bits"
)

// Size is the digest size in bytes.
const Size = 32

// BlockSize is the compression-function block size in bytes.
const BlockSize = 64

// iv is the initial value of GM/T 0004 section 4.1.
var iv = [8]uint32{
	0x7380166f, 0x4914b2b9, 0x172442d7, 0xda8a0600,
	0xa96f30bc, 0x163138aa, 0xe38dee4d, 0xb0fb0e4e,
}

// t is the constant T_j of section 4.2.
func t(j int) uint32 {
	if j < 16 {
		return 0x79cc4519
	}
	return 0x7a879d8a
}

// ff is the boolean function FF_j of section 4.3.
func ff(j int, x, y, z uint32) uint32 {
	if j < 16 {
		return x ^ y ^ z
	}
	return (x & y) | (x & z) | (y & z)
}

// gg is the boolean function GG_j of section 4.3.
func gg(j int, x, y, z uint32) uint32 {
	if j < 16 {
		return x ^ y ^ z
	}
	return (x & y) | (^x & z)
}

// p0 is the permutation P0 of section 4.4.
func p0(x uint32) uint32 { return x ^ bits.RotateLeft32(x, 9) ^ bits.RotateLeft32(x, 17) }

// p1 is the permutation P1 of section 4.4.
func p1(x uint32) uint32 { return x ^ bits.RotateLeft32(x, 15) ^ bits.RotateLeft32(x, 23) }

// compress applies the compression function CF (section 5.3.3) to one
// 64-byte block, updating v in place.
func compress(v *[8]uint32, block []byte) {
	// Message expansion, section 5.3.2.
	var w [68]uint32
	var w1 [64]uint32
	for j := 0; j < 16; j++ {
		w[j] = binary.BigEndian.Uint32(block[4*j:])
	}
	for j := 16; j < 68; j++ {
		w[j] = p1(w[j-16]^w[j-9]^bits.RotateLeft32(w[j-3], 15)) ^
			bits.RotateLeft32(w[j-13], 7) ^ w[j-6]
	}
	for j := 0; j < 64; j++ {
		w1[j] = w[j] ^ w[j+4]
	}

	a, b, c, d := v[0], v[1], v[2], v[3]
	e, f, g, h := v[4], v[5], v[6], v[7]
	for j := 0; j < 64; j++ {
		a12 := bits.RotateLeft32(a, 12)
		// RotateLeft32 reduces the rotation count mod 32, as the
		// standard requires for j >= 32.
		ss1 := bits.RotateLeft32(a12+e+bits.RotateLeft32(t(j), j), 7)
		ss2 := ss1 ^ a12
		tt1 := ff(j, a, b, c) + d + ss2 + w1[j]
		tt2 := gg(j, e, f, g) + h + ss1 + w[j]
		d = c
		c = bits.RotateLeft32(b, 9)
		b = a
		a = tt1
		h = g
		g = bits.RotateLeft32(f, 19)
		f = e
		e = p0(tt2)
	}
	v[0] ^= a
	v[1] ^= b
	v[2] ^= c
	v[3] ^= d
	v[4] ^= e
	v[5] ^= f
	v[6] ^= g
	v[7] ^= h
}

// digest is the streaming state.
type digest struct {
	v   [8]uint32
	buf [BlockSize]byte
	n   int    // number of valid bytes in buf, always < BlockSize between calls
	len uint64 // total number of bytes written
}

// New returns a new hash.Hash computing SM3.
func New() hash.Hash {
	d := new(digest)
	d.Reset()
	return d
}

func (d *digest) Reset() {
	d.v = iv
	d.n = 0
	d.len = 0
	for i := range d.buf {
		d.buf[i] = 0
	}
}

func (d *digest) Size() int      { return Size }
func (d *digest) BlockSize() int { return BlockSize }

func (d *digest) Write(p []byte) (int, error) {
	total := len(p)
	d.len += uint64(total)
	for len(p) > 0 {
		c := copy(d.buf[d.n:], p)
		d.n += c
		p = p[c:]
		if d.n == BlockSize {
			compress(&d.v, d.buf[:])
			d.n = 0
		}
	}
	return total, nil
}

// Sum appends the digest of everything written so far to b. The receiver's
// state is not changed: finalisation works on a copy.
func (d *digest) Sum(b []byte) []byte {
	c := *d // value copy: arrays are copied too
	out := c.finish()
	return append(b, out[:]...)
}

// finish pads (section 5.2) and produces the digest; it destroys c.
func (c *digest) finish() [Size]byte {
	bitLen := c.len * 8
	// 0x80, then zeros until the length is 56 mod 64, then the 64-bit
	// big-endian bit length.
	pad := make([]byte, 0, BlockSize+8)
	pad = append(pad, 0x80)
	for (c.n+len(pad))%BlockSize != 56 {
		pad = append(pad, 0x00)
	}
	var lb [8]byte
	binary.BigEndian.PutUint64(lb[:], bitLen)
	pad = append(pad, lb[:]...)
	c.Write(pad)
	if c.n != 0 {
		panic("refsm3: padding did not end on a block boundary")
	}
	var out [Size]byte
	for i := 0; i < 8; i++ {
		binary.BigEndian.PutUint32(out[4*i:], c.v[i])
	}
	return out
}

// Sum returns the SM3 digest of data.
func Sum(data []byte) [Size]byte {
	var d digest
	d.Reset()
	d.Write(data)
	return d.finish()
}
