package refsm3

import (
	"bytes"
	"encoding/hex"
	"hash"
	"math/rand"
	"testing"
)

// pattern is the deterministic test-input generator shared with
// ../gen_vectors.sh: a 32-bit LCG, one output byte (the top one) per step.
func pattern(seed uint32, n int) []byte {
	out := make([]byte, n)
	x := seed
	for i := range out {
		x = x*1664525 + 1013904223
		out[i] = byte(x >> 24)
	}
	return out
}

var _ hash.Hash = (*digest)(nil)

// The two worked examples of GM/T 0004-2012 appendix A.
func TestStandardExamples(t *testing.T) {
	cases := []struct {
		in   []byte
		want string
	}{
		{[]byte("abc"),
			"66c7f0f462eeedd9d1f2d46bdc10e4e24167c4875cf2f7a2297da02b8f4ba8e0"},
		{bytes.Repeat([]byte("abcd"), 16),
			"debe9ff92275b8a138604889c18e5a4d6fdb70e5387e5765293dcba39c0c5732"},
	}
	for _, c := range cases {
		got := Sum(c.in)
		if hex.EncodeToString(got[:]) != c.want {
			t.Errorf("Sum(%q) = %x, want %s", c.in, got, c.want)
		}
		h := New()
		h.Write(c.in)
		if g := hex.EncodeToString(h.Sum(nil)); g != c.want {
			t.Errorf("New().Sum(%q) = %s, want %s", c.in, g, c.want)
		}
	}
}

func TestOpenSSLVectors(t *testing.T) {
	if len(opensslSM3) < 40 {
		t.Fatalf("only %d OpenSSL vectors", len(opensslSM3))
	}
	for _, v := range opensslSM3 {
		in := pattern(v.seed, v.n)
		got := Sum(in)
		if hex.EncodeToString(got[:]) != v.digest {
			t.Errorf("len %d: Sum = %x, want %s", v.n, got, v.digest)
		}
		h := New()
		h.Write(in)
		if g := hex.EncodeToString(h.Sum(nil)); g != v.digest {
			t.Errorf("len %d: streaming = %s, want %s", v.n, g, v.digest)
		}
	}
}

func TestStreamingChunkings(t *testing.T) {
	rng := rand.New(rand.NewSource(20260925))
	for iter := 0; iter < 300; iter++ {
		n := rng.Intn(700)
		if iter%50 == 0 {
			n = 5000 + rng.Intn(5000)
		}
		in := pattern(uint32(iter+77), n)
		want := Sum(in)
		h := New()
		rest := in
		for len(rest) > 0 {
			c := rng.Intn(len(rest) + 1)
			if rng.Intn(3) == 0 && c > 130 {
				c = rng.Intn(130)
			}
			nn, err := h.Write(rest[:c])
			if nn != c || err != nil {
				t.Fatalf("Write returned %d, %v", nn, err)
			}
			rest = rest[c:]
			// Interleaved Sum calls must not disturb the state.
			if rng.Intn(4) == 0 {
				prefix := Sum(in[:len(in)-len(rest)])
				if g := h.Sum(nil); !bytes.Equal(g, prefix[:]) {
					t.Fatalf("iter %d: mid-stream Sum mismatch", iter)
				}
			}
		}
		if g := h.Sum(nil); !bytes.Equal(g, want[:]) {
			t.Fatalf("iter %d len %d: chunked %x, one-shot %x", iter, n, g, want)
		}
	}
}

func TestHashInterface(t *testing.T) {
	h := New()
	if h.Size() != 32 || h.BlockSize() != 64 {
		t.Fatalf("Size/BlockSize = %d/%d", h.Size(), h.BlockSize())
	}
	h.Write([]byte("ab"))

	// Sum appends to its argument and leaves it otherwise intact.
	prefix := []byte{1, 2, 3}
	out := h.Sum(prefix)
	ab := Sum([]byte("ab"))
	if len(out) != 35 || !bytes.Equal(out[:3], []byte{1, 2, 3}) || !bytes.Equal(out[3:], ab[:]) {
		t.Fatalf("Sum(prefix) = %x", out)
	}
	// Sum twice gives the same answer; state unchanged, so writing "c"
	// afterwards gives the digest of "abc".
	if !bytes.Equal(h.Sum(nil), ab[:]) {
		t.Fatal("second Sum differs")
	}
	h.Write([]byte("c"))
	abc := Sum([]byte("abc"))
	if !bytes.Equal(h.Sum(nil), abc[:]) {
		t.Fatal("Sum changed the state")
	}
	// Reset.
	h.Reset()
	empty := Sum(nil)
	if !bytes.Equal(h.Sum(nil), empty[:]) {
		t.Fatal("Reset did not restore the initial state")
	}
	h.Write([]byte("abc"))
	if !bytes.Equal(h.Sum(nil), abc[:]) {
		t.Fatal("hash after Reset differs")
	}
	// Two hashes do not share state.
	h1, h2 := New(), New()
	h1.Write([]byte("abc"))
	h2.Write([]byte("ab"))
	if !bytes.Equal(h1.Sum(nil), abc[:]) || !bytes.Equal(h2.Sum(nil), ab[:]) {
		t.Fatal("instances interfere")
	}
}

// Sum must not modify or retain its input.
func TestInputUntouched(t *testing.T) {
	in := pattern(5, 200)
	cp := append([]byte(nil), in...)
	Sum(in)
	h := New()
	h.Write(in)
	h.Sum(nil)
	if !bytes.Equal(in, cp) {
		t.Fatal("input modified")
	}
}
