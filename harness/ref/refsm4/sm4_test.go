package refsm4

import (
	"bytes"
	"crypto/cipher"
	"encoding/hex"
	"sync"
	"testing"
)

// pattern is the deterministic test-input generator shared with
// ../gen_vectors.sh.
func pattern(seed uint32, n int) []byte {
	out := make([]byte, n)
	x := seed
	for i := range out {
		x = x*1664525 + 1013904223
		out[i] = byte(x >> 24)
	}
	return out
}

func unhex(t testing.TB, s string) []byte {
	t.Helper()
	b, err := hex.DecodeString(s)
	if err != nil {
		t.Fatal(err)
	}
	return b
}

// Spot values of the S-box table printed in GM/T 0002-2012 (row 0, row e,
// row f) against the algebraic derivation.
func TestSboxSpotValues(t *testing.T) {
	want := map[int]byte{0x00: 0xD6, 0x01: 0x90, 0x02: 0xE9, 0x03: 0xFE, 0x04: 0xCC,
		0x0F: 0x05, 0x10: 0x2B, 0xEF: 0x84, 0xFD: 0xCB, 0xFE: 0x39, 0xFF: 0x48}
	for x, y := range want {
		if sbox[x] != y {
			t.Errorf("S[%02x] = %02x, want %02x", x, sbox[x], y)
		}
	}
}

// First and last fixed parameters CK as printed in the standard.
func TestCK(t *testing.T) {
	if ck[0] != 0x00070e15 || ck[1] != 0x1c232a31 || ck[31] != 0x646b7279 {
		t.Fatalf("ck[0]=%08x ck[1]=%08x ck[31]=%08x", ck[0], ck[1], ck[31])
	}
}

// Example 1 of GM/T 0002-2012 appendix A, including the first and last round
// keys printed there.
func TestStandardExample(t *testing.T) {
	key := unhex(t, "0123456789abcdeffedcba9876543210")
	c, err := NewCipher(key)
	if err != nil {
		t.Fatal(err)
	}
	b := c.(*block)
	if b.rk[0] != 0xf12186f9 || b.rk[31] != 0x9124a012 {
		t.Errorf("rk[0]=%08x rk[31]=%08x, want f12186f9 9124a012", b.rk[0], b.rk[31])
	}
	out := make([]byte, 16)
	c.Encrypt(out, key)
	if got := hex.EncodeToString(out); got != "681edf34d206965e86b3e94f536e4246" {
		t.Fatalf("encrypt = %s", got)
	}
	back := make([]byte, 16)
	c.Decrypt(back, out)
	if !bytes.Equal(back, key) {
		t.Fatalf("decrypt = %x", back)
	}
}

// Example 2 of appendix A: the same key, plaintext encrypted 1,000,000 times.
func TestStandardMillion(t *testing.T) {
	key := unhex(t, "0123456789abcdeffedcba9876543210")
	c, _ := NewCipher(key)
	buf := append([]byte(nil), key...)
	for i := 0; i < 1000000; i++ {
		c.Encrypt(buf, buf) // exact overlap is allowed by cipher.Block
	}
	if got := hex.EncodeToString(buf); got != "595298c7c6fd271f0402f804c33d3f66" {
		t.Fatalf("after 1e6 encryptions: %s", got)
	}
	for i := 0; i < 1000; i++ {
		c.Decrypt(buf, buf)
	}
	for i := 0; i < 1000; i++ {
		c.Encrypt(buf, buf)
	}
	if got := hex.EncodeToString(buf); got != "595298c7c6fd271f0402f804c33d3f66" {
		t.Fatalf("decrypt does not invert encrypt: %s", got)
	}
}

func TestOpenSSLECB(t *testing.T) {
	if len(opensslECB) < 20 {
		t.Fatalf("only %d vectors", len(opensslECB))
	}
	for i, v := range opensslECB {
		key, pt, ct := unhex(t, v.key), unhex(t, v.pt), unhex(t, v.ct)
		if i < 24 {
			if !bytes.Equal(key, pattern(uint32(1000+i), 16)) {
				t.Fatalf("vector %d: key is not pattern(%d)", i, 1000+i)
			}
		}
		if !bytes.Equal(pt, pattern(uint32(2000+i), len(pt))) {
			t.Fatalf("vector %d: plaintext is not pattern(%d)", i, 2000+i)
		}
		c, err := NewCipher(key)
		if err != nil {
			t.Fatal(err)
		}
		got := make([]byte, len(pt))
		for off := 0; off < len(pt); off += 16 {
			c.Encrypt(got[off:], pt[off:])
		}
		if !bytes.Equal(got, ct) {
			t.Errorf("vector %d: encrypt = %x, want %x", i, got, ct)
		}
		back := make([]byte, len(ct))
		for off := 0; off < len(ct); off += 16 {
			c.Decrypt(back[off:], ct[off:])
		}
		if !bytes.Equal(back, pt) {
			t.Errorf("vector %d: decrypt = %x, want %x", i, back, pt)
		}
	}
}

func TestOpenSSLCBC(t *testing.T) {
	if len(opensslCBC) < 4 {
		t.Fatalf("only %d vectors", len(opensslCBC))
	}
	for i, v := range opensslCBC {
		key, iv, pt, ct := unhex(t, v.key), unhex(t, v.iv), unhex(t, v.pt), unhex(t, v.ct)
		c, _ := NewCipher(key)
		got := make([]byte, len(pt))
		cipher.NewCBCEncrypter(c, iv).CryptBlocks(got, pt)
		if !bytes.Equal(got, ct) {
			t.Errorf("vector %d: CBC encrypt mismatch", i)
		}
		back := make([]byte, len(ct))
		cipher.NewCBCDecrypter(c, iv).CryptBlocks(back, ct)
		if !bytes.Equal(back, pt) {
			t.Errorf("vector %d: CBC decrypt mismatch", i)
		}
	}
}

func TestOpenSSLCTR(t *testing.T) {
	for i, v := range opensslCTR {
		key, iv, pt, ct := unhex(t, v.key), unhex(t, v.iv), unhex(t, v.pt), unhex(t, v.ct)
		c, _ := NewCipher(key)
		got := make([]byte, len(pt))
		cipher.NewCTR(c, iv).XORKeyStream(got, pt)
		if !bytes.Equal(got, ct) {
			t.Errorf("vector %d: CTR mismatch", i)
		}
	}
}

// The openssl CLI cannot emit AEAD ciphertexts, but "openssl mac GMAC" gives
// the GCM tag over AAD with an empty plaintext, which exercises the hash
// subkey E(0), the J0 block and GHASH of crypto/cipher.NewGCM over this
// block. (The CTR part of GCM is covered by TestOpenSSLCTR.)
func TestOpenSSLGMAC(t *testing.T) {
	for i, v := range opensslGMAC {
		key, iv, aad, tag := unhex(t, v.key), unhex(t, v.iv), unhex(t, v.aad), unhex(t, v.tag)
		c, _ := NewCipher(key)
		g, err := cipher.NewGCM(c)
		if err != nil {
			t.Fatal(err)
		}
		got := g.Seal(nil, iv, nil, aad)
		if !bytes.Equal(got, tag) {
			t.Errorf("vector %d: tag = %x, want %x", i, got, tag)
		}
		if _, err := g.Open(nil, iv, tag, aad); err != nil {
			t.Errorf("vector %d: Open: %v", i, err)
		}
	}
}

func TestGCMRoundTrip(t *testing.T) {
	c, _ := NewCipher(pattern(1, 16))
	g, _ := cipher.NewGCM(c)
	nonce, pt, aad := pattern(2, 12), pattern(3, 100), pattern(4, 13)
	ct := g.Seal(nil, nonce, pt, aad)
	back, err := g.Open(nil, nonce, ct, aad)
	if err != nil || !bytes.Equal(back, pt) {
		t.Fatalf("round trip: %v", err)
	}
	ct[5] ^= 1
	if _, err := g.Open(nil, nonce, ct, aad); err == nil {
		t.Fatal("tampered ciphertext accepted")
	}
}

func TestDecryptInvertsEncrypt(t *testing.T) {
	for i := 0; i < 200; i++ {
		c, _ := NewCipher(pattern(uint32(9000+i), 16))
		pt := pattern(uint32(9500+i), 16)
		ct := make([]byte, 16)
		c.Encrypt(ct, pt)
		if bytes.Equal(ct, pt) {
			t.Fatal("identity encryption")
		}
		back := make([]byte, 16)
		c.Decrypt(back, ct)
		if !bytes.Equal(back, pt) {
			t.Fatalf("key %d: decrypt(encrypt(x)) != x", i)
		}
		c.Decrypt(ct, pt)
		c.Encrypt(back, ct)
		if !bytes.Equal(back, pt) {
			t.Fatalf("key %d: encrypt(decrypt(x)) != x", i)
		}
	}
}

func TestKeySizeAndPanics(t *testing.T) {
	for _, n := range []int{0, 1, 15, 17, 24, 32} {
		if _, err := NewCipher(make([]byte, n)); err == nil {
			t.Errorf("key length %d accepted", n)
		}
	}
	key := pattern(1, 16)
	c, _ := NewCipher(key)
	if c.BlockSize() != 16 {
		t.Fatal("BlockSize")
	}
	// The key slice is not retained.
	want := make([]byte, 16)
	c.Encrypt(want, make([]byte, 16))
	for i := range key {
		key[i] = 0
	}
	got := make([]byte, 16)
	c.Encrypt(got, make([]byte, 16))
	if !bytes.Equal(got, want) {
		t.Fatal("cipher depends on caller's key slice after NewCipher")
	}
	mustPanic := func(name string, f func()) {
		defer func() {
			if recover() == nil {
				t.Errorf("%s: no panic", name)
			}
		}()
		f()
	}
	mustPanic("short src", func() { c.Encrypt(make([]byte, 16), make([]byte, 15)) })
	mustPanic("short dst", func() { c.Encrypt(make([]byte, 15), make([]byte, 16)) })
	mustPanic("short src dec", func() { c.Decrypt(make([]byte, 16), make([]byte, 15)) })
	// Only the first block is touched.
	dst := bytes.Repeat([]byte{0xAA}, 20)
	c.Encrypt(dst, make([]byte, 32))
	if !bytes.Equal(dst[16:], []byte{0xAA, 0xAA, 0xAA, 0xAA}) {
		t.Fatal("Encrypt wrote past one block")
	}
}

// One cipher object used from many goroutines gives the same answers as when
// used serially (run with -race to check there is no shared scratch).
func TestConcurrentUse(t *testing.T) {
	c, _ := NewCipher(pattern(42, 16))
	const workers, per = 8, 200
	want := make([][]byte, workers*per)
	for i := range want {
		want[i] = make([]byte, 16)
		c.Encrypt(want[i], pattern(uint32(i), 16))
	}
	var wg sync.WaitGroup
	errs := make(chan int, workers*per)
	for w := 0; w < workers; w++ {
		wg.Add(1)
		go func(w int) {
			defer wg.Done()
			for j := 0; j < per; j++ {
				i := w*per + j
				got := make([]byte, 16)
				c.Encrypt(got, pattern(uint32(i), 16))
				back := make([]byte, 16)
				c.Decrypt(back, got)
				if !bytes.Equal(got, want[i]) || !bytes.Equal(back, pattern(uint32(i), 16)) {
					errs <- i
				}
			}
		}(w)
	}
	wg.Wait()
	close(errs)
	for i := range errs {
		t.Errorf("concurrent mismatch at %d", i)
	}
}
