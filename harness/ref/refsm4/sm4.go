// Package refsm4 is a small, deliberately plain reference implementation of
// the SM4 block cipher (GM/T 0002-2012), written from the text of the
// standard for use as an independent test oracle.
//
// The S-box is not typed in as a table: it is derived at package
// initialisation from its algebraic description
//
//	S(x) = A( inv( A(x) ) )
//
// where inv is inversion in GF(2^8) = GF(2)[x]/(x^8+x^7+x^6+x^5+x^4+x^2+1)
// (with inv(0) = 0) and A is the affine map y = M.x XOR 0xD3, M being the
// circulant bit matrix whose first row is 0xA7. The system parameter FK is
// the constant from the standard; the fixed parameters CK are computed from
// the formula ck_{i,j} = (4i+j)*7 mod 256.
//
// The package imports only the Go standard library and shares no code with
// the library under test. After init no package-level state is written.
package refsm4

import (
	"crypto/cipher"
	"encoding/binary"
	"errors"
	"math/bits"
)

// BlockSize is the SM4 block size in bytes.
const BlockSize = 16

// KeySize is the SM4 key size in bytes.
const KeySize = 16

// fieldPoly is x^8+x^7+x^6+x^5+x^4+x^2+1.
const fieldPoly = 0x1F5

// sbox is filled in by init and read-only afterwards.
var sbox [256]byte

// ck is filled in by init and read-only afterwards.
var ck [32]uint32

// fk is the system parameter FK.
var fk = [4]uint32{0xa3b1bac6, 0x56aa3350, 0x677d9197, 0xb27022dc}

// gfMul multiplies in GF(2^8) modulo fieldPoly (bit i of a byte is the
// coefficient of x^i).
func gfMul(a, b byte) byte {
	x, y := uint(a), uint(b)
	var r uint
	for y != 0 {
		if y&1 == 1 {
			r ^= x
		}
		x <<= 1
		if x&0x100 != 0 {
			x ^= fieldPoly
		}
		y >>= 1
	}
	return byte(r)
}

// gfInv is the multiplicative inverse in GF(2^8), with 0 mapped to 0. Found
// by exhaustive search: slow, run 256 times at init, obviously correct.
func gfInv(a byte) byte {
	if a == 0 {
		return 0
	}
	for b := 1; b < 256; b++ {
		if gfMul(a, byte(b)) == 1 {
			return byte(b)
		}
	}
	panic("refsm4: field element without inverse")
}

// affine is y = M.x XOR 0xD3 where row i of M is 0xA7 rotated left by i
// bits and bit i of y (bit 0 = least significant) is the GF(2) inner
// product of row i with x.
func affine(x byte) byte {
	var y byte
	for i := 0; i < 8; i++ {
		row := bits.RotateLeft8(0xA7, i)
		y |= byte(bits.OnesCount8(row&x)&1) << uint(i)
	}
	return y ^ 0xD3
}

func init() {
	for x := 0; x < 256; x++ {
		sbox[x] = affine(gfInv(affine(byte(x))))
	}
	// Spot values from the table printed in GM/T 0002, and bijectivity.
	if sbox[0x00] != 0xD6 || sbox[0x01] != 0x90 || sbox[0x02] != 0xE9 ||
		sbox[0xEF] != 0x84 || sbox[0xFF] != 0x48 {
		panic("refsm4: derived S-box does not match the standard")
	}
	var seen [256]bool
	for _, v := range sbox {
		if seen[v] {
			panic("refsm4: derived S-box is not a permutation")
		}
		seen[v] = true
	}
	for i := 0; i < 32; i++ {
		var w uint32
		for j := 0; j < 4; j++ {
			w = w<<8 | uint32(((4*i+j)*7)%256)
		}
		ck[i] = w
	}
}

// tau is the non-linear substitution: four parallel S-boxes.
func tau(a uint32) uint32 {
	return uint32(sbox[a>>24])<<24 |
		uint32(sbox[(a>>16)&0xff])<<16 |
		uint32(sbox[(a>>8)&0xff])<<8 |
		uint32(sbox[a&0xff])
}

// lEnc is the linear map L used in the round function.
func lEnc(b uint32) uint32 {
	return b ^ bits.RotateLeft32(b, 2) ^ bits.RotateLeft32(b, 10) ^
		bits.RotateLeft32(b, 18) ^ bits.RotateLeft32(b, 24)
}

// lKey is the linear map L' used in the key expansion.
func lKey(b uint32) uint32 {
	return b ^ bits.RotateLeft32(b, 13) ^ bits.RotateLeft32(b, 23)
}

// block implements cipher.Block. It holds only the round keys, which are
// never modified after NewCipher returns.
type block struct {
	rk [32]uint32
}

// NewCipher returns SM4 keyed with the 16-byte key.
func NewCipher(key []byte) (cipher.Block, error) {
	if len(key) != KeySize {
		return nil, errors.New("refsm4: invalid key size")
	}
	c := new(block)
	var k [36]uint32
	for i := 0; i < 4; i++ {
		k[i] = binary.BigEndian.Uint32(key[4*i:]) ^ fk[i]
	}
	for i := 0; i < 32; i++ {
		k[i+4] = k[i] ^ lKey(tau(k[i+1]^k[i+2]^k[i+3]^ck[i]))
		c.rk[i] = k[i+4]
	}
	return c, nil
}

func (c *block) BlockSize() int { return BlockSize }

// crypt runs the 32 rounds with round keys taken in the order given by
// index(i), followed by the reverse transform R. All state is on the stack.
func (c *block) crypt(dst, src []byte, decrypt bool) {
	if len(src) < BlockSize {
		panic("refsm4: input not full block")
	}
	if len(dst) < BlockSize {
		panic("refsm4: output not full block")
	}
	var x [36]uint32
	for i := 0; i < 4; i++ {
		x[i] = binary.BigEndian.Uint32(src[4*i:])
	}
	for i := 0; i < 32; i++ {
		rk := c.rk[i]
		if decrypt {
			rk = c.rk[31-i]
		}
		x[i+4] = x[i] ^ lEnc(tau(x[i+1]^x[i+2]^x[i+3]^rk))
	}
	binary.BigEndian.PutUint32(dst[0:], x[35])
	binary.BigEndian.PutUint32(dst[4:], x[34])
	binary.BigEndian.PutUint32(dst[8:], x[33])
	binary.BigEndian.PutUint32(dst[12:], x[32])
}

func (c *block) Encrypt(dst, src []byte) { c.crypt(dst, src, false) }
func (c *block) Decrypt(dst, src []byte) { c.crypt(dst, src, true) }
