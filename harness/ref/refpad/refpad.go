// Package refpad is the reference PKCS#7 padding model: pad(x) = x || k×byte(k),
// k = bs − |x| mod bs (1 ≤ k ≤ bs).
package refpad

// Pad returns x followed by its PKCS#7 pad for block size bs.
func Pad(x []byte, bs int) []byte {
	k := bs - len(x)%bs
	out := make([]byte, 0, len(x)+k)
	out = append(out, x...)
	for i := 0; i < k; i++ {
		out = append(out, byte(k))
	}
	return out
}

// Unpad returns the original of a padded stream, ok=false if p is not a
// non-empty multiple of bs ending in a valid pad.
func Unpad(p []byte, bs int) ([]byte, bool) {
	if len(p) == 0 || len(p)%bs != 0 {
		return nil, false
	}
	k := int(p[len(p)-1])
	if k == 0 || k > bs {
		return nil, false
	}
	for i := len(p) - k; i < len(p); i++ {
		if int(p[i]) != k {
			return nil, false
		}
	}
	return p[:len(p)-k], true
}
