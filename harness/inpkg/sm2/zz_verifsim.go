package sm2

import (
	"sync"

	"github.com/tjfoc/gmsm/verifsim/simkit"
)

// White-box harness file (copied into the scratch copy only): lets a run start
// with the curve uninitialised so that first use races, and restores the
// original afterwards so that later runs of the same process are unaffected.

var verifsimSaved sm2P256Curve

func init() {
	simkit.RegisterReset("sm2-curve", func() {
		P256Sm2()
		verifsimSaved = sm2P256
		initonce = sync.Once{}
		sm2P256 = sm2P256Curve{}
	})
	simkit.RegisterReset("sm2-curve-restore", func() {
		initonce = sync.Once{}
		initonce.Do(func() {})
		sm2P256 = verifsimSaved
	})
}
