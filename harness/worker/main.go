// Command worker executes simulated runs of one property's scenario families
// and writes an aggregate result file. One OS process, GOMAXPROCS=1.
package main

import (
	"crypto/sha256"
	"encoding/binary"
	"encoding/hex"
	"encoding/json"
	"flag"
	"fmt"
	"os"
	"runtime"
	"sort"
	"strings"
	"sync/atomic"
	"time"

	"github.com/tjfoc/gmsm/verifsim/scen"
	"github.com/tjfoc/gmsm/verifsim/simkit"
)

type violOut struct {
	Family    string                 `json:"family"`
	Run       uint64                 `json:"run"`
	Seed      uint64                 `json:"seed"`
	Build     string                 `json:"build"`
	Violation simkit.Violation       `json:"violation"`
	Choices   []uint32               `json:"choices"`
	Decoded   map[string]interface{} `json:"decoded,omitempty"`
	TraceHash string                 `json:"trace_hash"`
	Config    string                 `json:"config"`
	Outcome   string                 `json:"outcome"`
	NChoices  int                    `json:"n_choices"`
}

type sample struct {
	Family    string                 `json:"family"`
	Run       uint64                 `json:"run"`
	Config    string                 `json:"config"`
	Outcome   string                 `json:"outcome"`
	Faults    map[string]int64       `json:"faults_fired,omitempty"`
	Decoded   map[string]interface{} `json:"decoded,omitempty"`
	NChoices  int                    `json:"n_choices"`
	TraceHash string                 `json:"trace_hash"`
}

type result struct {
	Prop        string                      `json:"prop"`
	Build       string                      `json:"build"`
	Seed        uint64                      `json:"seed"`
	Evaluations int64                       `json:"evaluations"`
	Nontrivial  int64                       `json:"nontrivial"`
	PerFamily   map[string]int64            `json:"per_family"`
	Faults      map[string]int64            `json:"faults_fired"`
	Reach       map[string]int64            `json:"reach"`
	Outcomes    map[string]int64            `json:"outcomes"`
	Configs     map[string]int64            `json:"configs"`
	SimNS       int64                       `json:"sim_ns"`
	Steps       int64                       `json:"steps"`
	Switches    int64                       `json:"switches"`
	Preempts    int64                       `json:"preempts"`
	Violations  []violOut                   `json:"violations"`
	NViol       int64                       `json:"n_violations"`
	Samples     []sample                    `json:"samples"`
	HarnessErrs []string                    `json:"harness_errors"`
	Hashes      map[string]string           `json:"hashes,omitempty"` // run -> trace hash (selftest mode)
	WallS       float64                     `json:"wall_s"`
	Done        bool                        `json:"done"`
	Extra       map[string]map[string]int64 `json:"extra,omitempty"`
}

var (
	fProp     = flag.String("prop", "", "property id")
	fFam      = flag.String("fam", "", "restrict to one family")
	fSeed     = flag.Uint64("seed", 1, "VERIF_SEED")
	fFrom     = flag.Uint64("from", 0, "first run index")
	fStride   = flag.Uint64("stride", 1, "run index stride")
	fN        = flag.Uint64("n", 100, "max number of runs")
	fOut      = flag.String("out", "", "result file")
	fReplay   = flag.String("replay", "", "replay file (choices + family)")
	fMaxViol  = flag.Int("maxviol", 8, "stop collecting after this many violations")
	fDeadline = flag.Float64("deadline", 0, "stop starting runs after this many seconds (0 = none)")
	fRunMS    = flag.Int("runms", 20000, "per-run wall-clock watchdog in ms")
	fHashes   = flag.Bool("hashes", false, "record per-run trace hashes (determinism self-test)")
	fRaceLog  = flag.String("racelog", "", "GORACE log_path prefix (race build)")
	fProgress = flag.String("progress", "", "progress file")
)

func traceHash(c *simkit.Choice, r *simkit.Rec) string {
	h := sha256.New()
	var b [8]byte
	for _, cr := range c.Trace() {
		binary.LittleEndian.PutUint32(b[:4], cr.V)
		binary.LittleEndian.PutUint32(b[4:], cr.N)
		h.Write(b[:])
	}
	binary.LittleEndian.PutUint64(b[:], r.EvHash[0])
	h.Write(b[:])
	binary.LittleEndian.PutUint64(b[:], r.EvHash[1])
	h.Write(b[:])
	binary.LittleEndian.PutUint64(b[:], r.Signature())
	h.Write(b[:])
	h.Write([]byte(r.Outcome))
	if v := r.Violation(); v != nil {
		h.Write([]byte(v.Class + "|" + v.Site))
	}
	return hex.EncodeToString(h.Sum(nil)[:16])
}

// pickFamily maps a global run index to a family and the family's own
// sequence number (contiguous per family).
func pickFamily(fams []scen.Family, k uint64) (*scen.Family, uint64) {
	sum := 0
	for _, f := range fams {
		sum += f.Weight
	}
	v := int(k % uint64(sum))
	for i := range fams {
		if v < fams[i].Weight {
			return &fams[i], (k/uint64(sum))*uint64(fams[i].Weight) + uint64(v)
		}
		v -= fams[i].Weight
	}
	return &fams[0], k
}

var watchdogRun uint64 // atomic
var watchdogOn uint32  // atomic
var watchdogFamV atomic.Value

func raceLogSize() int64 {
	if *fRaceLog == "" {
		return 0
	}
	fi, err := os.Stat(fmt.Sprintf("%s.%d", *fRaceLog, os.Getpid()))
	if err != nil {
		return 0
	}
	return fi.Size()
}

func raceLogTail(from int64) string {
	b, err := os.ReadFile(fmt.Sprintf("%s.%d", *fRaceLog, os.Getpid()))
	if err != nil || int64(len(b)) <= from {
		return ""
	}
	return string(b[from:])
}

// raceSites splits a race log into reports and returns the sorted distinct
// site pairs.
func raceSites(log string) []string {
	seen := map[string]bool{}
	var out []string
	for _, rep := range strings.Split(log, "WARNING: DATA RACE") {
		s := raceSite(rep)
		if s != "" && !seen[s] {
			seen[s] = true
			out = append(out, s)
		}
	}
	sort.Strings(out)
	return out
}

// raceSite extracts "f1 <-> f2" from a race report: the first gmsm frame of
// each of the two access stacks.
func raceSite(rep string) string {
	var sites []string
	lines := strings.Split(rep, "\n")
	inStack := false
	found := false
	for _, ln := range lines {
		t := strings.TrimSpace(ln)
		if strings.HasPrefix(t, "Write at") || strings.HasPrefix(t, "Read at") || strings.HasPrefix(t, "Previous write at") || strings.HasPrefix(t, "Previous read at") {
			inStack = true
			found = false
			continue
		}
		if strings.HasPrefix(t, "Goroutine ") {
			inStack = false
			continue
		}
		if t == "" {
			inStack = false
			continue
		}
		if inStack && !found && strings.HasPrefix(t, "github.com/tjfoc/gmsm/") && !strings.HasPrefix(t, "github.com/tjfoc/gmsm/verifsim/") {
			fn := t
			if i := strings.LastIndex(fn, "("); i > 0 {
				fn = fn[:i]
			}
			sites = append(sites, strings.TrimPrefix(fn, "github.com/tjfoc/gmsm/"))
			found = true
		}
	}
	if len(sites) == 0 {
		return ""
	}
	if len(sites) > 2 {
		sites = sites[:2]
	}
	sort.Strings(sites)
	return strings.Join(sites, " <-> ")
}

func main() {
	flag.Parse()
	runtime.GOMAXPROCS(1)
	start := time.Now()
	res := &result{Prop: *fProp, Build: buildKind, Seed: *fSeed,
		PerFamily: map[string]int64{}, Faults: map[string]int64{}, Reach: map[string]int64{},
		Outcomes: map[string]int64{}, Configs: map[string]int64{}}
	if *fHashes {
		res.Hashes = map[string]string{}
	}
	sigs := map[uint64]struct{}{}
	write := func() {
		res.WallS = time.Since(start).Seconds()
		b, _ := json.Marshal(res)
		if *fOut != "" {
			os.WriteFile(*fOut+".tmp", b, 0644)
			os.Rename(*fOut+".tmp", *fOut)
			sb := make([]byte, 0, len(sigs)*8)
			var t [8]byte
			for s := range sigs {
				binary.LittleEndian.PutUint64(t[:], s)
				sb = append(sb, t[:]...)
			}
			os.WriteFile(*fOut+".sigs", sb, 0644)
		} else {
			os.Stdout.Write(b)
			os.Stdout.Write([]byte("\n"))
		}
	}

	// watchdog
	go func() {
		last := uint64(1<<63 - 1)
		var since time.Time
		for {
			time.Sleep(200 * time.Millisecond)
			cur := atomic.LoadUint64(&watchdogRun)
			if cur != last {
				last = cur
				since = time.Now()
				continue
			}
			if time.Since(since) > time.Duration(*fRunMS)*time.Millisecond && atomic.LoadUint32(&watchdogOn) == 1 {
				fam, _ := watchdogFamV.Load().(string)
				// do not touch res from this goroutine (the main goroutine owns it)
				os.WriteFile(*fOut+".watchdog", []byte(fmt.Sprintf("WATCHDOG family=%s run=%d exceeded %d ms", fam, cur, *fRunMS)), 0644)
				os.Exit(3)
			}
		}
	}()

	if *fReplay != "" {
		b, err := os.ReadFile(*fReplay)
		if err != nil {
			fmt.Fprintln(os.Stderr, "worker:", err)
			os.Exit(2)
		}
		var rp struct {
			Family  string   `json:"family"`
			Choices []uint32 `json:"choices"`
			Run     uint64   `json:"run"`
		}
		if err := json.Unmarshal(b, &rp); err != nil {
			fmt.Fprintln(os.Stderr, "worker:", err)
			os.Exit(2)
		}
		fam := scen.ByName(rp.Family)
		if fam == nil {
			fmt.Fprintln(os.Stderr, "worker: unknown family", rp.Family)
			os.Exit(2)
		}
		c := simkit.NewReplay(rp.Choices)
		oneRun(res, sigs, fam, c, rp.Run, true)
		res.Done = true
		write()
		return
	}

	fams := scen.ForProp(*fProp)
	var use []scen.Family
	for _, f := range fams {
		if *fFam != "" && f.Name != *fFam {
			continue
		}
		if (buildKind == "race" && f.RaceBuild) || (buildKind == "plain" && f.PlainBuild) {
			use = append(use, f)
		}
	}
	if len(use) == 0 {
		fmt.Fprintln(os.Stderr, "worker: no families for", *fProp, buildKind)
		os.Exit(2)
	}
	var progF *os.File
	if *fProgress != "" {
		progF, _ = os.OpenFile(*fProgress, os.O_CREATE|os.O_WRONLY, 0644)
	}
	k := *fFrom
	for i := uint64(0); i < *fN; i++ {
		if *fDeadline > 0 && time.Since(start).Seconds() > *fDeadline {
			break
		}
		fam, seq := pickFamily(use, k)
		var c *simkit.Choice
		if fam.Enum != nil {
			c = simkit.NewReplay(fam.Enum(*fSeed, seq))
		} else {
			c = simkit.NewChoice(simkit.Mix(*fSeed, fam.ID, k))
		}
		if progF != nil {
			// fixed-size record rewritten in place before every run: tells the driver
			// which run a dying worker was executing
			progF.WriteAt([]byte(fmt.Sprintf("%-40s %20d\n", fam.Name, k)), 0)
		}
		t0 := time.Now()
		oneRun(res, sigs, fam, c, k, len(res.Violations) < *fMaxViol)
		if os.Getenv("VERIF_WORKER_TRACE") != "" {
			fmt.Fprintf(os.Stderr, "run %d %s %.3fs goroutines=%d\n", k, fam.Name, time.Since(t0).Seconds(), runtime.NumGoroutine())
		}
		if len(res.HarnessErrs) > 4 {
			break
		}
		k += *fStride
	}
	atomic.StoreUint32(&watchdogOn, 0)
	res.Done = true
	write()
}

func oneRun(res *result, sigs map[uint64]struct{}, fam *scen.Family, c *simkit.Choice, k uint64, keepViol bool) {
	watchdogFamV.Store(fam.Name)
	atomic.StoreUint64(&watchdogRun, k)
	atomic.StoreUint32(&watchdogOn, 1)
	rl0 := raceLogSize()
	r := simkit.NewRec(fam.FaultNames, fam.ReachNames)
	fam.Run(c, r)
	if buildKind == "race" {
		if rl1 := raceLogSize(); rl1 > rl0 {
			rep := raceLogTail(rl0)
			sites := raceSites(rep)
			if len(sites) == 0 {
				if len(rep) > 6000 {
					rep = rep[:6000]
				}
				r.HarnessErr = "race report without gmsm frame (harness self-race?):\n" + rep
			} else {
				// canonical site of the run: the smallest pair (reports are not
				// de-duplicated across runs, see GORACE in the driver)
				first := rep
				if i := strings.Index(rep, "=================="); i >= 0 {
					if j := strings.Index(rep[i+18:], "=================="); j >= 0 {
						first = rep[i : i+18+j+18]
					}
				}
				if len(first) > 5000 {
					first = first[:5000]
				}
				// a race outranks result mismatches caused by it
				r.ForceViolate("data-race", sites[0], fmt.Sprintf("%d distinct racing site pairs in this run: %s\nfirst report:\n%s", len(sites), strings.Join(sites, "; "), first))
			}
		}
	}
	res.Evaluations++
	res.PerFamily[fam.Name]++
	if r.HarnessErr != "" {
		res.HarnessErrs = append(res.HarnessErrs, fmt.Sprintf("family=%s run=%d: %s", fam.Name, k, r.HarnessErr))
		return
	}
	for n, v := range r.Faults() {
		res.Faults[n] += v
	}
	for n, v := range r.Reaches() {
		res.Reach[n] += v
	}
	oc := r.Outcome
	if v := r.Violation(); v != nil {
		oc = "VIOLATION:" + v.Class
	}
	if oc == "" {
		oc = "unset"
	}
	res.Outcomes[fam.Name+"/"+oc]++
	if r.Config != "" {
		res.Configs[r.Config]++
	}
	for g, m := range r.Extra {
		if res.Extra == nil {
			res.Extra = map[string]map[string]int64{}
		}
		if res.Extra[g] == nil {
			res.Extra[g] = map[string]int64{}
		}
		for k, v := range m {
			if strings.HasPrefix(k, "expected") || strings.HasPrefix(k, "records") {
				if v > res.Extra[g][k] {
					res.Extra[g][k] = v
				}
			} else {
				res.Extra[g][k] += v
			}
		}
	}
	res.SimNS += r.SimNS
	res.Steps += r.Steps
	res.Switches += r.Switches
	res.Preempts += r.Preempts
	if r.Nontrivial {
		res.Nontrivial++
		sigs[r.Signature()^fam.ID<<48] = struct{}{}
	}
	th := traceHash(c, r)
	if res.Hashes != nil {
		res.Hashes[fmt.Sprintf("%s/%d", fam.Name, k)] = th
	}
	if v := r.Violation(); v != nil {
		res.NViol++
		if keepViol {
			vo := violOut{Family: fam.Name, Run: k, Seed: *fSeed, Build: buildKind, Violation: *v,
				Decoded: r.Detail, TraceHash: th, Config: r.Config, Outcome: r.Outcome, NChoices: len(c.Trace())}
			if !c.Dropped {
				vo.Choices = c.Values()
			}
			res.Violations = append(res.Violations, vo)
		}
	}
	if nSamp(res, fam.Name) < 2 && r.Detail != nil {
		res.Samples = append(res.Samples, sample{Family: fam.Name, Run: k, Config: r.Config, Outcome: oc, Faults: nz(r.Faults()), Decoded: r.Detail, NChoices: len(c.Trace()), TraceHash: th})
	}
}

func nz(m map[string]int64) map[string]int64 {
	o := map[string]int64{}
	for k, v := range m {
		if v != 0 {
			o[k] = v
		}
	}
	return o
}

func nSamp(res *result, fam string) int {
	n := 0
	for _, s := range res.Samples {
		if s.Family == fam {
			n++
		}
	}
	return n
}
