//go:build !race

package main

const buildKind = "plain"
