//go:build race

package main

const buildKind = "race"
