package simkit

// Violation describes a property violation found in a run.
type Violation struct {
	Class string `json:"class"`
	Site  string `json:"site"`
	Msg   string `json:"message"`
	Event uint64 `json:"event"`
}

// MaxCounters bounds fault kinds / reach probes per scenario.
const MaxCounters = 128

// Rec collects what one run did. Counter updates are norace so that tasks
// may call them; names are registered before the run.
type Rec struct {
	FaultNames []string
	ReachNames []string
	faults     [MaxCounters]int64
	reach      [MaxCounters]int64
	sig        uint64
	Nontrivial bool
	Outcome    string
	Config     string // configuration class
	viol       *Violation
	Detail     map[string]interface{} // decoded description of the run (set outside tasks)
	HarnessErr string
	Extra      map[string]map[string]int64 // named counter groups (merged by the worker: keys starting with "expected"/"records" by max, others summed)
	EvHash     [2]uint64
	SimNS      int64
	Steps      int64
	Switches   int64
	Preempts   int64
}

// NewRec makes a record with the given counter names.
func NewRec(faultNames, reachNames []string) *Rec {
	return &Rec{FaultNames: faultNames, ReachNames: reachNames, sig: 0xcbf29ce484222325}
}

// Fault counts a fault that actually fired.
//
//go:norace
func (r *Rec) Fault(i int) { r.faults[i]++; r.Nontrivial = true }

// FaultN counts n firings of a fault kind.
//
//go:norace
func (r *Rec) FaultN(i int, n int) {
	if n > 0 {
		r.faults[i] += int64(n)
		r.Nontrivial = true
	}
}

// Reach counts a reach probe.
//
//go:norace
func (r *Rec) Reach(i int) { r.reach[i]++ }

// Sig mixes a value into the run signature.
//
//go:norace
func (r *Rec) Sig(x uint64) {
	h := r.sig ^ x
	h *= 0x100000001b3
	h ^= h >> 29
	h *= 0xbf58476d1ce4e5b9
	r.sig = h
}

// SigStr mixes a string into the run signature.
//
//go:norace
func (r *Rec) SigStr(s string) {
	for i := 0; i < len(s); i++ {
		r.sig = (r.sig ^ uint64(s[i])) * 0x100000001b3
	}
	r.Sig(uint64(len(s)))
}

// Signature returns the run signature.
//
//go:norace
func (r *Rec) Signature() uint64 { return r.sig }

// Violate records the first violation of the run.
//
//go:norace
func (r *Rec) Violate(class, site, msg string) {
	if r.viol == nil {
		r.viol = &Violation{Class: class, Site: site, Msg: msg}
	}
}

// ForceViolate replaces any recorded violation (used for race reports, which
// explain result mismatches found in the same run).
//
//go:norace
func (r *Rec) ForceViolate(class, site, msg string) {
	r.viol = &Violation{Class: class, Site: site, Msg: msg}
}

// FromSim copies the simulation's counters into the record.
func (r *Rec) FromSim(s *Sim) {
	r.EvHash = s.TraceHash()
	r.SimNS = s.Now
	r.Steps = s.Steps
	r.Switches = s.Switches
	r.Preempts = s.Preempts
}

// Violation returns the recorded violation or nil.
//
//go:norace
func (r *Rec) Violation() *Violation { return r.viol }

// Faults returns the fault counters by name.
func (r *Rec) Faults() map[string]int64 {
	m := map[string]int64{}
	for i, n := range r.FaultNames {
		m[n] = r.faults[i]
	}
	return m
}

// Reaches returns the reach probes by name.
func (r *Rec) Reaches() map[string]int64 {
	m := map[string]int64{}
	for i, n := range r.ReachNames {
		m[n] = r.reach[i]
	}
	return m
}
