package simkit

import (
	"errors"
	"io"
)

// ErrInjected is the error injected by simulated sources and sinks.
var ErrInjected = errors.New("simio: injected I/O error")

// Source is a simulated io.Reader whose every Read behaviour is a choice.
type Source struct {
	C    *Choice
	Data []byte
	off  int
	// behaviour knobs (per run)
	PShort   int  // per-1000 probability of a short, non-EOF read
	POne     int  // per-1000 probability of a 1-byte read
	PZero    int  // per-1000 probability of (0, nil)
	EOFWith  bool // return io.EOF together with the last data
	FailAt   int  // inject ErrInjected once off >= FailAt (-1 = never)
	FailWith bool // deliver data together with the injected error
	// statistics
	NRead, NShort, NOne, NZero, NEOFData int
	Failed                               bool
	eofSeen                              int
}

// Read implements io.Reader.
func (s *Source) Read(p []byte) (int, error) {
	s.NRead++
	rem := len(s.Data) - s.off
	if s.FailAt >= 0 && s.off >= s.FailAt {
		s.Failed = true
		return 0, ErrInjected
	}
	if rem == 0 {
		s.eofSeen++
		return 0, io.EOF
	}
	if len(p) == 0 {
		return 0, nil
	}
	n := rem
	if n > len(p) {
		n = len(p)
	}
	if s.PZero > 0 && s.C.Bool(s.PZero, 1000, LIO) {
		s.NZero++
		return 0, nil
	}
	if n > 1 {
		if s.POne > 0 && s.C.Bool(s.POne, 1000, LIO) {
			n = 1
			s.NOne++
		} else if s.PShort > 0 && s.C.Bool(s.PShort, 1000, LIO) {
			n = 1 + s.C.Choose(n-1, LIO)
			s.NShort++
		}
	}
	if s.FailAt >= 0 && s.off+n > s.FailAt {
		n = s.FailAt - s.off
		if n <= 0 {
			s.Failed = true
			return 0, ErrInjected
		}
		copy(p, s.Data[s.off:s.off+n])
		s.off += n
		if s.FailWith {
			s.Failed = true
			return n, ErrInjected
		}
		return n, nil
	}
	copy(p, s.Data[s.off:s.off+n])
	s.off += n
	if s.off == len(s.Data) && s.EOFWith {
		s.NEOFData++
		return n, io.EOF
	}
	return n, nil
}

// Consumed returns how many bytes were handed out.
func (s *Source) Consumed() int { return s.off }

// Sink is a simulated io.Writer.
type Sink struct {
	Buf    []byte
	FailAt int // fail once len(Buf) would exceed FailAt (-1 = never)
	Short  bool
	Failed bool
	NWrite int
}

// Write implements io.Writer.
func (k *Sink) Write(p []byte) (int, error) {
	k.NWrite++
	if k.FailAt >= 0 && len(k.Buf)+len(p) > k.FailAt {
		k.Failed = true
		n := 0
		if k.Short {
			n = k.FailAt - len(k.Buf)
			if n < 0 {
				n = 0
			}
			k.Buf = append(k.Buf, p[:n]...)
		}
		return n, ErrInjected
	}
	k.Buf = append(k.Buf, p...)
	return len(p), nil
}
