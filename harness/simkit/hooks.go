package simkit

import (
	"crypto/rand"
	"fmt"
	"io"
	"net"
	"os"
	"sync/atomic"
	"time"
	"unsafe"
)

// Hooks that replace nondeterministic standard-library entry points in the
// instrumented copy of gmsm (see /verif/rewrite).

//go:norace
func AtomicLoadInt32(p *int32) int32 { AtomicPoint(1); return atomic.LoadInt32(p) }

//go:norace
func AtomicStoreInt32(p *int32, v int32) { AtomicPoint(2); atomic.StoreInt32(p, v) }

//go:norace
func AtomicAddInt32(p *int32, d int32) int32 { AtomicPoint(3); return atomic.AddInt32(p, d) }

//go:norace
func AtomicSwapInt32(p *int32, v int32) int32 { AtomicPoint(4); return atomic.SwapInt32(p, v) }

//go:norace
func AtomicCompareAndSwapInt32(p *int32, o, n int32) bool {
	AtomicPoint(5)
	return atomic.CompareAndSwapInt32(p, o, n)
}

//go:norace
func AtomicLoadInt64(p *int64) int64 { AtomicPoint(1); return atomic.LoadInt64(p) }

//go:norace
func AtomicStoreInt64(p *int64, v int64) { AtomicPoint(2); atomic.StoreInt64(p, v) }

//go:norace
func AtomicAddInt64(p *int64, d int64) int64 { AtomicPoint(3); return atomic.AddInt64(p, d) }

//go:norace
func AtomicSwapInt64(p *int64, v int64) int64 { AtomicPoint(4); return atomic.SwapInt64(p, v) }

//go:norace
func AtomicCompareAndSwapInt64(p *int64, o, n int64) bool {
	AtomicPoint(5)
	return atomic.CompareAndSwapInt64(p, o, n)
}

//go:norace
func AtomicLoadUint32(p *uint32) uint32 { AtomicPoint(1); return atomic.LoadUint32(p) }

//go:norace
func AtomicStoreUint32(p *uint32, v uint32) { AtomicPoint(2); atomic.StoreUint32(p, v) }

//go:norace
func AtomicAddUint32(p *uint32, d uint32) uint32 { AtomicPoint(3); return atomic.AddUint32(p, d) }

//go:norace
func AtomicSwapUint32(p *uint32, v uint32) uint32 { AtomicPoint(4); return atomic.SwapUint32(p, v) }

//go:norace
func AtomicCompareAndSwapUint32(p *uint32, o, n uint32) bool {
	AtomicPoint(5)
	return atomic.CompareAndSwapUint32(p, o, n)
}

//go:norace
func AtomicLoadUint64(p *uint64) uint64 { AtomicPoint(1); return atomic.LoadUint64(p) }

//go:norace
func AtomicStoreUint64(p *uint64, v uint64) { AtomicPoint(2); atomic.StoreUint64(p, v) }

//go:norace
func AtomicAddUint64(p *uint64, d uint64) uint64 { AtomicPoint(3); return atomic.AddUint64(p, d) }

//go:norace
func AtomicSwapUint64(p *uint64, v uint64) uint64 { AtomicPoint(4); return atomic.SwapUint64(p, v) }

//go:norace
func AtomicCompareAndSwapUint64(p *uint64, o, n uint64) bool {
	AtomicPoint(5)
	return atomic.CompareAndSwapUint64(p, o, n)
}

//go:norace
func AtomicLoadUintptr(p *uintptr) uintptr { AtomicPoint(1); return atomic.LoadUintptr(p) }

//go:norace
func AtomicStoreUintptr(p *uintptr, v uintptr) { AtomicPoint(2); atomic.StoreUintptr(p, v) }

//go:norace
func AtomicAddUintptr(p *uintptr, d uintptr) uintptr { AtomicPoint(3); return atomic.AddUintptr(p, d) }

//go:norace
func AtomicSwapUintptr(p *uintptr, v uintptr) uintptr {
	AtomicPoint(4)
	return atomic.SwapUintptr(p, v)
}

//go:norace
func AtomicCompareAndSwapUintptr(p *uintptr, o, n uintptr) bool {
	AtomicPoint(5)
	return atomic.CompareAndSwapUintptr(p, o, n)
}

//go:norace
func AtomicLoadPointer(p *unsafe.Pointer) unsafe.Pointer {
	AtomicPoint(1)
	return atomic.LoadPointer(p)
}

//go:norace
func AtomicStorePointer(p *unsafe.Pointer, v unsafe.Pointer) {
	AtomicPoint(2)
	atomic.StorePointer(p, v)
}

//go:norace
func AtomicSwapPointer(p *unsafe.Pointer, v unsafe.Pointer) unsafe.Pointer {
	AtomicPoint(4)
	return atomic.SwapPointer(p, v)
}

//go:norace
func AtomicCompareAndSwapPointer(p *unsafe.Pointer, o, n unsafe.Pointer) bool {
	AtomicPoint(5)
	return atomic.CompareAndSwapPointer(p, o, n)
}

// NowTime replaces time.Now: virtual time while a simulation is active.
//
//go:norace
func NowTime() time.Time {
	if s := active; s != nil {
		return TimeAt(s.Now)
	}
	if FixedNow != 0 {
		return TimeAt(FixedNow)
	}
	return time.Now()
}

// FixedNow, if non-zero, is the virtual time NowTime reports outside Run.
var FixedNow int64

type randHook struct{}

// SimRand, if set, supplies the bytes for code that reads crypto/rand.Reader
// directly (x509/pkcs7/pkcs8 creation paths).
var SimRand io.Reader

func (randHook) Read(p []byte) (int, error) {
	if SimRand != nil {
		return SimRand.Read(p)
	}
	return rand.Read(p)
}

// RandReader replaces crypto/rand.Reader.
var RandReader io.Reader = randHook{}

// Quiet silences gmtls' debug prints (default: on).
var Quiet = true

// Println replaces fmt.Println in instrumented code.
func Println(a ...interface{}) (int, error) {
	if Quiet {
		return 0, nil
	}
	return fmt.Fprintln(os.Stderr, a...)
}

// Printf replaces fmt.Printf in instrumented code.
func Printf(f string, a ...interface{}) (int, error) {
	if Quiet {
		return 0, nil
	}
	return fmt.Fprintf(os.Stderr, f, a...)
}

// Print replaces fmt.Print in instrumented code.
func Print(a ...interface{}) (int, error) {
	if Quiet {
		return 0, nil
	}
	return fmt.Fprint(os.Stderr, a...)
}

// Resets holds optional white-box reset functions registered by harness files
// placed inside gmsm packages (see /verif/harness/inpkg).
var Resets = map[string]func(){}

// RegisterReset registers a named reset function.
func RegisterReset(name string, f func()) { Resets[name] = f }

// DialHook, when set by a scenario, answers (*net.Dialer).Dial calls of the code
// under test (gmtls.Dial / DialWithDialer) with a simulated connection.
var DialHook func(network, addr string) (net.Conn, error)

// NetDial replaces d.Dial(network, addr) in instrumented code.
func NetDial(d *net.Dialer, network, addr string) (net.Conn, error) {
	if DialHook != nil {
		return DialHook(network, addr)
	}
	return d.Dial(network, addr)
}
