package simkit

import (
	"runtime"
	"runtime/debug"
	"sync"
	"unsafe"
)

// MaxTasks bounds the number of tasks in one run.
const MaxTasks = 72

type waitKind uint8

const (
	wNone waitKind = iota
	wLock
	wRLock
	wOnce
	wPipeRead
	wPipeWindow
	wSleep
	wJoin
	wFlag
)

// Task is one simulated thread of control running real code.
type Task struct {
	ID    int
	Name  string
	Node  int // node the task belongs to (for the starve policy)
	state uint8
	wk    waitKind
	wptr  unsafe.Pointer
	wpipe *Pipe
	wtime int64 // wake-up time for wSleep / read deadline for wPipeRead (0 = none)
	wjoin *Task
	wflag *Flag
	fn    func()

	Panicked   bool
	PanicVal   interface{}
	PanicStack string
	Aborted    bool // torn down while blocked
	WaitDesc   string
}

const (
	tsUnused uint8 = iota
	tsRunnable
	tsBlocked
	tsDone
)

type lockEnt struct {
	p       unsafe.Pointer
	writer  bool
	readers int
	owner   int
}

type onceEnt struct {
	p     unsafe.Pointer
	state uint8 // 1 running, 2 done
	owner int
}

// Policy of the scheduler for one run.
type Policy struct {
	// MeanGap is the mean number of yield points between voluntary
	// preemptions; 0 = never preempt at yield points (switch only when the
	// running task blocks or exits).
	MeanGap int
	// StarveNode, if >= 0, names a node whose tasks are chosen only with
	// probability 1/20 when others are ready.
	StarveNode int
	// PCT: if Depth > 0 use PCT-style priorities with Depth change points
	// within ExpectSteps.
	PCTDepth    int
	ExpectSteps int
}

// Stop reasons.
const (
	StopDone     = 0
	StopDeadlock = 1
	StopBudget   = 2
)

// Sim is one simulated execution.
type Sim struct {
	C      *Choice
	Pol    Policy
	tasks  [MaxTasks]*Task
	ntasks int
	cur    int   // running task index, -1 = main
	turn   int32 // baton: id allowed to run, -1 = main
	abort  bool
	Reason int

	Now      int64 // virtual nanoseconds since epoch
	Steps    int64
	MaxSteps int64
	// OnSite, when set, is called (in the yielding task, before the scheduling
	// decision) at every instrumenter-inserted yield site. It must only touch
	// atomics: scenarios use it to time a fault to the instant a task stands at a
	// given source position.
	OnSite    func(site int)
	boost     int // task that runs in preference to all others while it can (-1 = none)
	Switches  int64
	Preempts  int64
	LockWaits int64
	until     int64 // yield points until next preemption

	locks  [96]lockEnt
	nlocks int
	onces  [96]onceEnt
	nonces int

	pctPrio   [MaxTasks]int
	pctChange [8]int64
	pctN      int

	evh  [2]uint64
	Nev  uint64
	sigh uint64

	wg sync.WaitGroup

	// Log of coarse events for decoded replays (bounded).
	log  [512]LogEnt
	nlog int

	// DeadlockDesc describes blocked tasks at a deadlock.
	Blocked []string
}

// LogEnt is a coarse event kept for human-readable replays.
type LogEnt struct {
	Seq  uint64
	Now  int64
	Task int
	Kind uint16
	A, B int64
}

// cur is the active simulation (nil outside Run).
var active *Sim

// Labels for choices (kept small and stable; decoded by name in replays).
const (
	LSched uint16 = iota + 1
	LGap
	LStarve
	LPCT
	LNetSeg
	LNetLat
	LNetShort
	LNetCfg
	LScen  // scenario-level configuration draws
	LFault // fault decisions
	LData  // payload/content draws
	LIO    // stream source/sink behaviour
	LOp    // operation selection
	LEntropy
)

// LabelName maps labels to names for decoded traces.
func LabelName(l uint16) string {
	switch l {
	case LSched:
		return "sched"
	case LGap:
		return "gap"
	case LStarve:
		return "starve"
	case LPCT:
		return "pct"
	case LNetSeg:
		return "net.seg"
	case LNetLat:
		return "net.lat"
	case LNetShort:
		return "net.short"
	case LNetCfg:
		return "net.cfg"
	case LScen:
		return "cfg"
	case LFault:
		return "fault"
	case LData:
		return "data"
	case LIO:
		return "io"
	case LOp:
		return "op"
	case LEntropy:
		return "entropy"
	}
	return "?"
}

// Event kinds for the event hash / log.
const (
	EvSwitch uint16 = iota + 1
	EvBlock
	EvExit
	EvLock
	EvUnlock
	EvOnce
	EvNetWrite
	EvNetRead
	EvNetClose
	EvNetEOF
	EvNetTimeout
	EvClock
	EvYield
	EvUser
	EvPanic
	EvAtomic
)

// NewSim creates a simulation driven by c.
func NewSim(c *Choice, pol Policy, maxSteps int64) *Sim {
	s := &Sim{C: c, Pol: pol, cur: -1, turn: -1, MaxSteps: maxSteps, boost: -1}
	s.evh[0] = 0x6a09e667f3bcc908
	s.evh[1] = 0xbb67ae8584caa73b
	if pol.MeanGap > 0 {
		s.until = int64(1 + c.Choose(2*pol.MeanGap, LGap))
	} else {
		s.until = 1 << 62
	}
	return s
}

//go:norace
func (s *Sim) ev(kind uint16, a, b int64) {
	s.Nev++
	x := s.evh[0] ^ (uint64(kind) << 48) ^ uint64(a)*0x9e3779b97f4a7c15 ^ uint64(s.cur+1)<<40
	x ^= x >> 29
	x *= 0xbf58476d1ce4e5b9
	x ^= x >> 32
	s.evh[0] = x + uint64(b)
	y := s.evh[1] ^ uint64(b)*0xd6e8feb86659fd93 ^ uint64(s.Now) ^ uint64(kind)
	y ^= y >> 31
	y *= 0x94d049bb133111eb
	y ^= y >> 29
	s.evh[1] = y + uint64(a) + s.Nev
}

//go:norace
func (s *Sim) logEv(kind uint16, a, b int64) {
	s.ev(kind, a, b)
	if s.nlog < len(s.log) {
		s.log[s.nlog] = LogEnt{s.Nev, s.Now, s.cur, kind, a, b}
		s.nlog++
	}
}

// Event lets scenarios add their own events to the event hash and log.
//
//go:norace
func (s *Sim) Event(a, b int64) { s.logEv(EvUser, a, b) }

// Boost makes t run in preference to every other task from the next yield
// point on, until Unboost. Scenarios call it from an OnSite hook to let a
// concurrent call happen exactly while another task stands at a chosen place.
//
//go:norace
func (s *Sim) Boost(t *Task) {
	if t != nil {
		s.boost = t.ID
	}
}

// CurTask returns the running task (nil outside Run).
//
//go:norace
func (s *Sim) CurTask() *Task { return s.curTask() }

// Unboost ends a Boost.
//
//go:norace
func (s *Sim) Unboost() { s.boost = -1 }

// StepCount returns the number of scheduling steps so far (readable from tasks
// in race builds).
//
//go:norace
func (s *Sim) StepCount() int64 { return s.Steps }

// Seq returns the global event sequence number (monotone; used to stamp
// invoke/return of operations for linearizability checking).
//
//go:norace
func (s *Sim) Seq() uint64 { s.Nev++; return s.Nev }

// TraceHash returns the event-log hash.
func (s *Sim) TraceHash() [2]uint64 { return s.evh }

// Log returns the coarse event log.
func (s *Sim) Log() []LogEnt { return s.log[:s.nlog] }

// Spawn adds a task. May be called before Run or from a running task.
//
//go:norace
func (s *Sim) Spawn(name string, node int, fn func()) *Task {
	if s.ntasks >= MaxTasks {
		panic("simkit: too many tasks")
	}
	t := &Task{ID: s.ntasks, Name: name, Node: node, state: tsRunnable, fn: fn}
	s.tasks[s.ntasks] = t
	s.ntasks++
	if s.Pol.PCTDepth > 0 {
		s.pctPrio[t.ID] = 1000 + s.C.Choose(1000, LPCT)
	}
	s.wg.Add(1)
	go s.taskRoot(t)
	return t
}

//go:norace
func (s *Sim) waitTurn(id int) {
	for s.turn != int32(id) {
		runtime.Gosched()
	}
	if s.abort && id >= 0 {
		t := s.tasks[id]
		if t.state != tsDone {
			t.Aborted = true
		}
		runtime.Goexit()
	}
	s.cur = id
}

//go:norace
func (s *Sim) taskRoot(t *Task) {
	defer s.taskDone(t)
	s.waitTurn(t.ID)
	t.fn()
}

//go:norace
func (s *Sim) taskDone(t *Task) {
	if r := recover(); r != nil {
		t.Panicked = true
		t.PanicVal = r
		t.PanicStack = string(debug.Stack())
		s.logEv(EvPanic, int64(t.ID), 0)
	}
	t.state = tsDone
	s.logEv(EvExit, int64(t.ID), 0)
	s.wg.Done()
	if s.abort {
		s.cur = -1
		s.turn = -1
		return
	}
	next := s.pick(-1)
	if next < 0 {
		// everything done, or deadlock (pick sets abort)
		s.cur = -1
		s.turn = -1
		return
	}
	s.Switches++
	s.cur = next
	s.turn = int32(next)
}

//go:norace
func (s *Sim) ready(t *Task) bool {
	switch t.state {
	case tsRunnable:
		return true
	case tsBlocked:
	default:
		return false
	}
	switch t.wk {
	case wLock:
		return s.findLock(t.wptr) < 0
	case wRLock:
		i := s.findLock(t.wptr)
		return (i < 0 || !s.locks[i].writer) && !s.writerWaiting(t.wptr)
	case wOnce:
		i := s.findOnce(t.wptr)
		return i < 0 || s.onces[i].state == 2
	case wPipeRead:
		return t.wpipe.readable(s.Now) || (t.wtime != 0 && t.wtime <= s.Now)
	case wPipeWindow:
		return t.wpipe.writable() || (t.wtime != 0 && t.wtime <= s.Now)
	case wSleep:
		return t.wtime <= s.Now
	case wJoin:
		return t.wjoin.state == tsDone
	case wFlag:
		return t.wflag.set
	}
	return false
}

// retime gives the tasks parked on pipe p (wait kind wk) a new deadline.
//
//go:norace
func (s *Sim) retime(wk waitKind, p *Pipe, ns int64) {
	for i := 0; i < s.ntasks; i++ {
		t := s.tasks[i]
		if t.state == tsBlocked && t.wk == wk && t.wpipe == p {
			t.wtime = ns
		}
	}
}

// nextEventTime returns the earliest virtual time at which some blocked task
// could become ready, or -1.
//
//go:norace
func (s *Sim) nextEventTime() int64 {
	best := int64(-1)
	for i := 0; i < s.ntasks; i++ {
		t := s.tasks[i]
		if t.state != tsBlocked {
			continue
		}
		var c int64 = -1
		switch t.wk {
		case wPipeRead:
			c = t.wpipe.nextAt()
			if t.wtime != 0 && (c < 0 || t.wtime < c) {
				c = t.wtime
			}
		case wPipeWindow:
			if t.wtime != 0 {
				c = t.wtime
			}
		case wSleep:
			c = t.wtime
		}
		if c >= 0 && c > s.Now && (best < 0 || c < best) {
			best = c
		}
	}
	return best
}

// pick chooses the next task to run. exclude = task index not to choose
// (voluntary preemption), or -1. Returns -1 if nothing can run (all done or
// deadlock; in the latter case abort is set).
//
//go:norace
func (s *Sim) pick(exclude int) int {
	var cand [MaxTasks]int
	for {
		n := 0
		undone := 0
		for i := 0; i < s.ntasks; i++ {
			t := s.tasks[i]
			if t.state == tsDone {
				continue
			}
			undone++
			if i != exclude && s.ready(t) {
				cand[n] = i
				n++
			}
		}
		if n > 0 {
			return s.choose(cand[:n], n)
		}
		if exclude >= 0 {
			return -1 // nobody else can run: keep running current
		}
		if undone == 0 {
			return -1
		}
		nt := s.nextEventTime()
		if nt < 0 {
			s.abort = true
			s.Reason = StopDeadlock
			s.noteBlocked()
			return -1
		}
		s.Now = nt
		s.logEv(EvClock, nt, 0)
	}
}

//go:norace
func (s *Sim) choose(cand []int, n int) int {
	if n == 1 {
		return cand[0]
	}
	if s.boost >= 0 {
		for i := 0; i < n; i++ {
			if cand[i] == s.boost {
				return s.boost
			}
		}
	}
	if s.Pol.PCTDepth > 0 {
		best := cand[0]
		for i := 1; i < n; i++ {
			if s.pctPrio[cand[i]] > s.pctPrio[best] {
				best = cand[i]
			}
		}
		return best
	}
	if s.Pol.StarveNode >= 0 {
		var c2 [MaxTasks]int
		m := 0
		for i := 0; i < n; i++ {
			if s.tasks[cand[i]].Node != s.Pol.StarveNode {
				c2[m] = cand[i]
				m++
			}
		}
		if m > 0 && m < n && !s.C.Bool(1, 20, LStarve) {
			return c2[s.C.Choose(m, LSched)]
		}
	}
	return cand[s.C.Choose(n, LSched)]
}

// switchTo hands the baton to task next and parks the current task until it
// is scheduled again.
//
//go:norace
func (s *Sim) switchTo(next int) {
	me := s.cur
	if next == me {
		return
	}
	s.Switches++
	s.ev(EvSwitch, int64(me), int64(next))
	s.cur = next
	s.turn = int32(next)
	s.waitTurn(me)
}

// stop ends the run from task context (budget exceeded).
//
//go:norace
func (s *Sim) stop(reason int) {
	s.abort = true
	s.Reason = reason
	if s.cur >= 0 {
		s.tasks[s.cur].Aborted = true
	}
	runtime.Goexit()
}

// block parks the current task until its wait condition holds.
//
//go:norace
func (s *Sim) block(t *Task) {
	t.state = tsBlocked
	if t.wk == wLock || t.wk == wRLock || t.wk == wOnce {
		s.LockWaits++
	}
	s.ev(EvBlock, int64(t.ID), int64(t.wk))
	for {
		next := s.pick(-1)
		if next < 0 {
			// deadlock: abort set by pick
			t.Aborted = true
			runtime.Goexit()
		}
		if next == t.ID {
			break
		}
		s.switchTo(next)
		if s.ready(t) {
			break
		}
	}
	t.state = tsRunnable
	t.wk = wNone
}

//go:norace
func (s *Sim) curTask() *Task {
	if s.cur < 0 {
		return nil
	}
	return s.tasks[s.cur]
}

// yieldPoint is a potential preemption point.
//
//go:norace
func (s *Sim) yieldPoint(site int64) {
	s.Steps++
	if s.Steps > s.MaxSteps {
		s.stop(StopBudget)
	}
	if s.boost >= 0 {
		// a boosted task runs on until it blocks, ends or calls Unboost; everybody
		// else hands over to it at the next yield point
		if s.cur == s.boost {
			return
		}
		if bt := s.tasks[s.boost]; bt.state != tsDone && s.ready(bt) {
			s.Preempts++
			s.logEv(EvYield, site, int64(s.boost))
			s.switchTo(s.boost)
			return
		}
	}
	if s.Pol.PCTDepth > 0 {
		for i := 0; i < s.pctN; i++ {
			if s.pctChange[i] == s.Steps {
				// lower current task's priority below all others
				s.pctPrio[s.cur] = 100 - i
				next := s.pick(-1)
				if next >= 0 && next != s.cur {
					s.Preempts++
					s.logEv(EvYield, site, int64(next))
					s.switchTo(next)
				}
				return
			}
		}
		return
	}
	s.until--
	if s.until > 0 {
		return
	}
	if s.Pol.MeanGap > 0 {
		s.until = int64(1 + s.C.Choose(2*s.Pol.MeanGap, LGap))
	} else {
		s.until = 1 << 62
	}
	next := s.pick(s.cur)
	if next < 0 {
		if s.abort {
			runtime.Goexit()
		}
		return
	}
	s.Preempts++
	s.logEv(EvYield, site, int64(next))
	s.switchTo(next)
}

// Run executes the simulation until all tasks are done, a deadlock is
// detected or the step budget is exhausted.
//
//go:norace
func (s *Sim) Run() {
	if active != nil {
		panic("simkit: nested Run")
	}
	if s.Pol.PCTDepth > 0 {
		es := s.Pol.ExpectSteps
		if es < 10 {
			es = 10
		}
		s.pctN = s.Pol.PCTDepth
		if s.pctN > len(s.pctChange) {
			s.pctN = len(s.pctChange)
		}
		for i := 0; i < s.pctN; i++ {
			s.pctChange[i] = int64(1 + s.C.Choose(es, LPCT))
		}
	}
	active = s
	first := s.pick(-1)
	if first >= 0 {
		s.cur = first
		s.turn = int32(first)
		s.waitTurn(-1)
	}
	// teardown of parked tasks
	if s.abort {
		if len(s.Blocked) == 0 {
			s.noteBlocked()
		}
		for i := 0; i < s.ntasks; i++ {
			t := s.tasks[i]
			if t.state == tsDone {
				continue
			}
			s.cur = i
			s.turn = int32(i)
			s.waitTurn(-1)
		}
	}
	s.cur = -1
	active = nil
	s.wg.Wait()
}

// noteBlocked records what every unfinished task is waiting for (called once,
// from whichever task detects that nothing can run).
//
//go:norace
func (s *Sim) noteBlocked() {
	for i := 0; i < s.ntasks; i++ {
		t := s.tasks[i]
		if t.state != tsDone {
			s.Blocked = append(s.Blocked, t.Name+": "+s.descWait(t))
		}
	}
}

//go:norace
func (s *Sim) descWait(t *Task) string {
	if t.state == tsRunnable {
		return "runnable"
	}
	switch t.wk {
	case wLock:
		return "lock"
	case wRLock:
		return "rlock"
	case wOnce:
		return "once"
	case wPipeRead:
		return "net-read " + t.wpipe.Name
	case wPipeWindow:
		return "net-write-window " + t.wpipe.Name
	case wSleep:
		return "sleep"
	case wJoin:
		return "join " + t.wjoin.Name
	case wFlag:
		return "flag " + t.wflag.Name
	}
	return "?"
}

// Tasks returns the tasks of the run (after Run).
func (s *Sim) Tasks() []*Task { return s.tasks[:s.ntasks] }

// Done reports whether the task has finished.
//
//go:norace
func (t *Task) Done() bool { return t.state == tsDone }

// ---- API usable from task code ----------------------------------------

// Active returns the running simulation or nil.
//
//go:norace
func Active() *Sim { return active }

//go:norace
func inTask() *Sim {
	s := active
	if s == nil || s.abort || s.cur < 0 {
		return nil
	}
	return s
}

// Yield is a preemption point inserted by the instrumenter.
//
//go:norace
func Yield(site int) {
	if s := inTask(); s != nil {
		if s.OnSite != nil && site >= 0 {
			s.OnSite(site)
		}
		s.yieldPoint(int64(site))
	}
}

// SiteTable maps the ids of instrumenter-inserted yield sites to "file:line"
// (filled in by generated code in statement-instrumented builds; empty otherwise).
var SiteTable []string

// SiteFile returns the file of a yield site ("" when unknown).
func SiteFile(site int) string {
	if site < 0 || site >= len(SiteTable) {
		return ""
	}
	n := SiteTable[site]
	for i := len(n) - 1; i >= 0; i-- {
		if n[i] == ':' {
			return n[:i]
		}
	}
	return n
}

// Sleep blocks the current task for d virtual nanoseconds.
//
//go:norace
func (s *Sim) Sleep(d int64) {
	t := s.curTask()
	if t == nil || s.abort {
		return
	}
	t.wk = wSleep
	t.wtime = s.Now + d
	s.block(t)
}

// Join blocks until other has finished.
//
//go:norace
func (s *Sim) Join(other *Task) {
	t := s.curTask()
	if t == nil || s.abort {
		return
	}
	if other.state == tsDone {
		return
	}
	t.wk = wJoin
	t.wjoin = other
	s.block(t)
}

// Flag is a one-shot condition tasks can wait on (harness-level, invisible
// to the race detector).
type Flag struct {
	Name string
	set  bool
}

//go:norace
func (f *Flag) Set() { f.set = true }

//go:norace
func (f *Flag) IsSet() bool { return f.set }

// WaitFlag blocks until f is set.
//
//go:norace
func (s *Sim) WaitFlag(f *Flag) {
	t := s.curTask()
	if t == nil || s.abort {
		return
	}
	for !f.set {
		t.wk = wFlag
		t.wflag = f
		s.block(t)
	}
}

// ---- lock / once / atomic wrappers (targets of the instrumenter) -------

//go:norace
func (s *Sim) findLock(p unsafe.Pointer) int {
	for i := 0; i < s.nlocks; i++ {
		if s.locks[i].p == p {
			return i
		}
	}
	return -1
}

//go:norace
func (s *Sim) delLock(i int) {
	s.nlocks--
	s.locks[i] = s.locks[s.nlocks]
	s.locks[s.nlocks] = lockEnt{}
}

//go:norace
func (s *Sim) addLock(p unsafe.Pointer, writer bool) {
	if writer {
		if s.nlocks >= len(s.locks) {
			panic("simkit: lock table full")
		}
		s.locks[s.nlocks] = lockEnt{p: p, writer: true, owner: s.cur}
		s.nlocks++
		return
	}
	i := s.findLock(p)
	if i >= 0 {
		s.locks[i].readers++
		return
	}
	if s.nlocks >= len(s.locks) {
		panic("simkit: lock table full")
	}
	s.locks[s.nlocks] = lockEnt{p: p, readers: 1, owner: s.cur}
	s.nlocks++
}

// Lock replaces (*sync.Mutex).Lock.
//
//go:norace
func Lock(m *sync.Mutex) {
	s := inTask()
	if s == nil {
		m.Lock()
		return
	}
	p := unsafe.Pointer(m)
	s.yieldPoint(-1)
	t := s.curTask()
	for {
		if s.findLock(p) < 0 && m.TryLock() {
			s.addLock(p, true)
			s.ev(EvLock, int64(t.ID), 0)
			return
		}
		t.wk = wLock
		t.wptr = p
		s.block(t)
	}
}

// TryLock replaces (*sync.Mutex).TryLock: a yield point, then one attempt.
//
//go:norace
func TryLock(m *sync.Mutex) bool {
	s := inTask()
	if s == nil {
		return m.TryLock()
	}
	p := unsafe.Pointer(m)
	s.yieldPoint(-1)
	t := s.curTask()
	if s.findLock(p) < 0 && m.TryLock() {
		s.addLock(p, true)
		s.ev(EvLock, int64(t.ID), 0)
		return true
	}
	return false
}

// Unlock replaces (*sync.Mutex).Unlock.
//
//go:norace
func Unlock(m *sync.Mutex) {
	s := active
	if s == nil {
		m.Unlock()
		return
	}
	p := unsafe.Pointer(m)
	if i := s.findLock(p); i >= 0 {
		s.delLock(i)
	}
	m.Unlock()
	if s2 := inTask(); s2 != nil {
		s2.ev(EvUnlock, int64(s2.cur), 0)
		s2.yieldPoint(-2)
	}
}

// writerWaiting: some task is blocked in Lock on the RWMutex at p.
//
//go:norace
func (s *Sim) writerWaiting(p unsafe.Pointer) bool {
	for i := 0; i < s.ntasks; i++ {
		t := s.tasks[i]
		if t.state == tsBlocked && t.wk == wLock && t.wptr == p {
			return true
		}
	}
	return false
}

// RWLock replaces (*sync.RWMutex).Lock.
//
//go:norace
func RWLock(m *sync.RWMutex) {
	s := inTask()
	if s == nil {
		m.Lock()
		return
	}
	p := unsafe.Pointer(m)
	s.yieldPoint(-3)
	t := s.curTask()
	for {
		if s.findLock(p) < 0 && m.TryLock() {
			s.addLock(p, true)
			s.ev(EvLock, int64(t.ID), 1)
			return
		}
		t.wk = wLock
		t.wptr = p
		s.block(t)
	}
}

// RWUnlock replaces (*sync.RWMutex).Unlock.
//
//go:norace
func RWUnlock(m *sync.RWMutex) {
	s := active
	if s == nil {
		m.Unlock()
		return
	}
	p := unsafe.Pointer(m)
	if i := s.findLock(p); i >= 0 {
		s.delLock(i)
	}
	m.Unlock()
	if s2 := inTask(); s2 != nil {
		s2.ev(EvUnlock, int64(s2.cur), 1)
		s2.yieldPoint(-4)
	}
}

// RLock replaces (*sync.RWMutex).RLock.
//
//go:norace
func RLock(m *sync.RWMutex) {
	s := inTask()
	if s == nil {
		m.RLock()
		return
	}
	p := unsafe.Pointer(m)
	s.yieldPoint(-5)
	t := s.curTask()
	for {
		i := s.findLock(p)
		// like sync.RWMutex, a writer that is waiting keeps new readers out (so a
		// task that read-locks twice deadlocks when a writer arrives in between)
		if (i < 0 || !s.locks[i].writer) && !s.writerWaiting(p) && m.TryRLock() {
			s.addLock(p, false)
			s.ev(EvLock, int64(t.ID), 2)
			return
		}
		t.wk = wRLock
		t.wptr = p
		s.block(t)
	}
}

// RUnlock replaces (*sync.RWMutex).RUnlock.
//
//go:norace
func RUnlock(m *sync.RWMutex) {
	s := active
	if s == nil {
		m.RUnlock()
		return
	}
	p := unsafe.Pointer(m)
	if i := s.findLock(p); i >= 0 && !s.locks[i].writer {
		s.locks[i].readers--
		if s.locks[i].readers <= 0 {
			s.delLock(i)
		}
	}
	m.RUnlock()
	if s2 := inTask(); s2 != nil {
		s2.ev(EvUnlock, int64(s2.cur), 2)
		s2.yieldPoint(-6)
	}
}

//go:norace
func (s *Sim) findOnce(p unsafe.Pointer) int {
	for i := 0; i < s.nonces; i++ {
		if s.onces[i].p == p {
			return i
		}
	}
	return -1
}

//go:norace
func (s *Sim) onceFinish(p unsafe.Pointer) {
	if i := s.findOnce(p); i >= 0 {
		s.onces[i].state = 2
	}
}

// OnceDo replaces (*sync.Once).Do.
//
//go:norace
func OnceDo(o *sync.Once, f func()) {
	s := inTask()
	if s == nil {
		o.Do(f)
		return
	}
	p := unsafe.Pointer(o)
	s.yieldPoint(-7)
	t := s.curTask()
	for {
		i := s.findOnce(p)
		if i < 0 {
			if s.nonces >= len(s.onces) {
				panic("simkit: once table full")
			}
			s.onces[s.nonces] = onceEnt{p: p, state: 1, owner: t.ID}
			s.nonces++
			s.ev(EvOnce, int64(t.ID), 0)
			defer s.onceFinish(p)
			o.Do(f)
			return
		}
		if s.onces[i].state == 2 || s.onces[i].owner == t.ID {
			o.Do(f)
			return
		}
		t.wk = wOnce
		t.wptr = p
		s.block(t)
	}
}

// AtomicPoint precedes every sync/atomic call in instrumented code.
//
//go:norace
func AtomicPoint(site int) {
	if s := inTask(); s != nil {
		s.ev(EvAtomic, int64(site), 0)
		s.yieldPoint(int64(site))
	}
}
