package simkit

import (
	"errors"
	"io"
	"net"
	"time"
)

// Epoch is virtual time zero: 2030-01-01T00:00:00Z.
var Epoch = time.Date(2030, 1, 1, 0, 0, 0, 0, time.UTC)

// TimeAt converts virtual nanoseconds to a time.Time.
func TimeAt(ns int64) time.Time { return Epoch.Add(time.Duration(ns)) }

// Segmentation policies of a pipe.
const (
	SegWhole   = 0 // one segment per Write
	SegMSS     = 1 // cut at MSS
	SegDribble = 2 // one byte per segment (bounded: first 64 bytes of each write, then MSS)
	SegRandom  = 3 // random cuts
	SegByte    = 4 // every byte its own segment for small writes (<=600 bytes), MSS above
)

type seg struct {
	data []byte
	off  int
	at   int64
}

// Mark records where a Write started in the captured stream.
type Mark struct {
	Seq uint64
	Off int
	Len int
}

// Pipe is one direction of a simulated connection.
type Pipe struct {
	Name string
	s    *Sim
	segs []seg
	head int
	n    int

	EOFWithData bool // see NetCfg

	wclosed bool  // writer closed: reader sees EOF (or rerr) after draining
	rerr    error // error the reader sees instead of EOF
	rclosed bool  // reader side closed: writer gets an error, blocked reader wakes

	lastAt   int64
	Window   int // 0 = unlimited
	buffered int
	// OnFlip is called (in the writing task) when the FlipAt byte goes out damaged.
	OnFlip func()
	// FailAt (-1 = none): see Conn.Write. Failed reports that it happened.
	FailAt  int64
	FailErr error
	Failed  bool
	// OnWrite, when set, is called with every buffer handed to Write on this
	// direction, before any of it is delivered (and before the writer may block on
	// a full window). It runs in the writing task and must only touch atomics,
	// flags and Sim.Boost.
	OnWrite func(b []byte)

	SegPol     int
	MSS        int
	Latency    int64 // base latency ns
	Jitter     int64
	ShortRd    int   // probability (per 1000) that a Read returns fewer bytes than available
	NoCoalesce bool  // a Read never spans two segments
	FlipAt     int64 // stream offset whose byte gets FlipMask XORed in transit (-1 = none)
	FlipMask   byte
	Flipped    bool

	Capture bool
	cap     []byte
	ncap    int
	marks   []Mark
	nmarks  int

	BytesW, BytesR int64
	NSeg           int64
}

//go:norace
func (p *Pipe) readable(now int64) bool {
	if p.rclosed {
		return true
	}
	if p.n > 0 {
		return p.segs[p.head].at <= now
	}
	return p.wclosed
}

//go:norace
func (p *Pipe) nextAt() int64 {
	if p.n > 0 {
		return p.segs[p.head].at
	}
	return -1
}

//go:norace
func (p *Pipe) writable() bool {
	return p.rclosed || p.wclosed || p.Window == 0 || p.buffered < p.Window
}

// LimitWindow makes the pipe take only extra more bytes beyond what it holds now.
//
//go:norace
func (p *Pipe) LimitWindow(extra int) { p.Window = p.buffered + extra }

//go:norace
func (p *Pipe) push(data []byte, at int64) {
	if p.n == len(p.segs) {
		nl := len(p.segs) * 2
		if nl == 0 {
			nl = 16
		}
		ns := make([]seg, nl)
		for i := 0; i < p.n; i++ {
			ns[i] = p.segs[(p.head+i)%len(p.segs)]
		}
		p.segs = ns
		p.head = 0
	}
	p.segs[(p.head+p.n)%len(p.segs)] = seg{data: data, at: at}
	p.n++
	p.NSeg++
}

//go:norace
func (p *Pipe) capture(b []byte, seq uint64) {
	if !p.Capture {
		return
	}
	if p.nmarks == len(p.marks) {
		nl := len(p.marks) * 2
		if nl == 0 {
			nl = 64
		}
		nm := make([]Mark, nl)
		for i := 0; i < p.nmarks; i++ {
			nm[i] = p.marks[i]
		}
		p.marks = nm
	}
	p.marks[p.nmarks] = Mark{seq, p.ncap, len(b)}
	p.nmarks++
	if p.ncap+len(b) > len(p.cap) {
		nl := len(p.cap) * 2
		if nl < p.ncap+len(b) {
			nl = p.ncap + len(b) + 4096
		}
		nc := make([]byte, nl)
		for i := 0; i < p.ncap; i++ {
			nc[i] = p.cap[i]
		}
		p.cap = nc
	}
	for i := 0; i < len(b); i++ {
		p.cap[p.ncap+i] = b[i]
	}
	p.ncap += len(b)
}

// Captured returns all bytes written into the pipe so far.
//
//go:norace
func (p *Pipe) Captured() []byte { return p.cap[:p.ncap] }

// Marks returns the write boundaries of the captured stream.
//
//go:norace
func (p *Pipe) Marks() []Mark { return p.marks[:p.nmarks] }

// Conn is one endpoint of a simulated connection; it implements net.Conn.
type Conn struct {
	s       *Sim
	Name    string
	rd, wr  *Pipe
	OnClose func() // scenario hook: this end was closed (first Close only)
	rdl     int64  // read deadline (virtual ns), 0 = none
	wdl     int64  // write deadline (virtual ns), 0 = none; applies to writes blocked on a full window
	closed  bool
	// PeerAddr, when set, is what RemoteAddr reports (several connections to one
	// listening address)
	PeerAddr string
	// counters
	Reads, Writes, Timeouts int64
}

// NetCfg parameterises a connection.
type NetCfg struct {
	SegPol     int
	MSS        int
	Latency    int64
	Jitter     int64
	ShortRd    int
	Window     int
	Capture    bool
	NoCoalesce bool
	// EOFWithData: the Read that takes the last byte of a stream whose writer has
	// closed returns the bytes together with io.EOF (io.Reader allows both forms)
	EOFWithData bool
}

// NewConnPair creates a connected pair (a,b). Bytes written to a are read
// from b and vice versa. cfgAB applies to the a->b direction.
func (s *Sim) NewConnPair(nameA, nameB string, cfgAB, cfgBA NetCfg) (*Conn, *Conn) {
	ab := &Pipe{Name: nameA + ">" + nameB, s: s, FlipAt: -1, FailAt: -1}
	ba := &Pipe{Name: nameB + ">" + nameA, s: s, FlipAt: -1, FailAt: -1}
	ab.apply(cfgAB)
	ba.apply(cfgBA)
	a := &Conn{s: s, Name: nameA, rd: ba, wr: ab}
	b := &Conn{s: s, Name: nameB, rd: ab, wr: ba}
	return a, b
}

func (p *Pipe) apply(c NetCfg) {
	p.SegPol = c.SegPol
	p.EOFWithData = c.EOFWithData
	p.MSS = c.MSS
	if p.MSS <= 0 {
		p.MSS = 1460
	}
	p.Latency = c.Latency
	p.Jitter = c.Jitter
	p.ShortRd = c.ShortRd
	p.Window = c.Window
	p.Capture = c.Capture
	p.NoCoalesce = c.NoCoalesce
}

// DrawNetCfg draws a benign network configuration (value 0 = simplest).
func DrawNetCfg(c *Choice) NetCfg {
	var n NetCfg
	n.SegPol = c.Weighted([]int{4, 2, 1, 2, 1}, LNetCfg)
	n.MSS = []int{1460, 536, 1208, 97}[c.Choose(4, LNetCfg)]
	n.Latency = []int64{0, 50e3, 5e6, 100e6}[c.Choose(4, LNetCfg)]
	n.Jitter = []int64{0, 20e3, 3e6}[c.Choose(3, LNetCfg)]
	n.ShortRd = []int{0, 50, 300}[c.Choose(3, LNetCfg)]
	n.NoCoalesce = c.Bool(1, 4, LNetCfg)
	n.EOFWithData = c.Bool(1, 4, LNetCfg)
	return n
}

// RdPipe / WrPipe expose the directions (for capture and fault injection).
func (c *Conn) RdPipe() *Pipe { return c.rd }
func (c *Conn) WrPipe() *Pipe { return c.wr }

// LiftWindows makes both directions of the connection unlimited from now on
// (writers blocked on a full window become runnable).
//
//go:norace
func (c *Conn) LiftWindows() {
	c.rd.Window = 0
	c.wr.Window = 0
}

type netErr struct {
	msg     string
	timeout bool
}

func (e *netErr) Error() string   { return e.msg }
func (e *netErr) Timeout() bool   { return e.timeout }
func (e *netErr) Temporary() bool { return e.timeout }

// ErrTimeout is returned when a read deadline expires.
var ErrTimeout net.Error = &netErr{"simnet: i/o timeout", true}

// ErrClosed is returned on use of a locally closed connection.
var ErrClosed = errors.New("simnet: use of closed network connection")

// ErrPipe is returned when writing to a connection whose peer has closed.
var ErrPipe = errors.New("simnet: broken pipe")

// ErrReset is an injected connection reset.
var ErrReset = errors.New("simnet: connection reset by peer")

//go:norace
func (c *Conn) Write(b []byte) (int, error) {
	s := c.s
	if c.closed {
		return 0, ErrClosed
	}
	p := c.wr
	if p.rclosed {
		return 0, ErrPipe
	}
	if len(b) == 0 {
		return 0, nil
	}
	if c.wdl != 0 && c.wdl <= s.Now {
		// like a real net.Conn: a write after the deadline fails at once
		c.Timeouts++
		return 0, ErrTimeout
	}
	// injected transport failure: the Write that crosses stream offset FailAt gets
	// only the bytes before it onto the wire and returns FailErr (once)
	var failErr error
	if p.FailAt >= 0 && p.FailAt >= p.BytesW && p.FailAt < p.BytesW+int64(len(b)) {
		b = b[:p.FailAt-p.BytesW]
		failErr = p.FailErr
		p.FailAt = -1
		p.Failed = true
		if len(b) == 0 {
			return 0, failErr
		}
	}
	c.Writes++
	s.Nev++
	p.capture(b, s.Nev)
	if p.OnWrite != nil {
		p.OnWrite(b)
	}
	s.logEv(EvNetWrite, int64(len(b)), int64(p.ncap))
	t := s.curTask()
	off := 0
	first := true
	for off < len(b) {
		if p.Window > 0 && t != nil && !s.abort {
			for !p.writable() {
				if c.wdl != 0 && c.wdl <= s.Now {
					c.Timeouts++
					s.logEv(EvNetTimeout, c.wdl, p.BytesW)
					return off, ErrTimeout
				}
				t.wk = wPipeWindow
				t.wpipe = p
				t.wtime = c.wdl
				s.block(t)
				if c.closed || p.wclosed {
					// closed from another task while this Write was blocked on the window
					return off, ErrClosed
				}
			}
			if p.rclosed {
				return off, ErrPipe
			}
		}
		n := len(b) - off
		switch p.SegPol {
		case SegMSS:
			if n > p.MSS {
				n = p.MSS
			}
		case SegDribble:
			if off < 64 {
				n = 1
			} else if n > p.MSS {
				n = p.MSS
			}
		case SegByte:
			if len(b) <= 600 {
				n = 1
			} else if n > p.MSS {
				n = p.MSS
			}
		case SegRandom:
			lim := n
			if lim > 2*p.MSS {
				lim = 2 * p.MSS
			}
			n = 1 + s.C.Choose(lim, LNetSeg)
		}
		if p.Window > 0 && n > p.Window-p.buffered && p.Window-p.buffered > 0 {
			n = p.Window - p.buffered
		}
		d := make([]byte, n)
		for i := 0; i < n; i++ {
			d[i] = b[off+i]
		}
		if p.FlipAt >= 0 && p.FlipMask != 0 && p.FlipAt >= p.BytesW && p.FlipAt < p.BytesW+int64(n) {
			d[p.FlipAt-p.BytesW] ^= p.FlipMask
			p.Flipped = true
			if p.OnFlip != nil {
				p.OnFlip()
			}
		}
		lat := p.Latency
		if p.Jitter > 0 && (first || p.SegPol != SegWhole) {
			lat += int64(s.C.Choose(int(p.Jitter/1000)+1, LNetLat)) * 1000
		}
		at := s.Now + lat
		if at < p.lastAt {
			at = p.lastAt
		}
		p.lastAt = at
		p.push(d, at)
		p.buffered += n
		p.BytesW += int64(n)
		off += n
		first = false
	}
	if t != nil && !s.abort {
		s.yieldPoint(-10)
	}
	return len(b), failErr
}

// ErrWriteTimeout is an injected transient transport failure (a write deadline
// that expired half-way): Timeout() and Temporary() report true.
var ErrWriteTimeout error = timeoutErr{}

type timeoutErr struct{}

func (timeoutErr) Error() string   { return "simnet: write timeout (injected)" }
func (timeoutErr) Timeout() bool   { return true }
func (timeoutErr) Temporary() bool { return true }

//go:norace
func (c *Conn) Read(b []byte) (int, error) {
	s := c.s
	p := c.rd
	t := s.curTask()
	if t != nil && !s.abort {
		s.yieldPoint(-11)
	}
	for {
		if c.closed {
			return 0, ErrClosed
		}
		if p.n > 0 && p.segs[p.head].at <= s.Now {
			if len(b) == 0 {
				return 0, nil
			}
			// like TCP, a read returns whatever has been delivered so far, across
			// segment boundaries (unless NoCoalesce), possibly cut short
			avail := 0
			for i := 0; i < p.n; i++ {
				sg := &p.segs[(p.head+i)%len(p.segs)]
				if sg.at > s.Now {
					break
				}
				avail += len(sg.data) - sg.off
				if p.NoCoalesce || avail >= len(b) {
					break
				}
			}
			n := avail
			if n > len(b) {
				n = len(b)
			}
			if p.ShortRd > 0 && n > 1 && s.C.Bool(p.ShortRd, 1000, LNetShort) {
				n = 1 + s.C.Choose(n-1, LNetShort)
			}
			done := 0
			for done < n {
				sg := &p.segs[p.head]
				k := len(sg.data) - sg.off
				if k > n-done {
					k = n - done
				}
				for i := 0; i < k; i++ {
					b[done+i] = sg.data[sg.off+i]
				}
				sg.off += k
				done += k
				if sg.off >= len(sg.data) {
					sg.data = nil
					p.head = (p.head + 1) % len(p.segs)
					p.n--
				}
			}
			p.buffered -= n
			p.BytesR += int64(n)
			c.Reads++
			s.logEv(EvNetRead, int64(n), p.BytesR)
			if p.EOFWithData && p.n == 0 && p.wclosed {
				s.logEv(EvNetEOF, 1, p.BytesR)
				if p.rerr != nil {
					return n, p.rerr
				}
				return n, io.EOF
			}
			return n, nil
		}
		if p.n == 0 && p.wclosed {
			s.logEv(EvNetEOF, 0, p.BytesR)
			if p.rerr != nil {
				return 0, p.rerr
			}
			return 0, io.EOF
		}
		if c.rdl != 0 && c.rdl <= s.Now {
			c.Timeouts++
			s.logEv(EvNetTimeout, c.rdl, p.BytesR)
			return 0, ErrTimeout
		}
		if t == nil || s.abort {
			return 0, ErrClosed
		}
		t.wk = wPipeRead
		t.wpipe = p
		t.wtime = c.rdl
		s.block(t)
	}
}

// Close closes the connection: the peer reads EOF after draining what was
// written; local blocked reads fail.
//
//go:norace
func (c *Conn) Close() error {
	if c.closed {
		return ErrClosed
	}
	c.closed = true
	c.wr.wclosed = true
	c.rd.rclosed = true
	c.s.logEv(EvNetClose, 0, 0)
	if c.OnClose != nil {
		c.OnClose()
	}
	return nil
}

// CloseWrite half-closes (peer reads EOF after draining).
//
//go:norace
func (c *Conn) CloseWrite() { c.wr.wclosed = true }

// Reset makes the peer's reads fail with ErrReset after draining.
//
//go:norace
func (c *Conn) Reset() {
	c.wr.rerr = ErrReset
	c.wr.wclosed = true
	c.closed = true
	c.rd.rclosed = true
}

type simAddr string

func (a simAddr) Network() string { return "sim" }
func (a simAddr) String() string  { return string(a) }

func (c *Conn) LocalAddr() net.Addr { return simAddr(c.Name) }
func (c *Conn) RemoteAddr() net.Addr {
	if c.PeerAddr != "" {
		return simAddr(c.PeerAddr)
	}
	return simAddr(c.Name + "-peer")
}

//go:norace
func (c *Conn) SetDeadline(t time.Time) error {
	c.SetReadDeadline(t)
	return c.SetWriteDeadline(t)
}

func deadlineNS(t time.Time) int64 {
	if t.IsZero() {
		return 0
	}
	if t.Before(Epoch.Add(-24 * time.Hour)) {
		// computed from the real clock by code outside the instrumented tree (the
		// standard library's tls sets "now + 5 s" around close_notify): virtual time
		// starts at Epoch, such a deadline means nothing here
		return 0
	}
	ns := int64(t.Sub(Epoch))
	if ns <= 0 {
		ns = 1
	}
	return ns
}

// SetReadDeadline also reaches a Read of this connection that is parked in
// another task (like a real net.Conn: that is how a parked call is interrupted).
//
//go:norace
func (c *Conn) SetReadDeadline(t time.Time) error {
	c.rdl = deadlineNS(t)
	c.s.retime(wPipeRead, c.rd, c.rdl)
	return nil
}

// SetWriteDeadline: a Write blocked on a full window returns ErrTimeout once
// the deadline has passed, also when it is set from another task.
//
//go:norace
func (c *Conn) SetWriteDeadline(t time.Time) error {
	c.wdl = deadlineNS(t)
	c.s.retime(wPipeWindow, c.wr, c.wdl)
	return nil
}

// SetReadDeadlineNS sets the deadline in virtual nanoseconds (0 = none).
//
//go:norace
func (c *Conn) SetReadDeadlineNS(ns int64) {
	c.rdl = ns
	c.s.retime(wPipeRead, c.rd, ns)
}
