// Package simkit is the deterministic simulator: choice stream, cooperative
// scheduler with a race-detector-invisible baton, virtual clock, simulated
// network and stream endpoints. It imports only the standard library so that
// instrumented gmsm packages can call into it.
//
// Discipline (DESIGN.md §3.3): every function that touches state shared
// between tasks is //go:norace and uses no map, append, copy or closure on
// that state.
package simkit

// ChoiceRec is one recorded decision.
type ChoiceRec struct {
	Label uint16
	N     uint32
	V     uint32
}

// Choice is the single source of nondeterminism of a run.
type Choice struct {
	s       [4]uint64 // xoshiro256**
	replay  []uint32
	rpos    int
	isRep   bool
	trace   []ChoiceRec
	ntrace  int
	Dropped bool // trace overflowed (run too long to record); replay impossible
}

const maxTrace = 1 << 22

//go:norace
func splitmix(x *uint64) uint64 {
	*x += 0x9e3779b97f4a7c15
	z := *x
	z = (z ^ (z >> 30)) * 0xbf58476d1ce4e5b9
	z = (z ^ (z >> 27)) * 0x94d049bb133111eb
	return z ^ (z >> 31)
}

// Mix derives a run seed from (seed, scenario id, run index).
func Mix(seed uint64, scen uint64, run uint64) uint64 {
	x := seed ^ 0x5851f42d4c957f2d
	a := splitmix(&x)
	x ^= scen * 0x9e3779b97f4a7c15
	b := splitmix(&x)
	x ^= run*0xd1342543de82ef95 + a
	c := splitmix(&x)
	return a ^ (b << 1) ^ c
}

// NewChoice returns a generating choice stream.
func NewChoice(seed uint64) *Choice {
	c := &Choice{}
	x := seed
	for i := 0; i < 4; i++ {
		c.s[i] = splitmix(&x)
	}
	c.trace = make([]ChoiceRec, 1024)
	return c
}

// NewReplay returns a choice stream that replays vals (value mod n; 0 once
// exhausted).
func NewReplay(vals []uint32) *Choice {
	c := &Choice{isRep: true, replay: vals}
	c.trace = make([]ChoiceRec, 1024)
	return c
}

//go:norace
func rotl(x uint64, k uint) uint64 { return (x << k) | (x >> (64 - k)) }

//go:norace
func (c *Choice) next() uint64 {
	s := &c.s
	r := rotl(s[1]*5, 7) * 9
	t := s[1] << 17
	s[2] ^= s[0]
	s[3] ^= s[1]
	s[1] ^= s[2]
	s[0] ^= s[3]
	s[2] ^= t
	s[3] = rotl(s[3], 45)
	return r
}

//go:norace
func (c *Choice) record(label uint16, n, v uint32) {
	if c.ntrace >= len(c.trace) {
		if len(c.trace) >= maxTrace {
			c.Dropped = true
			return
		}
		nt := make([]ChoiceRec, len(c.trace)*2)
		for i := 0; i < c.ntrace; i++ {
			nt[i] = c.trace[i]
		}
		c.trace = nt
	}
	c.trace[c.ntrace] = ChoiceRec{label, n, v}
	c.ntrace++
}

// Choose returns a value in [0,n). Value 0 must be the most benign option.
//
//go:norace
func (c *Choice) Choose(n int, label uint16) int {
	if n <= 1 {
		return 0
	}
	var v uint32
	if c.isRep {
		if c.rpos < len(c.replay) {
			v = c.replay[c.rpos] % uint32(n)
			c.rpos++
		}
	} else {
		v = uint32(c.next() % uint64(n))
	}
	c.record(label, uint32(n), v)
	return int(v)
}

// Bool is true with probability num/den (false = benign).
//
//go:norace
func (c *Choice) Bool(num, den int, label uint16) bool {
	if num <= 0 {
		return false
	}
	// map so that 0 = false: true iff value >= den-num
	return c.Choose(den, label) >= den-num
}

// Weighted picks index i with probability w[i]/sum; index 0 is benign.
//
//go:norace
func (c *Choice) Weighted(w []int, label uint16) int {
	sum := 0
	for i := 0; i < len(w); i++ {
		sum += w[i]
	}
	if sum <= 0 {
		return 0
	}
	v := c.Choose(sum, label)
	for i := 0; i < len(w); i++ {
		if v < w[i] {
			return i
		}
		v -= w[i]
	}
	return 0
}

// Range returns a value in [lo,hi].
//
//go:norace
func (c *Choice) Range(lo, hi int, label uint16) int {
	if hi <= lo {
		return lo
	}
	return lo + c.Choose(hi-lo+1, label)
}

// Bytes fills p with drawn bytes (8 per draw).
//
//go:norace
func (c *Choice) Bytes(p []byte, label uint16) {
	for i := 0; i < len(p); i += 4 {
		v := uint32(c.Choose(1<<31, label))
		for j := 0; j < 4 && i+j < len(p); j++ {
			p[i+j] = byte(v >> (8 * uint(j)))
		}
	}
}

// Trace returns the recorded decisions (after the run).
func (c *Choice) Trace() []ChoiceRec { return c.trace[:c.ntrace] }

// Values returns just the chosen values.
func (c *Choice) Values() []uint32 {
	out := make([]uint32, c.ntrace)
	for i := 0; i < c.ntrace; i++ {
		out[i] = c.trace[i].V
	}
	return out
}

// Stream is a deterministic byte stream for entropy (Config.Rand). It is NOT
// part of the choice trace: its seed is drawn once from the choice stream.
// State is advanced without locks in norace code (DESIGN §3.5). One-byte
// reads are answered without advancing (neutralises crypto/tls MaybeReadByte
// style probes).
type Stream struct {
	x   uint64
	buf uint64
	nb  int
	// Short makes Read return fewer bytes than asked for (1, 5, 8, 3, 16, 2, ... per
	// call), as an io.Reader may: callers must use io.ReadFull
	Short bool
	calls int
}

// NewStream makes an entropy stream from a seed.
// (distinct seeds give distinct streams: seed|1 would pair every even seed with its successor)
func NewStream(seed uint64) *Stream { return &Stream{x: seed<<1 | 1} }

//go:norace
func (s *Stream) Read(p []byte) (int, error) {
	if len(p) == 1 {
		p[0] = 0x5a
		return 1, nil
	}
	n := len(p)
	if s.Short {
		k := [6]int{1, 5, 8, 3, 16, 2}[s.calls%6]
		s.calls++
		if k < n {
			n = k
		}
	}
	for i := 0; i < n; i++ {
		if s.nb == 0 {
			s.buf = splitmix(&s.x)
			s.nb = 8
		}
		p[i] = byte(s.buf)
		s.buf >>= 8
		s.nb--
	}
	return n, nil
}
