package simkit

import (
	"fmt"
	"runtime/debug"
	"strings"
)

const gmsmPrefix = "github.com/tjfoc/gmsm/"
const harnessPrefix = "github.com/tjfoc/gmsm/verifsim/"

// PanicSite extracts the innermost gmsm (non-harness) function from a stack
// dump. ok is false when no gmsm frame is on the stack before the first harness
// frame that is not simkit (i.e. the panic is the harness' own).
func PanicSite(stack string) (site string, ok bool) {
	lines := strings.Split(stack, "\n")
	seenPanic := false
	for _, ln := range lines {
		if strings.HasPrefix(ln, "\t") || ln == "" {
			continue
		}
		fn := ln
		if i := strings.LastIndex(fn, "("); i > 0 {
			fn = fn[:i]
		}
		if strings.HasPrefix(fn, "panic") || strings.HasPrefix(fn, "runtime.") || strings.HasPrefix(fn, "runtime/debug.") {
			if strings.HasPrefix(fn, "panic") || strings.HasPrefix(fn, "runtime.gopanic") || strings.HasPrefix(fn, "runtime.panic") || strings.HasPrefix(fn, "runtime.goPanic") || strings.HasPrefix(fn, "runtime.sigpanic") {
				seenPanic = true
			}
			continue
		}
		if !seenPanic {
			continue
		}
		if strings.HasPrefix(fn, harnessPrefix) {
			if strings.HasPrefix(fn, harnessPrefix+"simkit.") {
				continue // hooks called from gmsm code
			}
			return strings.TrimPrefix(fn, gmsmPrefix), false
		}
		if strings.HasPrefix(fn, gmsmPrefix) {
			return strings.TrimPrefix(fn, gmsmPrefix), true
		}
	}
	return "", false
}

// Guard runs f and converts a panic into a violation (gmsm frame) or a
// harness error (no gmsm frame).
func Guard(r *Rec, f func()) {
	defer func() {
		if v := recover(); v != nil {
			st := string(debug.Stack())
			site, ok := PanicSite(st)
			if ok {
				r.Violate("panic", site, fmt.Sprint(v))
			} else {
				r.HarnessErr = fmt.Sprintf("harness panic: %v at %s\n%s", v, site, st)
			}
		}
	}()
	f()
}

// TaskPanics converts panics recorded in tasks into violations / harness errors.
func (s *Sim) TaskPanics(r *Rec) {
	for _, t := range s.Tasks() {
		if !t.Panicked {
			continue
		}
		site, ok := PanicSite(t.PanicStack)
		if ok {
			r.Violate("panic", site, fmt.Sprintf("task %s: %v", t.Name, t.PanicVal))
		} else if r.HarnessErr == "" {
			r.HarnessErr = fmt.Sprintf("harness panic in task %s: %v at %s\n%s", t.Name, t.PanicVal, site, t.PanicStack)
		}
	}
}
