module verif/driver

go 1.18
