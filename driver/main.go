// Command driver is the entry point of every check: it copies /repo's working
// tree to a scratch directory, instruments it, overlays the harness, builds the
// worker(s), runs them on all cores, aggregates, minimises violations, writes
// replay files and evidence, and removes the scratch directory.
//
// Exit codes: 0 property held on everything explored; 1 violation (a line
// "VIOLATION property=<id> replay=<path>" per new violation); 2 harness trouble.
package main

import (
	"bytes"
	"crypto/sha256"
	"encoding/binary"
	"encoding/hex"
	"encoding/json"
	"fmt"
	"os"
	"os/exec"
	"path/filepath"
	"regexp"
	"sort"
	"strconv"
	"strings"
	"sync"
	"time"
)

const verifDir = "/verif"

// harnessDir is the harness overlaid on the tree under test (VERIF_HARNESS lets
// a long regression run use a snapshot while the harness is being edited).
func harnessDir() string {
	if d := os.Getenv("VERIF_HARNESS"); d != "" {
		return d
	}
	return verifDir + "/harness"
}

var repoDir = func() string {
	if d := os.Getenv("VERIF_REPO"); d != "" {
		return d // a scratch worktree (regression runs over seeded changes); default is /repo
	}
	return "/repo"
}()

type tierCfg struct {
	Runs      uint64  // total runs (plain build)
	RaceRuns  uint64  // total runs (race build)
	Deadline  float64 // seconds of worker wall time
	RunMS     int
	MinimiseS float64
}

type propCfg struct {
	FreshProc int  // additional runs executed one per fresh worker process (first-use-in-process behaviour)
	Stmt      bool // statement-level yields
	Level     string
	Quick     tierCfg
	Thor      tierCfg
	Race      bool
	Rule      string
	Real      []string
	Stubs     []string
	Assume    []string
}

var props = map[string]propCfg{}

type violation struct {
	Class string `json:"class"`
	Site  string `json:"site"`
	Msg   string `json:"message"`
	Event uint64 `json:"event"`
}

type violOut struct {
	Family    string                 `json:"family"`
	Run       uint64                 `json:"run"`
	Seed      uint64                 `json:"seed"`
	Build     string                 `json:"build"`
	Violation violation              `json:"violation"`
	Choices   []uint32               `json:"choices"`
	Decoded   map[string]interface{} `json:"decoded,omitempty"`
	TraceHash string                 `json:"trace_hash"`
	Config    string                 `json:"config"`
	Outcome   string                 `json:"outcome"`
	NChoices  int                    `json:"n_choices"`
}

type workerResult struct {
	Prop        string                      `json:"prop"`
	Build       string                      `json:"build"`
	Seed        uint64                      `json:"seed"`
	Evaluations int64                       `json:"evaluations"`
	Nontrivial  int64                       `json:"nontrivial"`
	PerFamily   map[string]int64            `json:"per_family"`
	Faults      map[string]int64            `json:"faults_fired"`
	Reach       map[string]int64            `json:"reach"`
	Outcomes    map[string]int64            `json:"outcomes"`
	Configs     map[string]int64            `json:"configs"`
	SimNS       int64                       `json:"sim_ns"`
	Steps       int64                       `json:"steps"`
	Switches    int64                       `json:"switches"`
	Preempts    int64                       `json:"preempts"`
	Violations  []violOut                   `json:"violations"`
	NViol       int64                       `json:"n_violations"`
	Samples     []map[string]interface{}    `json:"samples"`
	HarnessErrs []string                    `json:"harness_errors"`
	Hashes      map[string]string           `json:"hashes"`
	WallS       float64                     `json:"wall_s"`
	Done        bool                        `json:"done"`
	Extra       map[string]map[string]int64 `json:"extra"`
}

type replayFile struct {
	Format         int                    `json:"format"`
	Property       string                 `json:"property"`
	Family         string                 `json:"family"`
	Seed           uint64                 `json:"seed"`
	Run            uint64                 `json:"run"`
	Build          string                 `json:"build"`
	Choices        []uint32               `json:"choices"`
	Decoded        map[string]interface{} `json:"decoded,omitempty"`
	Violation      violation              `json:"violation"`
	TraceHash      string                 `json:"trace_hash"`
	Tree           string                 `json:"tree"`
	Minimised      bool                   `json:"minimised"`
	ChoicesBefore  int                    `json:"choices_before_min"`
	ChoicesAfter   int                    `json:"choices_after_min"`
	NonzeroBefore  int                    `json:"nonzero_before_min"`
	NonzeroAfter   int                    `json:"nonzero_after_min"`
	ReplayVerified bool                   `json:"replay_verified_in_fresh_process"`
	Generate       bool                   `json:"generate_mode"` // no choice list: re-execute (seed, run) in generate mode
}

type knownFinding struct {
	Property string `json:"property"`
	Family   string `json:"family,omitempty"`
	Class    string `json:"class"`
	Site     string `json:"site"`
	Match    string `json:"match,omitempty"` // regexp on the message
	Status   string `json:"status"`          // "known" or "fixed"
	Commit   string `json:"commit,omitempty"`
	What     string `json:"what"`
}

func die2(format string, a ...interface{}) {
	fmt.Printf("HARNESS-ERROR "+format+"\n", a...)
	os.Exit(2)
}

func goEnv() []string {
	env := os.Environ()
	env = append(env, "GOFLAGS=-mod=mod", "GOPROXY=off", "GOSUMDB=off", "GOTOOLCHAIN=local", "CGO_ENABLED=1")
	return env
}

func run(dir string, env []string, name string, args ...string) (string, error) {
	cmd := exec.Command(name, args...)
	cmd.Dir = dir
	if env != nil {
		cmd.Env = env
	}
	var out bytes.Buffer
	cmd.Stdout = &out
	cmd.Stderr = &out
	err := cmd.Run()
	return out.String(), err
}

func treeFingerprint() string {
	head, _ := run(repoDir, nil, "git", "rev-parse", "--short", "HEAD")
	diff, _ := run(repoDir, nil, "git", "diff", "HEAD")
	h := sha256.Sum256([]byte(diff))
	d := "clean"
	if strings.TrimSpace(diff) != "" {
		d = "dirty-" + hex.EncodeToString(h[:6])
	}
	return "git:" + strings.TrimSpace(head) + "+" + d
}

// prepareScratch copies the tree, instruments it and overlays the harness.
func prepareScratch(stmt bool) string {
	base := os.Getenv("VERIF_SCRATCH_BASE")
	if base == "" {
		base = os.TempDir()
	}
	dir, err := os.MkdirTemp(base, "verifsim-")
	if err != nil {
		die2("mktemp: %v", err)
	}
	if out, err := run("", nil, "rsync", "-a", "--exclude", ".git", "--exclude", "verifsim", repoDir+"/", dir+"/"); err != nil {
		os.RemoveAll(dir)
		die2("copy tree: %v %s", err, out)
	}
	if out, err := run("", nil, "rsync", "-a", "--exclude", "go.mod", "--exclude", "go.sum", "--exclude", "*_test.go", harnessDir()+"/", dir+"/verifsim/"); err != nil {
		os.RemoveAll(dir)
		die2("overlay harness: %v %s", err, out)
	}
	// instrument
	rw := filepath.Join(verifDir, "bin", "rewrite")
	if _, err := os.Stat(rw); err == nil {
		args := []string{"-dir", dir}
		if stmt {
			args = append(args, "-stmt")
		}
		out, err := run(dir, goEnv(), rw, args...)
		if err != nil {
			os.RemoveAll(dir)
			die2("instrumenter failed (tree does not type-check?): %v\n%s", err, out)
		}
	}
	// white-box harness files inside gmsm packages (optional: dropped if the tree no longer builds with them)
	inpkg := filepath.Join(harnessDir(), "inpkg")
	filepath.Walk(inpkg, func(path string, info os.FileInfo, err error) error {
		if err != nil || info.IsDir() || !strings.HasSuffix(path, ".go") {
			return nil
		}
		rel, _ := filepath.Rel(inpkg, path)
		b, _ := os.ReadFile(path)
		os.WriteFile(filepath.Join(dir, rel), b, 0644)
		return nil
	})
	os.RemoveAll(filepath.Join(dir, "verifsim", "inpkg"))
	// extra requirements of the harness
	extra := filepath.Join(harnessDir(), "extra_requires.txt")
	if b, err := os.ReadFile(extra); err == nil {
		for _, ln := range strings.Split(string(b), "\n") {
			ln = strings.TrimSpace(ln)
			if ln == "" || strings.HasPrefix(ln, "#") {
				continue
			}
			if out, err := run(dir, goEnv(), "go", "mod", "edit", "-require="+ln); err != nil {
				os.RemoveAll(dir)
				die2("go mod edit: %v %s", err, out)
			}
		}
		if sum, err := os.ReadFile(filepath.Join(harnessDir(), "extra_go.sum")); err == nil {
			f, _ := os.OpenFile(filepath.Join(dir, "go.sum"), os.O_APPEND|os.O_WRONLY, 0644)
			f.Write(sum)
			f.Close()
		}
	}
	return dir
}

func buildWorker(dir string, race bool) string {
	out := filepath.Join(dir, "worker-plain")
	args := []string{"build", "-o", out}
	if race {
		out = filepath.Join(dir, "worker-race")
		args = []string{"build", "-race", "-o", out}
	}
	args = append(args, "./verifsim/worker")
	o, err := run(dir, goEnv(), "go", args...)
	if err != nil {
		// retry without the white-box files (an edited tree may have renamed what they touch)
		removed := false
		inpkg := filepath.Join(harnessDir(), "inpkg")
		filepath.Walk(inpkg, func(path string, info os.FileInfo, e error) error {
			if e != nil || info.IsDir() || !strings.HasSuffix(path, ".go") {
				return nil
			}
			rel, _ := filepath.Rel(inpkg, path)
			if os.Remove(filepath.Join(dir, rel)) == nil {
				removed = true
			}
			return nil
		})
		if removed {
			o, err = run(dir, goEnv(), "go", args...)
			if err == nil {
				fmt.Println("NOTE white-box harness files dropped: the tree does not build with them")
			}
		}
	}
	if err != nil {
		os.RemoveAll(dir)
		die2("build failed:\n%s", o)
	}
	return out
}

type crashInfo struct {
	desc   string
	family string
	run    uint64
	race   bool
	known  bool // family/run could be determined
}

type batch struct {
	results []*workerResult
	sigs    map[uint64]struct{}
	crashes []string
	crashAt []crashInfo
}

// runWorkers runs W workers over run indices [0, runs) and merges results.
func runWorkers(bin, dir, prop string, seed uint64, runs uint64, tc tierCfg, W int, race bool, fam string, hashes bool) *batch {
	b := &batch{sigs: map[uint64]struct{}{}}
	if runs == 0 {
		return b
	}
	var mu sync.Mutex
	var wg sync.WaitGroup
	per := (runs + uint64(W) - 1) / uint64(W)
	for w := 0; w < W; w++ {
		wg.Add(1)
		go func(w int) {
			defer wg.Done()
			kind := "plain"
			if race {
				kind = "race"
			}
			outf := filepath.Join(dir, fmt.Sprintf("res-%s-%d.json", kind, w))
			prog := filepath.Join(dir, fmt.Sprintf("prog-%s-%d", kind, w))
			args := []string{"-prop", prop, "-seed", strconv.FormatUint(seed, 10), "-from", strconv.Itoa(w), "-stride", strconv.Itoa(W),
				"-n", strconv.FormatUint(per, 10), "-out", outf, "-deadline", fmt.Sprint(tc.Deadline), "-runms", strconv.Itoa(tc.RunMS), "-progress", prog}
			if fam != "" {
				args = append(args, "-fam", fam)
			}
			if hashes {
				args = append(args, "-hashes")
			}
			env := append(os.Environ(), "GOMAXPROCS=1")
			if race {
				rl := filepath.Join(dir, fmt.Sprintf("racelog-%d", w))
				args = append(args, "-racelog", rl)
				env = append(env, "GORACE=halt_on_error=0 exitcode=0 suppress_equal_stacks=0 suppress_equal_addresses=0 log_path="+rl+" history_size=3")
			}
			cmd := exec.Command(bin, args...)
			cmd.Env = env
			cmd.Dir = dir
			var so bytes.Buffer
			cmd.Stdout = &so
			cmd.Stderr = &so
			err := cmd.Run()
			var r workerResult
			data, rerr := os.ReadFile(outf)
			if rerr == nil {
				json.Unmarshal(data, &r)
			}
			mu.Lock()
			defer mu.Unlock()
			if wd, e := os.ReadFile(outf + ".watchdog"); e == nil {
				r.HarnessErrs = append(r.HarnessErrs, string(wd))
			}
			if err != nil || !r.Done {
				p, _ := os.ReadFile(prog)
				tail := so.String()
				if len(tail) > 3000 {
					tail = tail[len(tail)-3000:]
				}
				b.crashes = append(b.crashes, fmt.Sprintf("worker %d (%s) died: %v; last progress: %s; errors: %v; output tail:\n%s", w, kind, err, strings.TrimSpace(string(p)), r.HarnessErrs, tail))
				ci := crashInfo{desc: tail, race: race}
				if f := strings.Fields(string(p)); len(f) == 2 {
					if k, e := strconv.ParseUint(f[1], 10, 64); e == nil {
						ci.family, ci.run, ci.known = f[0], k, true
					}
				}
				b.crashAt = append(b.crashAt, ci)
			}
			if rerr == nil {
				b.results = append(b.results, &r)
				if sb, err := os.ReadFile(outf + ".sigs"); err == nil {
					for i := 0; i+8 <= len(sb); i += 8 {
						b.sigs[binary.LittleEndian.Uint64(sb[i:])] = struct{}{}
					}
				}
			}
		}(w)
	}
	wg.Wait()
	return b
}

// replayOnce runs the worker on a choice list in a fresh process.
func replayOnce(bin, dir string, race bool, family string, run uint64, choices []uint32, tag string) (*workerResult, error) {
	in := filepath.Join(dir, "rp-"+tag+".json")
	outf := filepath.Join(dir, "rp-"+tag+".out")
	data, _ := json.Marshal(map[string]interface{}{"family": family, "choices": choices, "run": run})
	os.WriteFile(in, data, 0644)
	defer os.Remove(in)
	defer os.Remove(outf)
	defer os.Remove(outf + ".sigs")
	args := []string{"-replay", in, "-out", outf, "-runms", "60000", "-hashes"}
	env := append(os.Environ(), "GOMAXPROCS=1")
	if race {
		rl := filepath.Join(dir, "racelog-"+tag)
		args = append(args, "-racelog", rl)
		env = append(env, "GORACE=halt_on_error=0 exitcode=0 suppress_equal_stacks=0 suppress_equal_addresses=0 log_path="+rl+" history_size=3")
		defer func() {
			m, _ := filepath.Glob(rl + ".*")
			for _, f := range m {
				os.Remove(f)
			}
		}()
	}
	cmd := exec.Command(bin, args...)
	cmd.Env = env
	cmd.Dir = dir
	var so bytes.Buffer
	cmd.Stdout = &so
	cmd.Stderr = &so
	err := cmd.Run()
	var r workerResult
	b, rerr := os.ReadFile(outf)
	if rerr != nil {
		return nil, fmt.Errorf("replay worker: %v %v: %s", err, rerr, so.String())
	}
	json.Unmarshal(b, &r)
	if err != nil && !r.Done {
		return &r, fmt.Errorf("replay worker died: %v: %s", err, so.String())
	}
	return &r, nil
}

func sameViolation(r *workerResult, class, site string) (*violOut, bool) {
	if r == nil {
		return nil, false
	}
	for i := range r.Violations {
		v := &r.Violations[i]
		if v.Violation.Class == class && v.Violation.Site == site {
			return v, true
		}
	}
	return nil, false
}

func nonzero(c []uint32) int {
	n := 0
	for _, v := range c {
		if v != 0 {
			n++
		}
	}
	return n
}

// minimise: ddmin over the choice list (delete chunks, then lower values),
// every candidate in a fresh worker process, W in parallel.
func minimise(bin, dir string, race bool, v violOut, budget float64, W int) ([]uint32, *violOut) {
	start := time.Now()
	cur := append([]uint32(nil), v.Choices...)
	best := &v
	class, site := v.Violation.Class, v.Violation.Site
	tagN := 0
	var tagMu sync.Mutex
	try := func(cands [][]uint32) (int, *violOut) {
		// evaluates candidates in parallel; returns lowest index that reproduces
		type res struct {
			ok bool
			v  *violOut
		}
		out := make([]res, len(cands))
		var wg sync.WaitGroup
		sem := make(chan struct{}, W)
		for i := range cands {
			wg.Add(1)
			sem <- struct{}{}
			go func(i int) {
				defer wg.Done()
				defer func() { <-sem }()
				tagMu.Lock()
				tagN++
				tag := fmt.Sprintf("m%d", tagN)
				tagMu.Unlock()
				r, err := replayOnce(bin, dir, race, v.Family, v.Run, cands[i], tag)
				if err != nil {
					return
				}
				if vo, ok := sameViolation(r, class, site); ok {
					out[i] = res{true, vo}
				}
			}(i)
		}
		wg.Wait()
		for i := range out {
			if out[i].ok {
				return i, out[i].v
			}
		}
		return -1, nil
	}
	timeUp := func() bool { return time.Since(start).Seconds() > budget }
	// trim trailing: binary search shortest prefix that still fails (suffix := zeros)
	// phase 1: chunk deletion
	n := 2
	for len(cur) > 0 && !timeUp() {
		chunk := (len(cur) + n - 1) / n
		if chunk < 1 {
			chunk = 1
		}
		var cands [][]uint32
		for s := 0; s < len(cur); s += chunk {
			e := s + chunk
			if e > len(cur) {
				e = len(cur)
			}
			c := append(append([]uint32(nil), cur[:s]...), cur[e:]...)
			cands = append(cands, c)
		}
		// also try zeroing chunks (keeps alignment)
		for s := 0; s < len(cur); s += chunk {
			e := s + chunk
			if e > len(cur) {
				e = len(cur)
			}
			allz := true
			for _, x := range cur[s:e] {
				if x != 0 {
					allz = false
				}
			}
			if allz {
				continue
			}
			c := append([]uint32(nil), cur...)
			for i := s; i < e; i++ {
				c[i] = 0
			}
			cands = append(cands, c)
		}
		if len(cands) > 256 {
			cands = cands[:256]
		}
		i, vo := try(cands)
		if i >= 0 {
			cur = cands[i]
			best = vo
			if n > 2 {
				n--
			}
			continue
		}
		if chunk == 1 {
			break
		}
		n *= 2
		if n > len(cur) {
			n = len(cur)
		}
	}
	// drop trailing zeros (replay pads with zeros anyway)
	for len(cur) > 0 && cur[len(cur)-1] == 0 {
		cur = cur[:len(cur)-1]
	}
	// phase 2: lower values
	for pass := 0; pass < 3 && !timeUp(); pass++ {
		changed := false
		var idxs []int
		for i, x := range cur {
			if x != 0 {
				idxs = append(idxs, i)
			}
		}
		for s := 0; s < len(idxs) && !timeUp(); s += W {
			e := s + W
			if e > len(idxs) {
				e = len(idxs)
			}
			var cands [][]uint32
			for _, i := range idxs[s:e] {
				c := append([]uint32(nil), cur...)
				if pass == 0 {
					c[i] = 0
				} else {
					c[i] = c[i] / 2
				}
				cands = append(cands, c)
			}
			// accept all that individually reproduce, one by one re-validated cumulatively
			for len(cands) > 0 {
				j, vo := try(cands)
				if j < 0 {
					break
				}
				cur = cands[j]
				best = vo
				changed = true
				// rebuild remaining candidates on top of the new cur
				rem := idxs[s:e][j+1:]
				idxsLeft := append([]int(nil), rem...)
				cands = nil
				for _, i := range idxsLeft {
					c := append([]uint32(nil), cur...)
					if pass == 0 {
						c[i] = 0
					} else {
						c[i] = c[i] / 2
					}
					cands = append(cands, c)
				}
				s2 := s + j + 1
				_ = s2
				break
			}
		}
		if !changed {
			break
		}
	}
	for len(cur) > 0 && cur[len(cur)-1] == 0 {
		cur = cur[:len(cur)-1]
	}
	return cur, best
}

func loadKnown() []knownFinding {
	var k []knownFinding
	b, err := os.ReadFile(filepath.Join(verifDir, "known_findings.json"))
	if err != nil {
		return nil
	}
	var wrap struct {
		Findings []knownFinding `json:"findings"`
	}
	if err := json.Unmarshal(b, &wrap); err != nil {
		die2("known_findings.json: %v", err)
	}
	k = wrap.Findings
	return k
}

func matchKnown(k []knownFinding, prop string, v violOut) *knownFinding {
	for i := range k {
		e := &k[i]
		if e.Status != "known" || e.Property != prop {
			continue
		}
		if e.Class != v.Violation.Class || e.Site != v.Violation.Site {
			continue
		}
		if e.Family != "" && e.Family != v.Family {
			continue
		}
		if e.Match != "" {
			re, err := regexp.Compile(e.Match)
			if err != nil || !re.MatchString(v.Violation.Msg) {
				continue
			}
		}
		return e
	}
	return nil
}

func sanitize(s string) string {
	s = strings.Map(func(r rune) rune {
		if (r >= 'a' && r <= 'z') || (r >= 'A' && r <= 'Z') || (r >= '0' && r <= '9') || r == '-' || r == '_' || r == '.' {
			return r
		}
		return '_'
	}, s)
	if len(s) > 80 {
		s = s[:80]
	}
	return s
}

func merge(dst, src map[string]int64) {
	for k, v := range src {
		dst[k] += v
	}
}

func main() {
	if len(os.Args) < 2 {
		fmt.Println("usage: driver check <PROP> <quick|thorough> [--replay F] | selftest-determinism <PROP>")
		os.Exit(2)
	}
	switch os.Args[1] {
	case "check":
		if len(os.Args) >= 5 && os.Args[3] == "--replay" {
			os.Exit(cmdReplay(os.Args[2], os.Args[4]))
		}
		if len(os.Args) >= 6 && os.Args[4] == "--replay" {
			os.Exit(cmdReplay(os.Args[2], os.Args[5]))
		}
		if len(os.Args) < 4 {
			die2("usage")
		}
		os.Exit(cmdCheck(os.Args[2], os.Args[3]))
	case "selftest-determinism":
		os.Exit(cmdDeterminism(os.Args[2:]))
	default:
		die2("unknown command %s", os.Args[1])
	}
}

func seedFromEnv() uint64 {
	if s := os.Getenv("VERIF_SEED"); s != "" {
		if v, err := strconv.ParseUint(s, 10, 64); err == nil {
			return v
		}
		if v, err := strconv.ParseInt(s, 10, 64); err == nil {
			return uint64(v)
		}
	}
	return uint64(time.Now().UnixNano()) & 0x7fffffffffff
}

func workersN() int {
	if s := os.Getenv("VERIF_WORKERS"); s != "" {
		if v, err := strconv.Atoi(s); err == nil && v > 0 {
			return v
		}
	}
	return 16
}

func cmdCheck(prop, tier string) int {
	pc, ok := props[prop]
	if !ok {
		die2("no check for property %s", prop)
	}
	if t := os.Getenv("VERIF_TIER"); t != "" && tier == "" {
		tier = t
	}
	tc := pc.Quick
	if tier == "thorough" {
		tc = pc.Thor
	} else {
		tier = "quick"
	}
	if s := os.Getenv("VERIF_RUNS_SCALE"); s != "" {
		if f, err := strconv.ParseFloat(s, 64); err == nil {
			tc.Runs = uint64(float64(tc.Runs) * f)
			tc.RaceRuns = uint64(float64(tc.RaceRuns) * f)
			tc.Deadline *= f
		}
	}
	seed := seedFromEnv()
	fmt.Printf("SEED %d property=%s tier=%s\n", seed, prop, tier)
	start := time.Now()
	W := workersN()
	dir := prepareScratch(pc.Stmt)
	defer os.RemoveAll(dir)
	tree := treeFingerprint()
	binPlain := buildWorker(dir, false)
	binRace := ""
	if pc.Race {
		binRace = buildWorker(dir, true)
	}
	buildS := time.Since(start).Seconds()

	bp := runWorkers(binPlain, dir, prop, seed, tc.Runs, tc, W, false, "", false)
	var br *batch
	if pc.Race {
		br = runWorkers(binRace, dir, prop, seed, tc.RaceRuns, tc, W, true, "", false)
	} else {
		br = &batch{sigs: map[uint64]struct{}{}}
	}

	// runs executed one per fresh process: lazily initialised package state is
	// "first used" once per process, so these give first-use races many chances
	if pc.FreshProc > 0 {
		fp := pc.FreshProc
		if tier == "thorough" {
			fp *= 8
		}
		for off := 0; off < fp; off += 64 {
			n := fp - off
			if n > 64 {
				n = 64
			}
			fb := runWorkers(binPlain, dir, prop, seed+uint64(off)+1, uint64(n), tc, n, false, "", false)
			bp.results = append(bp.results, fb.results...)
			bp.crashes = append(bp.crashes, fb.crashes...)
			bp.crashAt = append(bp.crashAt, fb.crashAt...)
			for k := range fb.sigs {
				bp.sigs[k] = struct{}{}
			}
			if pc.Race {
				fr := runWorkers(binRace, dir, prop, seed+uint64(off)+1, uint64(n), tc, n, true, "", false)
				br.results = append(br.results, fr.results...)
				br.crashes = append(br.crashes, fr.crashes...)
				br.crashAt = append(br.crashAt, fr.crashAt...)
				for k := range fr.sigs {
					br.sigs[k] = struct{}{}
				}
			}
		}
	}

	// determinism spot check on every invocation: the same 24 runs in two fresh
	// processes must produce identical per-run trace hashes
	detRuns, detMismatch := 0, 0
	{
		tcd := tc
		tcd.Deadline = 120
		d1 := runWorkers(binPlain, dir, prop, seed, 24, tcd, 1, false, "", true)
		d2 := runWorkers(binPlain, dir, prop, seed, 24, tcd, 1, false, "", true)
		if len(d1.results) == 1 && len(d2.results) == 1 {
			for k, h := range d1.results[0].Hashes {
				detRuns++
				if d2.results[0].Hashes[k] != h {
					detMismatch++
					fmt.Printf("NONDETERMINISM run %s: %s vs %s\n", k, h, d2.results[0].Hashes[k])
				}
			}
		}
	}

	// aggregate
	agg := &workerResult{PerFamily: map[string]int64{}, Faults: map[string]int64{}, Reach: map[string]int64{}, Outcomes: map[string]int64{}, Configs: map[string]int64{}}
	var viols []violOut
	var herrs []string
	evalByBuild := map[string]int64{}
	for _, b := range []*batch{bp, br} {
		for _, r := range b.results {
			agg.Evaluations += r.Evaluations
			evalByBuild[r.Build] += r.Evaluations
			agg.Nontrivial += r.Nontrivial
			merge(agg.PerFamily, r.PerFamily)
			merge(agg.Faults, r.Faults)
			merge(agg.Reach, r.Reach)
			merge(agg.Outcomes, r.Outcomes)
			merge(agg.Configs, r.Configs)
			agg.SimNS += r.SimNS
			agg.Steps += r.Steps
			agg.Switches += r.Switches
			agg.Preempts += r.Preempts
			agg.NViol += r.NViol
			for g, m := range r.Extra {
				if agg.Extra == nil {
					agg.Extra = map[string]map[string]int64{}
				}
				if agg.Extra[g] == nil {
					agg.Extra[g] = map[string]int64{}
				}
				for k, v := range m {
					if strings.HasPrefix(k, "expected") || strings.HasPrefix(k, "records") {
						if v > agg.Extra[g][k] {
							agg.Extra[g][k] = v
						}
					} else {
						agg.Extra[g][k] += v
					}
				}
			}
			viols = append(viols, r.Violations...)
			herrs = append(herrs, r.HarnessErrs...)
			if len(agg.Samples) < 6 {
				agg.Samples = append(agg.Samples, r.Samples...)
			}
		}
	}
	sigs := map[uint64]struct{}{}
	for s := range bp.sigs {
		sigs[s] = struct{}{}
	}
	for s := range br.sigs {
		sigs[s^0x5555] = struct{}{}
	}
	crashes := append(bp.crashes, br.crashes...)

	// worker deaths: watchdog (exit 3) or fatal error. Re-run the run it died
	// on in a fresh process; a reproducible death is a violation class "fatal"
	// or "hang"; a non-reproducible one is harness trouble.
	fatalViols := 0
	crashesUnexplained := 0
	var unexplained []string
	seenFatal := map[string]bool{}
	for _, ci := range append(append([]crashInfo(nil), bp.crashAt...), br.crashAt...) {
		if !ci.known {
			crashesUnexplained++
			unexplained = append(unexplained, ci.desc)
			fmt.Println("WORKER-DEATH (run unknown)", firstLine(ci.desc))
			continue
		}
		bin := binPlain
		if ci.race {
			bin = binRace
		}
		// re-run the run the worker died on, alone, in a fresh process, with a generous watchdog
		died, class, out := rerunSingle(bin, dir, prop, seed, ci.family, ci.run, ci.race, 3*tc.RunMS)
		if !died {
			crashesUnexplained++
			unexplained = append(unexplained, ci.desc)
			fmt.Printf("WORKER-DEATH not reproducible alone: family=%s run=%d: %s\n", ci.family, ci.run, firstLine(ci.desc))
			continue
		}
		site := fatalSite(out)
		if class == "fatal-error" && site == "unknown" {
			// the process died with no gmsm frame on any stack: the harness' own fault
			crashesUnexplained++
			unexplained = append(unexplained, "worker dies reproducibly on family="+ci.family+" run="+fmt.Sprint(ci.run)+" with no gmsm frame in the crash dump (harness bug):\n"+tailStr(out, 2000))
			fmt.Printf("WORKER-DEATH harness crash on family=%s run=%d: %s\n", ci.family, ci.run, firstLine(out))
			continue
		}
		key := class + "|" + site
		if seenFatal[key] {
			continue
		}
		seenFatal[key] = true
		fatalViols++
		rf := replayFile{Format: 1, Property: prop, Family: ci.family, Seed: seed, Run: ci.run, Build: map[bool]string{true: "race", false: "plain"}[ci.race],
			Violation: violation{Class: class, Site: site, Msg: tailStr(out, 3000)}, Tree: tree, Generate: true, ReplayVerified: true}
		rdir := filepath.Join(verifDir, "replays", prop)
		os.MkdirAll(rdir, 0755)
		path := filepath.Join(rdir, fmt.Sprintf("%s-%s-s%d-r%d.json", ci.family, sanitize(class+"-"+site), seed, ci.run))
		data, _ := json.MarshalIndent(rf, "", " ")
		os.WriteFile(path, data, 0644)
		fmt.Printf("VIOLATION property=%s replay=%s\n", prop, path)
		fmt.Printf("  class=%s site=%s family=%s run=%d (the worker process dies or hangs on this run; reproduced alone in a fresh process)\n", class, site, ci.family, ci.run)
	}
	crashes = unexplained

	sort.Slice(viols, func(i, j int) bool {
		if viols[i].Violation.Class != viols[j].Violation.Class {
			return viols[i].Violation.Class < viols[j].Violation.Class
		}
		if viols[i].Violation.Site != viols[j].Violation.Site {
			return viols[i].Violation.Site < viols[j].Violation.Site
		}
		if viols[i].NChoices != viols[j].NChoices {
			return viols[i].NChoices < viols[j].NChoices
		}
		return viols[i].Run < viols[j].Run
	})
	known := loadKnown()
	seen := map[string]bool{}
	knownSeen := map[string]int{}
	newViol := 0
	var replayPaths []string
	for _, v := range viols {
		key := v.Violation.Class + "|" + v.Violation.Site
		if e := matchKnown(known, prop, v); e != nil {
			knownSeen[e.Class+"|"+e.Site+"|"+e.What]++
			continue
		}
		if seen[key] {
			continue
		}
		seen[key] = true
		newViol++
		if newViol > 12 {
			continue
		}
		bin := binPlain
		race := v.Build == "race"
		if race {
			bin = binRace
		}
		rf := replayFile{Format: 1, Property: prop, Family: v.Family, Seed: v.Seed, Run: v.Run, Build: v.Build,
			Choices: v.Choices, Decoded: v.Decoded, Violation: v.Violation, TraceHash: v.TraceHash, Tree: tree,
			ChoicesBefore: len(v.Choices), NonzeroBefore: nonzero(v.Choices)}
		if len(v.Choices) > 0 {
			// confirm in a fresh process first
			r0, err := replayOnce(bin, dir, race, v.Family, v.Run, v.Choices, "confirm")
			if vo, ok := sameViolation(r0, v.Violation.Class, v.Violation.Site); err == nil && ok {
				rf.ReplayVerified = true
				if vo.TraceHash != v.TraceHash {
					fmt.Printf("NOTE replay trace hash differs from generating run (%s vs %s)\n", vo.TraceHash, v.TraceHash)
				}
				minS := tc.MinimiseS
				if e := os.Getenv("VERIF_MINIMISE_S"); e != "" {
					// (the seeded regression only needs to know whether the change is caught)
					if x, err := strconv.ParseFloat(e, 64); err == nil {
						minS = x
					}
				}
				mc, best := minimise(bin, dir, race, v, minS, W)
				rf.Choices = mc
				rf.Minimised = true
				rf.Decoded = best.Decoded
				rf.Violation = best.Violation
				rf.TraceHash = best.TraceHash
			} else if v.Violation.Class == "data-race" {
				// The race detector keeps a bounded access history per memory cell; whether
				// an old access is still remembered depends on heap layout, which differs
				// between the batch process and a fresh one. A report is never invented,
				// so it stands; try again accepting any racing pair of the same run.
				confirmed := false
				for try := 0; try < 3 && !confirmed; try++ {
					rr, e := replayOnce(bin, dir, race, v.Family, v.Run, v.Choices, fmt.Sprintf("confirm%d", try))
					if e == nil && rr != nil {
						for i := range rr.Violations {
							if rr.Violations[i].Violation.Class == "data-race" {
								confirmed = true
								rf.Violation = rr.Violations[i].Violation
								rf.TraceHash = rr.Violations[i].TraceHash
							}
						}
					}
				}
				rf.ReplayVerified = confirmed
				if !confirmed {
					fmt.Printf("NOTE data race at %s was reported by the race detector in the batch process but not again in isolation (bounded shadow history); reported with the original report\n", v.Violation.Site)
				}
			} else {
				fmt.Printf("HARNESS-ERROR violation %s at %s (family %s run %d) did not reproduce in a fresh process: %v\n", v.Violation.Class, v.Violation.Site, v.Family, v.Run, err)
				herrs = append(herrs, "non-reproducible violation "+key)
				newViol--
				continue
			}
		}
		rf.ChoicesAfter = len(rf.Choices)
		rf.NonzeroAfter = nonzero(rf.Choices)
		rdir := filepath.Join(verifDir, "replays", prop)
		os.MkdirAll(rdir, 0755)
		path := filepath.Join(rdir, fmt.Sprintf("%s-%s-s%d-r%d.json", v.Family, sanitize(v.Violation.Class+"-"+v.Violation.Site), v.Seed, v.Run))
		data, _ := json.MarshalIndent(rf, "", " ")
		os.WriteFile(path, data, 0644)
		replayPaths = append(replayPaths, path)
		fmt.Printf("VIOLATION property=%s replay=%s\n", prop, path)
		fmt.Printf("  class=%s site=%s family=%s run=%d choices %d->%d (nonzero %d->%d)\n  %s\n", rf.Violation.Class, rf.Violation.Site, v.Family, v.Run, rf.ChoicesBefore, rf.ChoicesAfter, rf.NonzeroBefore, rf.NonzeroAfter, firstLine(rf.Violation.Msg))
	}
	var kkeys []string
	for k := range knownSeen {
		kkeys = append(kkeys, k)
	}
	sort.Strings(kkeys)
	for _, k := range kkeys {
		parts := strings.SplitN(k, "|", 3)
		fmt.Printf("KNOWN-FINDING: property=%s class=%s site=%s occurrences=%d %s\n", prop, parts[0], parts[1], knownSeen[k], parts[2])
	}

	wall := time.Since(start).Seconds()
	// evidence
	var samples []interface{}
	for _, s := range agg.Samples {
		samples = append(samples, s)
	}
	if len(samples) == 0 {
		samples = append(samples, map[string]interface{}{"note": "no decoded sample produced"})
	}
	runWall := wall - buildS
	if runWall < 0.001 {
		runWall = 0.001
	}
	ev := map[string]interface{}{
		"property_id": prop, "tier": tier, "seed": seed, "level": pc.Level, "wall_s": wall, "violations": newViol + fatalViols,
		"coverage": map[string]interface{}{
			"evaluations":          agg.Evaluations,
			"distinct_nontrivial":  len(sigs),
			"rule":                 pc.Rule,
			"samples":              samples,
			"exhaustive":           false,
			"runs_per_hour":        int64(float64(agg.Evaluations) / runWall * 3600),
			"simulated_seconds":    float64(agg.SimNS) / 1e9,
			"scheduler_steps":      agg.Steps,
			"task_switches":        agg.Switches,
			"preemptions":          agg.Preempts,
			"faults_fired":         agg.Faults,
			"reach":                agg.Reach,
			"outcomes":             agg.Outcomes,
			"configuration_class":  agg.Configs,
			"runs_per_family":      agg.PerFamily,
			"runs_per_build":       evalByBuild,
			"nontrivial_runs":      agg.Nontrivial,
			"known_findings_seen":  knownSeen,
			"real_code":            pc.Real,
			"stubs":                pc.Stubs,
			"build_s":              buildS,
			"workers":              W,
			"tree":                 tree,
			"worker_deaths":        len(crashes),
			"harness_errors":       len(herrs),
			"replay_files_written": replayPaths,
			"counter_groups":       agg.Extra,
			"determinism_selftest": map[string]int{"runs_executed_twice_in_fresh_processes": detRuns, "trace_hash_mismatches": detMismatch},
		},
		"assumptions": pc.Assume,
	}
	// evidence describes /repo; runs against another tree (the seeded regression
	// with VERIF_REPO) write theirs elsewhere
	evDir := filepath.Join(verifDir, "evidence")
	if d := os.Getenv("VERIF_EVIDENCE_DIR"); d != "" {
		evDir = d
	}
	os.MkdirAll(evDir, 0755)
	data, _ := json.MarshalIndent(ev, "", " ")
	os.WriteFile(filepath.Join(evDir, prop+".json"), data, 0644)
	// fault kinds and reach probes that never fired: the workload or the fault mix
	// does not get there (or a name is dead); reported, never a failure
	var never []string
	for k, v := range agg.Faults {
		if v == 0 {
			never = append(never, "fault:"+k)
		}
	}
	for k, v := range agg.Reach {
		if v == 0 && k != "porcupine-unknown" {
			never = append(never, "reach:"+k)
		}
	}
	sort.Strings(never)
	if len(never) > 0 {
		fmt.Printf("NOTE never fired in this batch: %s\n", strings.Join(never, ", "))
	}
	fmt.Printf("SUMMARY property=%s tier=%s runs=%d distinct_nontrivial=%d violations_new=%d known=%d wall=%.1fs (build %.1fs)\n", prop, tier, agg.Evaluations, len(sigs), newViol+fatalViols, len(knownSeen), wall, buildS)

	if detMismatch > 0 {
		fmt.Println("HARNESS-ERROR the simulation is not deterministic on this tree (see NONDETERMINISM lines): the code under test or the harness draws on a source the simulator does not own")
		if newViol+fatalViols == 0 {
			return 2
		}
	}
	if len(herrs) > 0 || len(crashes) > 0 {
		for i, h := range herrs {
			if i < 5 {
				fmt.Println("HARNESS-ERROR", firstLine(h))
				if os.Getenv("VERIF_DEBUG") != "" {
					fmt.Println(h)
				}
			}
		}
		if newViol == 0 {
			return 2
		}
	}
	if newViol+fatalViols > 0 {
		return 1
	}
	if agg.Evaluations == 0 {
		die2("no runs executed")
	}
	return 0
}

func firstLine(s string) string {
	if i := strings.IndexByte(s, '\n'); i >= 0 {
		s = s[:i]
	}
	if len(s) > 400 {
		s = s[:400]
	}
	return s
}

func cmdReplay(prop, path string) int {
	b, err := os.ReadFile(path)
	if err != nil {
		die2("replay: %v", err)
	}
	var rf replayFile
	if err := json.Unmarshal(b, &rf); err != nil {
		die2("replay: %v", err)
	}
	dir := prepareScratch(props[prop].Stmt)
	defer os.RemoveAll(dir)
	race := rf.Build == "race"
	bin := buildWorker(dir, race)
	if rf.Generate {
		died, class, out := rerunSingle(bin, dir, prop, rf.Seed, rf.Family, rf.Run, race, 3*props[prop].Quick.RunMS)
		if died && class == rf.Violation.Class {
			fmt.Printf("VIOLATION property=%s replay=%s\n", prop, path)
			fmt.Printf("  class=%s site=%s\n", class, fatalSite(out))
			return 1
		}
		fmt.Printf("REPLAY no %s (process finished normally)\n", rf.Violation.Class)
		return 0
	}
	r, err := replayOnce(bin, dir, race, rf.Family, rf.Run, rf.Choices, "replay")
	if err != nil {
		die2("replay: %v", err)
	}
	if len(r.HarnessErrs) > 0 {
		die2("replay: %s", r.HarnessErrs[0])
	}
	vo, ok := sameViolation(r, rf.Violation.Class, rf.Violation.Site)
	if !ok && rf.Violation.Class == "data-race" {
		for i := range r.Violations {
			if r.Violations[i].Violation.Class == "data-race" {
				vo, ok = &r.Violations[i], true
			}
		}
	}
	if !ok {
		if len(r.Violations) > 0 {
			fmt.Printf("REPLAY different violation: class=%s site=%s (expected class=%s site=%s)\n", r.Violations[0].Violation.Class, r.Violations[0].Violation.Site, rf.Violation.Class, rf.Violation.Site)
		} else {
			fmt.Printf("REPLAY no violation (expected class=%s site=%s)\n", rf.Violation.Class, rf.Violation.Site)
		}
		return 0
	}
	tree := treeFingerprint()
	if tree == rf.Tree && vo.TraceHash != rf.TraceHash {
		fmt.Printf("REPLAY-NONDETERMINISM trace hash %s != recorded %s on the same tree\n", vo.TraceHash, rf.TraceHash)
		return 2
	}
	fmt.Printf("VIOLATION property=%s replay=%s\n", prop, path)
	fmt.Printf("  class=%s site=%s trace_hash=%s\n  %s\n", vo.Violation.Class, vo.Violation.Site, vo.TraceHash, firstLine(vo.Violation.Msg))
	return 1
}

// cmdDeterminism: run the same seeds in several processes with different
// worker counts and compare per-run trace hashes.
func cmdDeterminism(args []string) int {
	if len(args) < 1 {
		die2("usage: selftest-determinism <PROP> [runs]")
	}
	prop := args[0]
	pc, ok := props[prop]
	if !ok {
		die2("no such property")
	}
	runs := uint64(400)
	if len(args) > 1 {
		if v, err := strconv.ParseUint(args[1], 10, 64); err == nil {
			runs = v
		}
	}
	seed := seedFromEnv()
	dir := prepareScratch(pc.Stmt)
	defer os.RemoveAll(dir)
	bins := []string{buildWorker(dir, false)}
	races := []bool{false}
	if pc.Race {
		bins = append(bins, buildWorker(dir, true))
		races = append(races, true)
	}
	tc := pc.Quick
	tc.Deadline = 600
	mismatch := 0
	compared := 0
	for bi, bin := range bins {
		ref := map[string]string{}
		for pass, W := range []int{1, 4, 16, 16, 7} {
			b := runWorkers(bin, dir, prop, seed, runs, tc, W, races[bi], "", true)
			for _, c := range b.crashes {
				fmt.Println("WORKER-DEATH", firstLine(c))
			}
			for _, r := range b.results {
				for k, h := range r.Hashes {
					if pass == 0 {
						ref[k] = h
					} else if rh, ok := ref[k]; ok {
						compared++
						if rh != h {
							mismatch++
							if mismatch < 10 {
								fmt.Printf("NONDETERMINISM %s build=%v workers=%d: %s vs %s\n", k, races[bi], W, rh, h)
							}
						}
					}
				}
			}
		}
		fmt.Printf("determinism: property=%s race=%v runs=%d compared=%d mismatches=%d\n", prop, races[bi], len(ref), compared, mismatch)
	}
	if mismatch > 0 {
		return 2
	}
	return 0
}

// rerunSingle executes one run alone. died=true if the process exits
// abnormally (fatal error, watchdog) again.
func rerunSingle(bin, dir, prop string, seed uint64, family string, run uint64, race bool, runMS int) (died bool, class string, out string) {
	outf := filepath.Join(dir, fmt.Sprintf("rerun-%s-%d.json", family, run))
	args := []string{"-prop", prop, "-fam", family, "-seed", strconv.FormatUint(seed, 10), "-from", strconv.FormatUint(run, 10), "-n", "1", "-out", outf, "-runms", strconv.Itoa(runMS)}
	env := append(os.Environ(), "GOMAXPROCS=1")
	if race {
		rl := filepath.Join(dir, "racelog-rerun")
		args = append(args, "-racelog", rl)
		env = append(env, "GORACE=halt_on_error=0 exitcode=0 suppress_equal_stacks=0 suppress_equal_addresses=0 log_path="+rl+" history_size=3")
	}
	cmd := exec.Command(bin, args...)
	cmd.Env = env
	cmd.Dir = dir
	var so bytes.Buffer
	cmd.Stdout = &so
	cmd.Stderr = &so
	err := cmd.Run()
	var r workerResult
	if b, e := os.ReadFile(outf); e == nil {
		json.Unmarshal(b, &r)
	}
	os.Remove(outf)
	os.Remove(outf + ".sigs")
	if err == nil && r.Done {
		return false, "", ""
	}
	class = "fatal-error"
	if wd, e := os.ReadFile(outf + ".watchdog"); e == nil {
		os.Remove(outf + ".watchdog")
		class = "hang"
		return true, class, string(wd) + "\n" + so.String()
	}
	return true, class, so.String()
}

// fatalSite extracts the first gmsm frame from a Go crash dump.
func fatalSite(out string) string {
	for _, ln := range strings.Split(out, "\n") {
		t := strings.TrimSpace(ln)
		if strings.HasPrefix(t, "github.com/tjfoc/gmsm/") && !strings.HasPrefix(t, "github.com/tjfoc/gmsm/verifsim/") {
			if i := strings.LastIndex(t, "("); i > 0 {
				t = t[:i]
			}
			return strings.TrimPrefix(t, "github.com/tjfoc/gmsm/")
		}
	}
	if strings.Contains(out, "WATCHDOG") {
		return "watchdog"
	}
	return "unknown"
}

func tailStr(s string, n int) string {
	if len(s) > n {
		return s[len(s)-n:]
	}
	return s
}
