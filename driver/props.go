package main

func init() {
	realAll := []string{"all gmsm code involved in the scenario: a scratch copy of /repo's working tree, instrumented by /verif/rewrite (locks, once, atomics, time.Now), built for this run"}
	props["C19"] = propCfg{
		Level: "exploration",
		Quick: tierCfg{Runs: 400000, Deadline: 45, RunMS: 20000, MinimiseS: 20},
		Thor:  tierCfg{Runs: 40000000, Deadline: 540, RunMS: 20000, MinimiseS: 120},
		Rule: "each run draws (from one seeded choice stream) a pipeline {PKCS7PaddingReader, PKCS7PaddingWriter+Final, P7BlockEnc->P7BlockDecrypt over stdlib AES/DES-CBC}, block size 8/16, a source length 0..5000 (dense at block and 1 KiB boundaries), per-Read source behaviour (full, short non-EOF, 1 byte, (0,nil), data+EOF), caller buffer sizes 1..4096, write sizes 1..8192, invalid final-block classes, and in the ioerr family one injected source/sink error at a drawn offset; oracle = reference padding model (exact equality fault-free; error surfaced + emitted bytes a prefix under an injected error). distinct_nontrivial = number of distinct run signatures (hash of pipeline, block size, length, the sequence of drawn buffer/write sizes and invalid/fault class); every run is non-trivial (all exercise chunked I/O).",
		Real:   realAll,
		Stubs:  []string{"simio.Source / simio.Sink (simulated reader and writer)", "stdlib crypto/aes, crypto/des CBC as the block mode under the helpers", "refpad reference model"},
		Assume: []string{"refpad is the PKCS#7 definition (6 lines)", "stdlib CBC is correct"},
	}
	props["C04"] = propCfg{
		Level: "exploration",
		Quick: tierCfg{Runs: 300000, Deadline: 45, RunMS: 30000, MinimiseS: 20},
		Thor:  tierCfg{Runs: 30000000, Deadline: 540, RunMS: 30000, MinimiseS: 120},
		Rule: "each run draws a message length (dense at 0,55,56,63,64,65,119,120,k*64±1, up to 8 KiB; rarely 1-4 MiB), a partition into writes (incl. empty and 1-byte writes, one reused buffer overwritten after Write returns) and an operation history of <=32 ops over {Write, Sum(nil), Sum(prefix with/without spare capacity), Reset, Size}; the same history is applied to the independent reference SM3 and compared after every op; HMAC-SM3 and PBKDF2-SM3 are instantiated over both. distinct_nontrivial = distinct run signatures (hash of message length and the op/chunk sequence).",
		Real:   realAll,
		Stubs:  []string{"refsm3 (reference SM3 written from GM/T 0004, validated against the standard's examples and 44 OpenSSL vectors)", "stdlib crypto/hmac and x/crypto/pbkdf2 (the definitions being instantiated)"},
		Assume: []string{"refsm3 equals GM/T 0004 (cross-checked against OpenSSL 3.5.6)"},
	}
}
