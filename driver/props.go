package main

func init() {
	realAll := []string{"all gmsm code involved in the scenario: a scratch copy of /repo's working tree, instrumented by /verif/rewrite (locks, once, atomics, time.Now), built for this run"}
	props["C19"] = propCfg{
		Level:  "exploration",
		Quick:  tierCfg{Runs: 400000, Deadline: 45, RunMS: 20000, MinimiseS: 20},
		Thor:   tierCfg{Runs: 40000000, Deadline: 540, RunMS: 20000, MinimiseS: 120},
		Rule:   "each run draws (from one seeded choice stream) a pipeline {PKCS7PaddingReader, PKCS7PaddingWriter+Final, P7BlockEnc->P7BlockDecrypt over stdlib AES/DES-CBC}, block size 8/16, a source length 0..5000 (dense at block and 1 KiB boundaries), per-Read source behaviour (full, short non-EOF, 1 byte, (0,nil), data+EOF), caller buffer sizes 1..4096, write sizes 1..8192, invalid final-block classes, and in the ioerr family one injected source/sink error at a drawn offset; oracle = reference padding model (exact equality fault-free; error surfaced + emitted bytes a prefix under an injected error). distinct_nontrivial = number of distinct run signatures (hash of pipeline, block size, length, the sequence of drawn buffer/write sizes and invalid/fault class); every run is non-trivial (all exercise chunked I/O).",
		Real:   realAll,
		Stubs:  []string{"simio.Source / simio.Sink (simulated reader and writer)", "stdlib crypto/aes, crypto/des CBC as the block mode under the helpers", "refpad reference model"},
		Assume: []string{"refpad is the PKCS#7 definition (6 lines)", "stdlib CBC is correct"},
	}
	props["C04"] = propCfg{
		Level:  "exploration",
		Quick:  tierCfg{Runs: 300000, Deadline: 75, RunMS: 30000, MinimiseS: 20},
		Thor:   tierCfg{Runs: 30000000, Deadline: 540, RunMS: 30000, MinimiseS: 120},
		Rule:   "each run draws a message length (dense at 0,55,56,63,64,65,119,120,k*64±1, up to 8 KiB; rarely 1-4 MiB), a partition into writes (incl. empty and 1-byte writes, one reused buffer overwritten after Write returns) and an operation history of <=32 ops over {Write, Sum(nil), Sum(prefix with/without spare capacity), Reset, Size}; the same history is applied to the independent reference SM3 and compared after every op; HMAC-SM3 and PBKDF2-SM3 are instantiated over both. distinct_nontrivial = distinct run signatures (hash of message length and the op/chunk sequence).",
		Real:   realAll,
		Stubs:  []string{"refsm3 (reference SM3 written from GM/T 0004, validated against the standard's examples and 44 OpenSSL vectors)", "stdlib crypto/hmac and x/crypto/pbkdf2 (the definitions being instantiated)"},
		Assume: []string{"refsm3 equals GM/T 0004 (cross-checked against OpenSSL 3.5.6)"},
	}
}

func init() {
	realAll := []string{"all gmsm code involved in the scenario: a scratch copy of /repo's working tree, instrumented by /verif/rewrite (locks, once, atomics, time.Now), built for this run"}
	props["C06"] = propCfg{
		Level:  "exploration",
		Quick:  tierCfg{Runs: 12000, Deadline: 70, RunMS: 60000, MinimiseS: 40},
		Thor:   tierCfg{Runs: 3000000, Deadline: 1500, RunMS: 60000, MinimiseS: 240},
		Rule:   "each run draws one configuration (server mode x client protocol x suite lists and preference x versions x ClientAuth x client certificate x certificate source x tickets x record sizing x verification setting), payloads 0..200 KiB per direction with drawn write fragments and read buffers, a benign network (segmentation, latency, jitter, short reads, finite windows, read-deadline retries) and a scheduling policy; client and server (real gmtls; stdlib crypto/tls as third implementation on the TLS path) run as tasks over simnet. Oracles: policy model (Appendix A), agreement of both ends, exported keying material, byte streams, independent wire decode. distinct_nontrivial = distinct run signatures (hash of the full parameter vector, network configuration and negotiated outcome).",
		Real:   realAll,
		Stubs:  []string{"simnet (network)", "virtual clock", "entropy streams (Config.Rand)", "fixture PKI (OpenSSL-generated)", "stdlib crypto/tls peer (TLS path)", "reftls wire decoder (GMSSL sessions; TLS 1.2 sessions with RSA or ECDHE key exchange and AES suites)"},
		Assume: []string{"policy model encodes only what Config's documentation and GM/T 0024 / RFC 5246 state; ambiguous combinations are 'unspecified'", "reference primitives validated against OpenSSL 3.5.6"},
	}
}

func init() {
	realAll := []string{"all gmsm code involved in the scenario: a scratch copy of /repo's working tree, instrumented by /verif/rewrite (locks, once, atomics, time.Now), built for this run"}
	props["C07"] = propCfg{
		Level:  "fault_enumeration",
		Quick:  tierCfg{Runs: 66000, Deadline: 100, RunMS: 60000, MinimiseS: 40},
		Thor:   tierCfg{Runs: 4000000, Deadline: 1500, RunMS: 60000, MinimiseS: 240},
		Rule:   "families: tls-conn-replay (the recorded byte stream of a whole honest connection - full or abbreviated handshake, client side or server side - played to a fresh endpoint of the same configuration must not complete nor deliver anything); tls-record-writefault; tls-record-padding; and the two main ones. tls-record-sweep (enumerated): for a seed-chosen small GMSSL session (every record <= 128 bytes) one simulated run per fault position — every bit of every protected record (Finished, data, close_notify) of both directions, every truncation length, extension by 1..32 bytes, drop, duplicate, adjacent swap, length-field+1; run k of the family is position k of session k/12330. tls-record-attack (sampled): payloads up to 16 KiB per write, both GM suites and TLS suites, 15 fault kinds incl. replay of earlier records, cross-direction and cross-connection injection, header rewrites, FIN before/inside a record, on a drawn record under drawn network behaviour and schedules. Oracle: delivered bytes are a prefix of sent bytes after every Read; exactly the plaintext of the records before the first affected one (computed by the independent decoder from the sender's capture and key log); non-EOF sticky error; fatal alert on the wire; IV/nonce/sequence audit of every session. distinct_nontrivial = distinct signatures (suite, fault kind, direction, affected record and its type, bit class / exact position in sweep runs) among runs in which the fault actually fired.",
		Real:   realAll,
		Stubs:  []string{"simnet (network)", "attacker relay tasks", "virtual clock", "entropy streams", "fixture PKI", "reftls decoder (expected plaintext per record, alerts, nonce audit)"},
		Assume: []string{"reftls record layer written from GM/T 0024 / RFC 5246 / RFC 5288, cross-validated by decoding every benign C06 session", "TLS-suite sessions (no reference decoder) use the prefix + detection oracle only"},
	}
}

func init() {
	realAll := []string{"all gmsm code involved in the scenario: a scratch copy of /repo's working tree, instrumented by /verif/rewrite (locks, once, atomics, time.Now, and ~3800 statement-level yield points in sm4, sm3, sm2, x509/ber, cert_pool, verify, pkcs7 and the gmtls connection, configuration, ticket and handshake files), built plain and with -race for this run"}
	props["C20"] = propCfg{
		FreshProc: 64,
		Stmt:      true,
		Race:      true,
		Level:     "exploration",
		Quick:     tierCfg{Runs: 7000, RaceRuns: 800, Deadline: 60, RunMS: 120000, MinimiseS: 30},
		Thor:      tierCfg{Runs: 1500000, RaceRuns: 300000, Deadline: 1200, RunMS: 90000, MinimiseS: 240},
		Rule:      "each run draws a program (one shared sm4 cipher.Block; package-level SM2/SM3/SM4/X.509/PKCS#7 operations on separate data, optionally with the curve uninitialised; LRU session cache Get/Put; one CertPool under concurrent Verify; one established connection with 1-2 readers, 1-3 writers per side and an optional Close at a drawn instant; one server Config serving 2-5 simultaneous handshakes with ticket-key rotation and Clone; a client whose parked reader receives HelloRequests from a reference server while 1-4 other tasks call Handshake/Read(nil)/ConnectionState/Write, compared with the same session run with the reader alone; a Write or Read parked in the transport and interrupted by SetDeadline/SetReadDeadline/SetWriteDeadline from another task; 2-6 simultaneous first handshakes asking one multi-certificate Config for different names, compared with lone handshakes on fresh Configs; 2-4 simultaneous gmtls.Dial calls to two hosts sharing one Config, the dialer answered by the simulated network), 2..32 tasks and a scheduling policy (no preemption / mean gap 2, 12, 100 yield points / PCT with 1-3 priority change points); the scheduler owns every interleaving at statement, lock, once and atomic granularity. Oracles: result == result of the same call run alone beforehand; porcupine linearizability of the cache and of each connection direction (FIFO pipe with atomic writes); Go race detector evaluated on the simulated interleaving (race build; the baton is invisible to it); deadlock and panic. distinct_nontrivial = distinct run signatures (program, task count, policy) x schedule hash among runs with at least one preemption or contended switch.",
		Real:      realAll,
		Stubs:     []string{"cooperative scheduler + baton (replaces the Go scheduler's choices; OnSite/Boost place a concurrent call at a drawn statement)", "simnet", "entropy streams", "fixture PKI", "porcupine (checker)"},
		Assume:    []string{"race detector's bounded shadow history can miss a race, it cannot invent one", "statement-level yields only in the listed files; elsewhere preemption happens at lock/once/atomic/network points"},
	}
}

func init() {
	realAll := []string{"all gmsm code involved in the scenario: a scratch copy of /repo's working tree, instrumented by /verif/rewrite (locks, once, atomics, time.Now), built for this run"}
	props["C15"] = propCfg{
		Level:  "exploration",
		Quick:  tierCfg{Runs: 40000, Deadline: 70, RunMS: 60000, MinimiseS: 40},
		Thor:   tierCfg{Runs: 6000000, Deadline: 1500, RunMS: 60000, MinimiseS: 240},
		Rule:   "tls-scripted-reneg (one run in eight): a client that allows renegotiation completes an honest handshake with the reference server, which then requests a renegotiation, takes the new ClientHello and misbehaves in one of seven ways; the Read that ran the second handshake must fail and Handshake/ConnectionState/Read/Write are probed afterwards. tls-scripted-peer: each run puts one gmtls endpoint (client; server in GMSSL-only, auto-switch or TLS mode; with or without client authentication; both GM suites) against the scripted reference peer on simnet and draws a script: honest; 1-3 wire deviations at drawn message indices (wrong type, duplicate, omit, truncation with/without length adjustment, rewritten length/count bytes, rewritten handshake length, inserted application data / ChangeCipherSpec / unknown record / alerts, end of stream before or inside any record, stall, oversized record, wrong record version, warning alerts, empty records; legal: fragmentation, coalescing); hello-level content (version 0x0000..0x0400, suite lists, compression, unknown extensions; ServerHello version/suite/compression; certificate lists incl. non-EC keys); or a stall with a virtual-time read deadline. The reference peer keeps its honest transcript, so any deviation that changes handshake bytes must make the endpoint fail. Oracle: error and never complete for violations, completion + data for legal variations, no panic, endpoint returns once the peer's stream ended, timeout error at the virtual deadline. distinct_nontrivial = distinct signatures (role, script text, deviation kinds and positions) among non-honest runs.",
		Real:   realAll,
		Stubs:  []string{"simnet (network)", "virtual clock", "entropy streams", "fixture PKI", "reftls scripted peer (independent GM/T 0024 client and server; TLS 1.2 client and server with RSA and ECDHE_RSA key exchange, AES/SHA/curves from the Go standard library)"},
		Assume: []string{"reftls endpoints interoperate with unmodified gmtls in both roles (honest scripts are part of every batch and must complete)"},
	}
}

func init() {
	realAll := []string{"all gmsm code involved in the scenario: a scratch copy of /repo's working tree, instrumented by /verif/rewrite (locks, once, atomics, time.Now), built for this run"}
	props["C08"] = propCfg{
		Level:  "exploration",
		Quick:  tierCfg{Runs: 30000, Deadline: 80, RunMS: 60000, MinimiseS: 40},
		Thor:   tierCfg{Runs: 5000000, Deadline: 1500, RunMS: 60000, MinimiseS: 240},
		Rule:   "two families. tls-auth-impostor: the scripted reference endpoint terminates the connection itself against an honest gmtls client (items S0-S12: untrusted CA, expired / not yet valid / clock skew of the verifying node across a narrow validity window, wrong name, RSA and P-256 leaves, ServerKeyExchange signed by another key / over replayed randoms from an earlier session of the same run / over another encryption certificate / omitted / malformed, no encryption key with a guessed pre-master, certificates swapped, single certificate) or an honest gmtls server under each ClientAuth policy (items C0-C9: no certificate, untrusted CA, CertificateVerify by another key / over another session's transcript / omitted, self-signed certificate under the lax policies, expired certificate, server clock skew); expected verdict per item and policy (not everything fails). tls-auth-mitm: a rewriting man in the middle between two honest gmtls endpoints changes one plaintext handshake message (byte flip, replacement by the same message of an earlier session, drop, duplicate, swap, suite stripping, ServerHello suite change, certificate substitution) or only re-fragments; oracle: never both complete with different views (messages sent vs received reconstructed from taps on both sides). distinct_nontrivial = distinct signatures (item or rewrite kind, suite, policy, direction, message index and type).",
		Real:   realAll,
		Stubs:  []string{"simnet (network)", "attacker tasks (impostor = reftls endpoint, GM/T 0024 or TLS 1.2; stdlib crypto/tls as certificate-level impostor; rewriting relay)", "virtual clock with per-node skew", "entropy streams", "fixture PKI"},
		Assume: []string{"reftls endpoints interoperate with unmodified gmtls (honest items S0/C0 in every batch)"},
	}
}

func init() {
	realAll := []string{"all gmsm code involved in the scenario: a scratch copy of /repo's working tree, instrumented by /verif/rewrite (locks, once, atomics, time.Now), built for this run"}
	props["C16"] = propCfg{
		Level:  "exploration",
		Quick:  tierCfg{Runs: 10000, Deadline: 80, RunMS: 90000, MinimiseS: 40},
		Thor:   tierCfg{Runs: 1500000, Deadline: 1500, RunMS: 90000, MinimiseS: 240},
		Rule:   "each run is a history of 2..6 operations between one client identity with one LRU session cache (capacity 1..3) and one or two server configurations (GMSSL or TLS mode; shared or separate ticket keys; explicit or default suite lists): connections (gmtls client), ticket-key rotations keeping or dropping the old key, restarts keeping or losing the key, suite-list / ClientAuth / tickets-enabled changes, connections to another server name (eviction), clock jumps, and - through the reference client, GMSSL - genuine tickets, tickets with a substituted byte, truncated or extended tickets and tickets whose suite is not offered. A ~60-line reference model of the resumption policy watches NewSessionTicket messages on the wire joined with the key log and decides, per connection: DidResume equal on both ends; resumed => ticket byte-identical to an issued one, its key generation still configured, suite offered and configured, client-certificate policy compatible, tickets enabled (soundness); genuine ticket + unchanged configuration with explicit suite list => resumed (completeness); resumed => same version, suite, peer identity, and the wire decodes under the ORIGINAL master secret; old-key ticket => refreshed; not resumed => silent full handshake; no panic. distinct_nontrivial = distinct history strings (operation sequences with their parameters) among histories longer than one operation.",
		Real:   realAll,
		Stubs:  []string{"simnet (network)", "virtual clock with jumps", "entropy streams", "fixture PKI", "reftls client (forged tickets, GMSSL and TLS 1.2) and decoder (resumed sessions under the original master)", "in-path relay damaging the server's last flight", "resumption policy model"},
		Assume: []string{"policy model encodes DESIGN.md Appendix D; completeness demanded only for unchanged configurations with explicit suite lists, as the property states"},
	}
}
